#!/venv/bin/python
"""Re-evaluate every seeded change in memory (patch applied to the source
texts, never to /repo) with all claimed checks, and refresh
seeded/<id>/meta.json:flagged_by_checks accordingly."""
import json
import os
import sys
from concurrent.futures import ProcessPoolExecutor
HERE = os.path.dirname(os.path.abspath(__file__))
sys.path.insert(0, HERE)


def one(sid):
    from sa.selftest.corpus import _apply_unified_diff
    from sa.selftest.run import analyse_variant
    from sa.model import Model
    from sa import props as P
    base = Model.load().texts()
    diff = open(os.path.join(HERE, "seeded", sid, "patch.diff")).read()
    new = _apply_unified_diff(dict(base), diff)
    changed = {k: v for k, v in new.items() if base.get(k) != v}
    res = analyse_variant(changed, sorted(P.PROPS))
    out = {}
    for pid, (st, viol, errs) in sorted(res.items()):
        items = sorted({"%s [%s]" % (v[0], v[1]) for v in viol})
        items += sorted({"ANALYSIS-ERROR %s %s" % (e[0], e[1][:80])
                         for e in errs})
        if items:
            out[pid] = items
    return sid, out


def main():
    ids = sorted(d for d in os.listdir(os.path.join(HERE, "seeded"))
                 if os.path.isdir(os.path.join(HERE, "seeded", d)))
    with ProcessPoolExecutor(max_workers=12) as ex:
        for sid, flagged in ex.map(one, ids):
            path = os.path.join(HERE, "seeded", sid, "meta.json")
            m = json.load(open(path))
            if "expected_props" not in m:
                m["expected_props"] = sorted(m.get("flagged_by_checks", {}))
            m["flagged_by_checks"] = flagged
            m["caught_for_own_property"] = m["property"] in flagged
            m["flags_refreshed"] = ("re-evaluated in memory by "
                                    "tools_refresh_seeded.py with the "
                                    "checks as committed")
            json.dump(m, open(path, "w"), indent=1)
            print(sid, "own:", m["caught_for_own_property"],
                  sorted(flagged))


if __name__ == "__main__":
    main()
