#!/venv/bin/python
"""Regenerate MANIFEST.json from sa/props.py (claimed properties) and
properties.jsonl (everything else -> not_applicable with the reason recorded
in sa/props.py:NOT_APPLICABLE or 'not built yet')."""
import json
import os
import sys
HERE = os.path.dirname(os.path.abspath(__file__))
sys.path.insert(0, HERE)
from sa import props as P   # noqa: E402

all_ids = [json.loads(l)["id"] for l in open(os.path.join(HERE, "properties.jsonl"))]
PY = "/venv/bin/python"
checks = []
CLAIMED = [p for p in all_ids if p in P.PROPS and
           P.PROPS[p]["explanation"] != "wip"]
for pid in all_ids:
    if pid not in CLAIMED:
        continue
    spec = P.PROPS[pid]
    checks.append({
        "property_id": pid,
        "quick_cmd": "%s sa/check.py --property %s --tier quick" % (PY, pid),
        "thorough_cmd": "%s sa/check.py --property %s --tier thorough" % (PY, pid),
        "evidence_file": "/verif/evidence/%s.json" % pid,
        "replay_cmd_template": "%s sa/check.py --replay {path}" % PY,
        "engine": "sa",
        "level_claimed": {
            "category": "other",
            "text": spec.get("level_text") or (
                "Static analysis of necessary structural conditions of the "
                "property on every path of the current source: " +
                spec["explanation"]),
            "design_ref": "DESIGN.md section 4, " + pid,
        },
        "level_note": (("Also evaluated for this property: the "
                        "obligations of the shared-machinery rules (%s) in "
                        "every function reachable, in the resolved call "
                        "graph, from its entry points (%s). " % (
                            ", ".join(P.CORE_RULES),
                            ", ".join(P.ENTRY_POINTS[pid])))
                       if pid in getattr(P, "ENTRY_POINTS", {}) else "") + (
            spec.get("level_note") or (
            "Holds for all inputs for the clauses decided, not for the "
            "behaviour as a whole. Trusted: " + "; ".join(spec.get("trusted", [])) +
            ". Assumes: " + "; ".join(spec.get("assumptions", []) or ["-"]))),
        "technique": spec.get("technique", "static analysis (AST, resolved call graph, abstract interpretation)"),
    })
na = []
for pid in all_ids:
    if pid in CLAIMED:
        continue
    na.append({"property_id": pid,
               "reason": getattr(P, "NOT_APPLICABLE", {}).get(
                   pid, "check not built yet (framework under construction); "
                   "see DESIGN.md section 4 for the planned static rules")})
m = {
    "version": 1,
    "setup_cmd": "%s sa/check.py --self-check" % PY,
    "hooks": {
        "guard": "METOMI_ISODATETIME_VERIF",
        "enable": "none needed: the checks parse /repo's current source with ast and never import, run or instrument it",
        "baseline_off_cmd": "cd /repo && /venv/bin/python -m pytest -ra -q -p no:cacheprovider --timeout=900 --continue-on-collection-errors",
        "source_commits": [],
        "add_only": True,
    },
    "engines": [{
        "name": "sa", "path": "/verif/sa",
        "serves_properties": [c["property_id"] for c in checks],
        "kind_free_text": "repository-specific static analyser: ast source model, type/callee resolver with operator-protocol edges, constant folder and partial evaluator for configuration tables, structured abstract interpreters (ownership, typestate, representation, recurrence state), unit-of-measure inference; in-memory mutation corpus for both-ways self-validation",
    }],
    "checks": checks,
    "notes": "Static analysis only; see DESIGN.md. Six genuine defects found by the rules were repaired in /repo as 'fix:' commits and are recorded as fixed in known_findings.json.",
    "not_applicable": na,
}
json.dump(m, open(os.path.join(HERE, "MANIFEST.json"), "w"), indent=1)
print("claimed:", [c["property_id"] for c in checks])
