#!/bin/bash
# usage: tools_eval_refactor.sh <diff>   (development tool: a behaviour-
# preserving change must leave every check silent)
set -u
d=$1
cd /repo && git apply --check "$d" || { echo "APPLY-FAILED $d"; exit 2; }
git apply "$d"
cd /verif
out=$(/venv/bin/python sa/check.py --all --no-canary 2>&1)
git -C /repo checkout -- .
git -C /verif checkout -- evidence 2>/dev/null
echo "$out" | grep -E "VIOLATION|ANALYSIS-ERROR" -A2 | head -40
echo "$out" | grep -c "HOLDS" | sed 's/^/holds: /'
