#!/venv/bin/python
"""Evaluate one seeded change against the checks (development tool).

  tools_eval_seed.py <patch.diff> <demo.py> [--keep-as <id> --property Cxx
                                             --needs "..." --summary "..."]

Steps (as the brief prescribes): demo on the clean /repo must pass; apply the
patch to /repo; the pinned test suite must still give 85 passed / 2 failed;
the demo must fail; every property's quick check is run on the patched tree;
the patch is undone straight afterwards.  Prints a JSON summary.  With
--keep-as the confirmed change is stored under /verif/seeded/<id>/.
"""
import argparse
import json
import os
import re
import shutil
import subprocess
import sys

REPO = "/repo"
VERIF = os.path.dirname(os.path.abspath(__file__))
PY = "/venv/bin/python"


def sh(cmd, cwd=None, timeout=900):
    p = subprocess.run(cmd, cwd=cwd, capture_output=True, text=True,
                       timeout=timeout)
    return p.returncode, p.stdout + p.stderr


def clean():
    rc, out = sh(["git", "-C", REPO, "status", "--porcelain"])
    return out.strip() == ""


def main():
    ap = argparse.ArgumentParser()
    ap.add_argument("patch")
    ap.add_argument("demo")
    ap.add_argument("--keep-as")
    ap.add_argument("--property")
    ap.add_argument("--needs", default="")
    ap.add_argument("--summary", default="")
    ap.add_argument("--skip-tests", action="store_true")
    a = ap.parse_args()
    res = {"patch": a.patch}
    if not clean():
        print("ERROR: /repo is not clean")
        return 2
    rc, out = sh([PY, a.demo], cwd=REPO)
    res["demo_clean_rc"] = rc
    res["demo_clean_out"] = out[-300:]
    rc, out = sh(["git", "-C", REPO, "apply", "--check", a.patch])
    if rc != 0:
        res["apply"] = "FAILED: " + out[-300:]
        print(json.dumps(res, indent=1))
        return 2
    sh(["git", "-C", REPO, "apply", a.patch])
    try:
        rc, out = sh(["git", "-C", REPO, "diff", "--stat"])
        res["diffstat"] = out.strip().splitlines()[-1] if out.strip() else ""
        if not a.skip_tests:
            rc, out = sh([PY, "-m", "pytest", "-q", "-p", "no:cacheprovider",
                          "--timeout=900", "--continue-on-collection-errors"],
                         cwd=REPO)
            m = re.findall(r"=+ (.*?) in [\d.]+s", out)
            res["tests"] = m[-1] if m else out[-200:]
        rc, out = sh([PY, a.demo], cwd=REPO)
        res["demo_patched_rc"] = rc
        res["demo_patched_out"] = out[-400:]
        rc, out = sh([PY, os.path.join(VERIF, "sa", "check.py"), "--all",
                      "--no-canary"], cwd=VERIF)
        res["checks_rc"] = rc
        flagged = {}
        cur = None
        lines = out.splitlines()
        for i, line in enumerate(lines):
            m = re.match(r"VIOLATION property=(C\d+)", line)
            if m:
                cur = m.group(1)
                detail = lines[i + 1].strip() if i + 1 < len(lines) else ""
                flagged.setdefault(cur, []).append(detail[:200])
        res["flagged"] = flagged
        res["analysis_errors"] = [l for l in lines
                                  if l.startswith("ANALYSIS-ERROR")][:5]
    finally:
        sh(["git", "-C", REPO, "checkout", "--", "."])
    res["repo_clean_after"] = clean()
    # restore committed evidence (the --all run rewrote it on the patched
    # tree)
    sh(["git", "-C", VERIF, "checkout", "--", "evidence"])
    ok = (res.get("demo_clean_rc") == 0 and res.get("demo_patched_rc") == 1
          and (a.skip_tests or "85 passed" in res.get("tests", "")) and
          "2 failed" in res.get("tests", "2 failed"))
    res["confirmed_breaking_change"] = ok
    if a.keep_as and ok:
        d = os.path.join(VERIF, "seeded", a.keep_as)
        os.makedirs(d, exist_ok=True)
        shutil.copy(a.patch, os.path.join(d, "patch.diff"))
        shutil.copy(a.demo, os.path.join(d, "demo.py"))
        meta = {"property": a.property, "summary": a.summary,
                "needs": a.needs,
                "what_was_run": [
                    "demo on unchanged /repo: exit %s" % res["demo_clean_rc"],
                    "git -C /repo apply patch.diff",
                    "pinned pytest suite: %s" % res.get("tests"),
                    "demo on patched /repo: exit %s" %
                    res["demo_patched_rc"],
                    "sa/check.py --all --no-canary on the patched tree",
                    "git -C /repo checkout -- ."],
                "flagged_by_checks": res["flagged"],
                "caught_for_own_property": a.property in res["flagged"]}
        with open(os.path.join(d, "meta.json"), "w") as fh:
            json.dump(meta, fh, indent=1)
        res["kept"] = d
    print(json.dumps(res, indent=1))
    return 0


if __name__ == "__main__":
    sys.exit(main())
