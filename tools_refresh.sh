#!/bin/bash
# Regenerate MANIFEST.json, rerun every claimed quick check (refreshing
# evidence/*.json) and validate both against the given schemas.
cd /verif || exit 2
/venv/bin/python tools_gen_manifest.py || exit 2
ids=$(/venv/bin/python -c "import json;print(' '.join(c['property_id'] for c in json.load(open('MANIFEST.json'))['checks']))")
rm -f /tmp/refresh_*.log
echo $ids | tr ' ' '\n' | xargs -P 8 -I{} sh -c '/venv/bin/python sa/check.py --property {} --tier quick > /tmp/refresh_{}.log 2>&1; echo "{} exit=$?"' | sort
python3-vt - <<'PY'
import json, glob, jsonschema
ms = json.load(open('/root/.vp/MANIFEST.schema.json'))
es = json.load(open('/root/.vp/EVIDENCE.schema.json'))
m = json.load(open('/verif/MANIFEST.json'))
jsonschema.validate(m, ms)
n = 0
for c in m['checks']:
    ev = json.load(open(c['evidence_file']))
    jsonschema.validate(ev, es)
    n += 1
print('manifest valid; %d evidence files valid; not_applicable=%d' % (n, len(m.get('not_applicable', []))))
PY
grep -l "VIOLATION\|ANALYSIS-ERROR" /tmp/refresh_*.log
