"""Decision tables of straight-line/branching code regions.

A code region (statement list without relevant loops) is explored path by
path.  Local variables are kept as *expressions over the region's inputs*
(forward substitution); every test whose truth is not fixed by constants
becomes an atom, decided both ways; one atom keeps its decision along a
path.  The result is the list of paths: (decisions, final bindings, outcome),
i.e. what the region computes under which conditions, independent of how the
branches are nested, ordered, negated, or routed through flags and
temporaries.  Nothing is executed and no solver is involved: infeasible
combinations of atoms are simply not excluded (rules compare tables, or
quantify over the paths that satisfy a condition).
"""
import ast
import copy

from .model import AnalysisError, U, clone

MAX_PATHS = 4000
_SCOPES = (ast.Lambda, ast.ListComp, ast.SetComp, ast.DictComp,
           ast.GeneratorExp)
_NEGOPS = {ast.NotEq: ast.Eq, ast.IsNot: ast.Is, ast.NotIn: ast.In,
           ast.GtE: ast.Lt, ast.LtE: ast.Gt}


class Path:
    __slots__ = ("decisions", "env", "outcome", "value", "trace", "stmt",
                 "skipped")

    def __init__(self):
        self.decisions = {}     # atom text -> bool (in order of first use)
        self.env = {}           # name -> ast expr over inputs
        self.outcome = None     # "return" | "raise" | "fall" | "break" ...
        self.value = None       # ast expr (return value / raised exc)
        self.trace = []         # calls evaluated for effect, as text
        self.stmt = None        # the statement the path ended at
        self.skipped = 0        # loops on the path that were not entered

    def get(self, name):
        v = self.env.get(name)
        return None if v is None else U(v)

    def holds(self, atom, default=None):
        return self.decisions.get(atom, default)

    def when(self):
        return " and ".join(("" if v else "not ") + "(" + k + ")"
                            for k, v in self.decisions.items())


class _Subst(ast.NodeTransformer):
    def __init__(self, env):
        self.env = env

    def visit_Name(self, node):
        if isinstance(node.ctx, ast.Load) and node.id in self.env:
            return clone(self.env[node.id])
        return node

    def visit_Subscript(self, node):
        if isinstance(getattr(node, "ctx", None), ast.Load) and isinstance(
                node.value, ast.Name):
            # an item stored earlier on this path into a local container
            sl = self.visit(clone(node.slice))
            k = "@%s[%s]" % (node.value.id, U(sl))
            if k in self.env:
                return clone(self.env[k])
        node = self.generic_visit(node)
        if isinstance(getattr(node, "ctx", None), ast.Load):
            k = "@" + U(node)
            if k in self.env:
                return clone(self.env[k])
        return node

    def visit_Attribute(self, node):
        node = self.generic_visit(node)
        if isinstance(getattr(node, "ctx", None), ast.Load):
            k = "@" + U(node)
            if k in self.env:
                return clone(self.env[k])
        return node

    def generic_visit(self, node):
        if isinstance(node, _SCOPES):
            bound = {n.id for g in getattr(node, "generators", [])
                     for n in ast.walk(g.target) if isinstance(n, ast.Name)}
            if isinstance(node, ast.Lambda):
                bound = {a.arg for a in node.args.args}
            saved = {k: self.env[k] for k in bound if k in self.env}
            for k in saved:
                del self.env[k]
            try:
                return super().generic_visit(node)
            finally:
                self.env.update(saved)
        return super().generic_visit(node)


class _Simplify(ast.NodeTransformer):
    """Evaluation of constructs whose outcome is fixed once names were
    substituted: a literal mapping looked up with a constant key, a literal
    sequence indexed by a constant, `f(*<literal tuple>)`, and the
    application of a lambda to its arguments."""

    def visit_Subscript(self, node):
        self.generic_visit(node)
        if not isinstance(getattr(node, "ctx", None), ast.Load):
            return node
        if isinstance(node.value, ast.Dict) and isinstance(
                node.slice, ast.Constant) and all(
                    isinstance(k, ast.Constant) for k in node.value.keys):
            for k, v in zip(node.value.keys, node.value.values):
                if k.value == node.slice.value and type(k.value) is type(
                        node.slice.value):
                    return v
        if isinstance(node.value, (ast.Tuple, ast.List)) and isinstance(
                node.slice, ast.Constant) and isinstance(
                    node.slice.value, int) and not isinstance(
                        node.slice.value, bool) and not any(
                            isinstance(x, ast.Starred)
                            for x in node.value.elts) and \
                -len(node.value.elts) <= node.slice.value < len(
                    node.value.elts):
            return node.value.elts[node.slice.value]
        return node

    def visit_Call(self, node):
        self.generic_visit(node)
        # f(*<literal>)
        if any(isinstance(a, ast.Starred) and isinstance(
                a.value, (ast.Tuple, ast.List)) for a in node.args):
            args = []
            for a in node.args:
                if isinstance(a, ast.Starred) and isinstance(
                        a.value, (ast.Tuple, ast.List)):
                    args.extend(a.value.elts)
                else:
                    args.append(a)
            node.args = args
        f = node.func
        # {..}.get(const[, default])
        if isinstance(f, ast.Attribute) and f.attr == "get" and isinstance(
                f.value, ast.Dict) and 1 <= len(node.args) <= 2 and \
                not node.keywords and isinstance(
                    node.args[0], ast.Constant) and all(
                        isinstance(k, ast.Constant) for k in f.value.keys):
            for k, v in zip(f.value.keys, f.value.values):
                if k.value == node.args[0].value and type(k.value) is type(
                        node.args[0].value):
                    return v
            return node.args[1] if len(node.args) == 2 else \
                ast.Constant(value=None)
        # (lambda ...: E)(args)
        if isinstance(f, ast.Lambda) and not node.keywords and not any(
                isinstance(a, ast.Starred) for a in node.args):
            a = f.args
            if not (a.kwonlyargs or a.kwarg or a.defaults or a.posonlyargs):
                names = [x.arg for x in a.args]
                if a.vararg is None and len(names) == len(node.args):
                    env = dict(zip(names, node.args))
                elif a.vararg is not None and len(node.args) >= len(names):
                    env = dict(zip(names, node.args))
                    env[a.vararg.arg] = ast.Tuple(
                        elts=list(node.args[len(names):]), ctx=ast.Load())
                else:
                    return node
                return _Subst(env).visit(clone(f.body))
        return node


class _Stop(Exception):
    pass


class _NeedDecision(Exception):
    def __init__(self, atom):
        self.atom = atom


class Explorer:
    def __init__(self, env0=None, opaque_calls=True, max_paths=MAX_PATHS):
        self.env0 = env0 or {}
        self.max_paths = max_paths

    def explore(self, stmts):
        paths = []
        work = [[]]          # decision prefixes: list of (atom, bool)
        while work:
            prefix = work.pop()
            if len(paths) > self.max_paths:
                raise AnalysisError("too many paths in a decision table")
            p = Path()
            p.env = {k: clone(v) for k, v in self.env0.items()}
            self._forced = dict(prefix)
            self._order = [a for a, _ in prefix]
            self._p = p
            try:
                try:
                    self._block(stmts, p)
                    p.outcome = p.outcome or "fall"
                except _Stop:
                    pass
            except _NeedDecision as nd:
                work.append(prefix + [(nd.atom, False)])
                work.append(prefix + [(nd.atom, True)])
                continue
            paths.append(p)
        return paths

    # ------------------------------------------------------------ statements
    def _block(self, stmts, p):
        for st in stmts:
            self._stmt(st, p)

    def _stmt(self, st, p):
        if isinstance(st, (ast.Pass, ast.Import, ast.ImportFrom, ast.Global,
                           ast.Nonlocal, ast.Assert, ast.Delete,
                           ast.FunctionDef, ast.ClassDef)):
            return
        if isinstance(st, ast.Expr):
            if isinstance(st.value, ast.Call):
                p.trace.append(U(self.sym(st.value, p)))
            return
        if isinstance(st, ast.Return):
            p.stmt = st
            p.outcome = "return"
            p.value = self.sym(st.value, p) if st.value is not None else \
                ast.Constant(value=None)
            raise _Stop()
        if isinstance(st, ast.Raise):
            p.stmt = st
            p.outcome = "raise"
            p.value = self.sym(st.exc, p) if st.exc is not None else None
            raise _Stop()
        if isinstance(st, (ast.Break, ast.Continue)):
            p.outcome = "break" if isinstance(st, ast.Break) else "continue"
            raise _Stop()
        if isinstance(st, (ast.Assign, ast.AnnAssign)):
            if st.value is None:
                return
            v = self.sym(st.value, p)
            targets = st.targets if isinstance(st, ast.Assign) else \
                [st.target]
            for t in targets:
                self._bind(t, v, p)
            return
        if isinstance(st, ast.AugAssign):
            cur = self.sym(_as_load(st.target), p)
            v = ast.BinOp(left=cur, op=st.op, right=self.sym(st.value, p))
            self._bind(st.target, v, p)
            return
        if isinstance(st, ast.If):
            if self.truth(st.test, p):
                self._block(st.body, p)
            else:
                self._block(st.orelse, p)
            return
        if isinstance(st, (ast.For, ast.While)):
            p.skipped += 1
            for n in ast.walk(st):
                if isinstance(n, ast.Name) and isinstance(n.ctx, ast.Store):
                    p.env[n.id] = ast.Name(id="<%s after loop>" % n.id,
                                           ctx=ast.Load())
            return
        if isinstance(st, ast.Try):
            self._block(st.body, p)
            self._block(st.orelse, p)
            self._block(st.finalbody, p)
            return
        if isinstance(st, ast.With):
            self._block(st.body, p)
            return
        raise AnalysisError("statement %s not handled in a decision table" %
                            type(st).__name__)

    def _bind(self, t, v, p):
        if isinstance(t, ast.Name):
            p.env[t.id] = v
        elif isinstance(t, (ast.Tuple, ast.List)):
            if isinstance(v, (ast.Tuple, ast.List)) and len(v.elts) == len(
                    t.elts):
                for e, x in zip(t.elts, v.elts):
                    self._bind(e, x, p)
            else:
                for i, e in enumerate(t.elts):
                    self._bind(e, ast.Subscript(
                        value=v, slice=ast.Constant(value=i),
                        ctx=ast.Load()), p)
        elif isinstance(t, ast.Subscript) and isinstance(t.value, ast.Name):
            # item store into a local container: keyed by the container's
            # own name (not by the value it was bound to)
            p.env["@%s[%s]" % (t.value.id, U(self.sym(t.slice, p)))] = v
        elif isinstance(t, ast.Attribute):
            # attribute store: remembered under the text of the target (the
            # object expression is resolved, the attribute itself is not
            # replaced by what it held before)
            p.env["@%s.%s" % (U(self.sym(_as_load(t.value), p)), t.attr)] = v
        else:
            # subscript store: remembered under its text
            p.env["@" + U(self.sym(_as_load(t), p))] = v

    # ----------------------------------------------------------- expressions
    def sym(self, e, p):
        """expression -> expression over the inputs (conditional
        expressions resolved by deciding their tests)."""
        e = clone(e)
        e = self._resolve_ifexp(e, p)
        out = _Subst(p.env).visit(e)
        out = _Simplify().visit(out)
        return ast.fix_missing_locations(out)

    def _resolve_ifexp(self, e, p):
        if isinstance(e, ast.IfExp):
            return self._resolve_ifexp(
                e.body if self.truth(e.test, p) else e.orelse, p)
        if isinstance(e, _SCOPES):
            return e
        for field, val in ast.iter_fields(e):
            if isinstance(val, ast.AST):
                setattr(e, field, self._resolve_ifexp(val, p))
            elif isinstance(val, list):
                for i, x in enumerate(val):
                    if isinstance(x, ast.AST):
                        val[i] = self._resolve_ifexp(x, p)
        return e

    def truth(self, test, p):
        if isinstance(test, ast.BoolOp):
            if isinstance(test.op, ast.And):
                for v in test.values:
                    if not self.truth(v, p):
                        return False
                return True
            for v in test.values:
                if self.truth(v, p):
                    return True
            return False
        if isinstance(test, ast.UnaryOp) and isinstance(test.op, ast.Not):
            return not self.truth(test.operand, p)
        if isinstance(test, ast.IfExp):
            return self.truth(test.body if self.truth(test.test, p)
                              else test.orelse, p)
        if isinstance(test, ast.Name) and test.id in p.env:
            return self.truth(p.env[test.id], p)
        if isinstance(test, ast.Call) and isinstance(
                test.func, ast.Name) and test.func.id == "bool" and len(
                    test.args) == 1 and not test.keywords:
            return self.truth(test.args[0], p)
        e = self.sym(test, p)
        if isinstance(e, (ast.BoolOp, ast.UnaryOp, ast.IfExp)) and not (
                isinstance(e, ast.UnaryOp) and not isinstance(e.op, ast.Not)):
            return self.truth(e, p)
        k = _const_truth(e)
        if k is not None:
            return k
        pol = True
        if isinstance(e, ast.Compare) and len(e.ops) == 1 and \
                type(e.ops[0]) in _NEGOPS:
            e = ast.Compare(left=e.left, ops=[_NEGOPS[type(e.ops[0])]()],
                            comparators=e.comparators)
            pol = False
        if isinstance(e, ast.Compare) and len(e.ops) == 1 and isinstance(
                e.ops[0], ast.Gt):
            e = ast.Compare(left=e.comparators[0], ops=[ast.Lt()],
                            comparators=[e.left])
        atom = U(e)
        if atom in p.decisions:
            return p.decisions[atom] == pol
        if atom in self._forced:
            p.decisions[atom] = self._forced[atom]
            return p.decisions[atom] == pol
        raise _NeedDecision(atom)


def _never_none(e):
    """the value of an arithmetic expression / a number conversion / a
    literal container is not None"""
    if isinstance(e, ast.BinOp):
        return True
    if isinstance(e, (ast.Tuple, ast.List, ast.Dict, ast.Set, ast.Lambda,
                      ast.JoinedStr)):
        return True
    if isinstance(e, ast.Constant) and e.value is not None:
        return True
    if isinstance(e, ast.UnaryOp) and isinstance(
            e.op, (ast.USub, ast.UAdd)):
        return True
    if isinstance(e, ast.Call) and isinstance(e.func, ast.Name) and \
            e.func.id in ("int", "float", "abs", "str", "len", "list",
                          "tuple", "dict", "set", "bool", "divmod"):
        return True
    return False


def _const_truth(e):
    if isinstance(e, ast.Lambda):
        return True
    if isinstance(e, ast.Compare) and len(e.ops) == 1 and isinstance(
            e.ops[0], (ast.Is, ast.IsNot)) and isinstance(
                e.comparators[0], ast.Constant) and \
            e.comparators[0].value is None and _never_none(e.left):
        return isinstance(e.ops[0], ast.IsNot)
    try:
        v = ast.literal_eval(e)
    except Exception:
        pass
    else:
        return bool(v)
    if isinstance(e, ast.Compare) and len(e.ops) == 1:
        try:
            a = ast.literal_eval(e.left)
            b = ast.literal_eval(e.comparators[0])
        except Exception:
            return None
        op = e.ops[0]
        try:
            if isinstance(op, ast.Eq):
                return a == b
            if isinstance(op, ast.NotEq):
                return a != b
            if isinstance(op, ast.In):
                return a in b
            if isinstance(op, ast.NotIn):
                return a not in b
            if isinstance(op, ast.Is):
                return a is b
            if isinstance(op, ast.IsNot):
                return a is not b
            if isinstance(op, ast.Lt):
                return a < b
            if isinstance(op, ast.Gt):
                return a > b
            if isinstance(op, ast.LtE):
                return a <= b
            if isinstance(op, ast.GtE):
                return a >= b
        except TypeError:
            return None
    return None


def _as_load(t):
    t2 = clone(t)
    for n in ast.walk(t2):
        if hasattr(n, "ctx"):
            n.ctx = ast.Load()
    return t2


def explore(stmts, env0=None, max_paths=MAX_PATHS):
    return Explorer(env0, max_paths=max_paths).explore(stmts)
