"""Property -> rules, explanation, assumptions, trusted base.

Every claimed property is decided at level ``other``: static analysis of
necessary structural conditions, on every path of the current source.  The
explanation of each says which clauses are decided and which are not.
"""

COMMON_TRUST = [
    "CPython ast / re._parser (parsing only; nothing from /repo is imported "
    "or executed)",
    "the checker's resolver (sa/resolve.py: may-types, callee and "
    "operator-protocol resolution) incl. its table of public signatures for "
    "unannotated entry-point parameters",
    "Python semantics of __slots__, functools.lru_cache, rich comparison "
    "fallback",
]

STATIC = ("static analysis: %s")

PROPS = {}


def P(pid, rules, technique, decides, not_decided, assumptions=(),
      trusted=()):
    PROPS[pid] = {
        "rules": rules,
        "technique": technique,
        "explanation": "Decides (necessary structural conditions, for every "
        "input at once): " + decides + " Does not decide: " + not_decided,
        "assumptions": list(assumptions),
        "trusted": COMMON_TRUST + list(trusted),
    }


P("C01", ["R08", "R09", "R10", "R11", "R12", "R13c", "R17", "R07", "R34", "R39", "R41", "R04", "R47", "R50", "R36", "R56", "R72", "R77", "R79"],
  "typestate abstract interpretation (dirty/clean fields), carry-loop "
  "symbolic agreement, unit-of-measure inference",
  "R08 in TimePoint.__add__ every incremented time/day field is followed by "
  "the normaliser _tick_over() before the object is read by a converter or "
  "returned, and p - d delegates to p + (-1*d); R09 each of the six "
  "carry/borrow loops of _tick_over consumes exactly the length its guard "
  "compared with (symbolic year offsets), blocks run smallest unit first; "
  "R10/R11 every date field is bounded by its own length helper, computed "
  "from the same object's year/month, with the leap table chosen iff the "
  "year tested is leap; R12 every addition, comparison, store and keyword "
  "in the second/minute/hour/day/week chain is dimensionally consistent "
  "(169 obligations); R13c the result keeps the receiver's date "
  "representation; R17 Duration.to_days/_get_non_nominal_seconds cover all "
  "exact slots; R47 carries of 1-based fields use `>`/`< 1`, and after its "
  "carry each radix field is left as exactly its remainder (no rounding "
  "that can reach the radix); R50 a month length is asked for with the "
  "year of the same object wherever that year is known; R04 no memoised "
  "length helper outlives a mode switch.",
  "that the carried value is numerically the shifted instant (off-by-one "
  "inside the day-of-month walk, float rounding of fractional units).",
  ["24:00 receivers keep 24:00 on paths that apply no exact unit (required "
   "by C08/C05); the range clause is read for results of a non-empty exact "
   "shift"],
  ["unit declarations of sa/rules/scale.py (slot -> unit, radix -> ratio), "
   "printed with each obligation"])

P("C02", ["R14", "R15", "R16", "R12", "R08", "R09", "R10", "R43", "R47", "R04", "R50", "R07", "R13ab", "R69"],
  "def-use derivation of comparison-key operands, operator routing checks",
  "R15 every operand whose date/time fields feed the lexicographic key of "
  "_cmp, the hashed tuple of __hash__ and the field-wise difference of "
  "__sub__ has passed a 24:00-normalising method (_roll_over_24, itself "
  "verified: returns self only under hour != 24, else a ticked-over fresh "
  "copy), on both operands; R14 the other operand is re-zoned to the "
  "receiver's zone (hash: to UTC) before any field is read; R16 the five "
  "rich comparisons route to one comparator with the operator name equal "
  "to their own, _operator_map maps names to the operator functions of the "
  "same name, operands are applied as (self-key, other-key), no __ne__ is "
  "defined, the identical-operands shortcut is True exactly for eq/le/ge; "
  "R12 get_second_of_day is dimensionally consistent.",
  "transitivity/trichotomy over all values (follows only if the "
  "conversions C01/C03 are right), float ties in the second-of-day.",
  [], [])

P("C03", ["R13ab", "R11", "R04", "R07", "R12", "R39", "R49", "R36", "R57", "R64", "R65", "R66"],
  "structural slot-group and dispatch-matrix checks, leap-table polarity, "
  "cache-key discipline",
  "(thin) R13a each to_*_date fills exactly its own slot group from the "
  "matching getter in the getter's tuple order and clears the other two; "
  "R13b the 3x3 dispatch matrix of get_calendar/ordinal/week_date: every "
  "cell returns own slots or calls get_<target>_date_from_<source>_date "
  "with the source slots bound to the parameters of the same name; "
  "composite converters are compositions with the tuple passed in order; "
  "R11 the six leap-selected tables have the right polarity; R04 all "
  "mode-dependent memoised helpers are keyed on the live mode; R07 the two "
  "week-reference constants denote one January Monday and the leap rule is "
  "the 4/100/400 fold; R49 the week<->calendar conversions can reach all "
  "three calendar years / week-years a week-year overlaps.",
  "that the day counts of the conversions are right and mutually inverse - "
  "the property's main content is numeric; a runtime sweep over a 400-year "
  "cycle is the right tool and is outside this family.",
  [], ["definition table MODE_DEF (from the property text)"])

P("C04", ["R12", "R14", "R15", "R32", "R17", "R08", "R09", "R10", "R41", "R04", "R47", "R07", "R13ab"],
  "unit-of-measure inference, def-use derivation, order-agreement checks",
  "R12 the Duration returned by TimePoint - TimePoint is built from "
  "days/hours/minutes/seconds keywords only, each fed a value of that "
  "unit; the borrow chain refills each component with its own radix and "
  "decrements the next one up; R14 the subtrahend is re-zoned before its "
  "fields are read; R15 both operands are 24:00-free (else 0<=h<24 fails); "
  "R32 under `other > self` the result is -1*(other - self), and the "
  "whole-year correction is += range(earlier, later-1) / mirrored.",
  "exactness of the day count (closed-form leap counting in "
  "get_days_in_year_range) and the round-trip identities.",
  [], [])

P("C05", ["R08", "R10", "R11", "R13c", "R13ab", "R09", "R34", "R47", "R04", "R50", "R07", "R36"],
  "typestate abstract interpretation with clamp/wrap idioms, field/length "
  "agreement",
  "R08 in add_months every single month step is followed by the clamp "
  "`if day > len: day = len` before the next step or exit, in __add__ each "
  "of the three representation branches clamps its field after the year "
  "changed, and the unit blocks are applied exact -> months -> years; R10 "
  "each clamp compares and assigns the field against its own length, "
  "computed from the *updated* year/month of the same object; R11 the month "
  "length comes from the leap table iff the target year is leap; R13c "
  "ordinal and week receivers come back in their own representation "
  "(path-sensitive on was_ordinal_date/was_week_date).",
  "that the month index arithmetic lands n months away (off-by-one in the "
  "`> MONTHS_IN_YEAR` wrap).",
  [], [])

P("C06", ["R14", "R13c", "R08", "R09", "R10", "R11", "R12", "R15", "R22",
          "R26", "R17", "R38", "R34", "R43", "R47", "R04", "R42", "R50", "R07"],
  "structural conversion-path checks, typestate, sign-domain evaluation",
  "R14 every converting path of to_time_zone shifts by (destination - own "
  "offset) - orientation cross-checked against get_time_zone_offset - and "
  "stores the requested zone in the result; the receiver is returned "
  "unchanged only for an unknown destination; to_utc/to_local_time_zone "
  "pass (0,0) / the local pair in order; in the dumper the conversion to "
  "the format's literal zone precedes every property read and each literal "
  "zone branch (Z, +.., -..) produces a custom zone; R13c representation "
  "kept; R08/R09/R10 the shift is applied through __add__ and normalised by "
  "_tick_over whose carries agree (day, year, week-year rollover); R26 the "
  "sign is rendered from both zone components (evaluated over all sign "
  "combinations) and both components are negated when parsing '-'; R22 "
  "conflicting zone signs are refused.",
  "'compares equal / zero difference' for all values (needs the arithmetic "
  "of C01 and the comparison of C02).",
  [], [])

P("C07", ["R23", "R24", "R25", "R26", "R12", "R36", "R37", "R38", "R48", "R35", "R52", "R58", "R59", "R42", "R70", "R76"],
  "constant folding / partial evaluation of the parser tables, regex-AST "
  "shape intersection",
  "R23 every translate row agrees with itself (one named group, capture "
  "width = format width, placeholder = property, property readable) and "
  "every key the tables can capture is a TimePoint keyword or is combined "
  "into the year / rewritten before the constructor call; parser and "
  "dumper use the same rows; R24 every expression of the three tables "
  "folds (via the real substitution order) to a regex whose groups are "
  "exactly the fields its tokens spell per the README token table, and in "
  "every real search order (expanded digits 0-3 x basic-only x truncation "
  "x excluded types/formats; thorough: 0-6) no earlier form's shape "
  "intersects a later form that decodes differently; allow_only_basic "
  "restricts to the basic tables; R25 basic dates exclude extended "
  "times/zones and vice versa at every sibling matcher call; R26 both zone "
  "components are negated under '-', the year sign is applied once after "
  "all parts were summed; R12 the assumed/local zone pair reaches "
  "time_zone_hour/minute in order.",
  "per-value decoding (int()/float() of the matched text) and the "
  "splitting heuristics of get_info on '+', '-', 'Z' for adversarial "
  "mixtures.",
  ["truncated-over-reduced overlaps inherent to ISO 8601:2000 (-YYMM vs "
   "+-CCYY with 0 expanded digits) are noted, not findings: the property "
   "gives truncated forms precedence when enabled"],
  ["token -> field oracle transcribed from the README syntax tables (about "
   "20 entries, sa/rules/tablerules.py)"])

P("C08", ["R24", "R23", "R14", "R26", "R35", "R37", "R38", "R48", "R36", "R09", "R54"],
  "path enumeration of the default dump format, folded table agreement",
  "R24 each of the 24 strings _get_dump_format can return (4 time shapes x "
  "2 zone shapes x 3 date tails, enumerated over its paths) is an extended "
  "complete date expression followed by an extended time and zone "
  "expression the parser lists, and the year is padded to 4 + "
  "num_expanded_year_digits digits; R23 every property the dumper reads "
  "exists and is rendered with the width the reader captures; R26 "
  "time_zone_sign reads both components (the -00:30 case) and no signed "
  "property is written through an unsigned reader; R14 explicit-zone "
  "formats convert before formatting.",
  "equality after the 6-digit float truncation; custom formats in general.",
  [], [])

P("C09", ["R20", "R21", "R22", "R10", "R11", "R23", "R31", "R33", "R12", "R36", "R04", "R50", "R07", "R53", "R59", "R74"],
  "call-graph reachability of raise sites, must-pass-through analysis, "
  "bound-kind checks, regex star height",
  "R21 with both bypass flags off every exit of TimePoint.__init__ has "
  "passed _check_bounds() after the last field store; the bypass flags have "
  "one named user each and are forwarded unchanged; R22 all eight "
  "date/time fields are checked on every path, 1-based fields inclusively "
  "against their length, minute/second exclusively, 24:xx only as "
  "24:00:00, decimals in [0,1), zone sign conflicts refused, and "
  "_bounds_checker itself has inclusive-max/exclusive-upper semantics; "
  "R10/R11 each field is bounded by its own length with the object's own "
  "year and the right leap table; R20 every explicit raise reachable from "
  "the three parsers and the four constructors is ValueError-derived (or an "
  "operand-type guard that no in-package caller can trigger), broad "
  "handlers re-raise library errors, the six library error classes derive "
  "from ValueError; R31 no compiled regex nests unbounded repeats and the "
  "parser modules contain no while loop.",
  "exceptions raised implicitly by builtins on arbitrary text (KeyError, "
  "IndexError, TypeError from **info; R23's producer/consumer clause "
  "removes the main source) and the acceptance side beyond the bound "
  "kinds.",
  ["OverflowError/RuntimeError in TimePoint._get_dump_format are exempted "
   "by name: reachable only through error-message formatting of an already "
   "constructed point"], [])

P("C10", ["R27", "R26", "R12", "R40", "R60", "R71"],
  "folded writer list vs regex-AST reader sequence",
  "(thin) R27 the designator sequence Duration.__str__ emits (Y M D T H M "
  "S; W alone) equals, unit for unit and in order, the (group, literal) "
  "sequence of the duration regexes; units parsed with int() = groups "
  "matching \\d+ = integer-typed constructor arguments; the decimal comma "
  "and the leading '-' are consumed by the reader; the empty duration's "
  "spelling matches a regex; the date-time-like spelling maps each field "
  "to the unit of the same name and refuses week dates; unit values are "
  "written with str() only (no fixed precision) and every spelling str() "
  "gives a float (plain, decimal comma/point, exponent) is read back whole "
  "by the regexes; every field is written behind the all-negative guard; "
  "R26 the sign factor multiplies every captured unit.",
  "float -> str -> float fidelity of the digits themselves.", [], [])

P("C11", ["R16", "R17", "R12", "R07", "R40", "R41", "R69"],
  "projection-set comparison of eq/hash/ordering, slot-coverage checks, "
  "unit inference",
  "R16 Duration.__eq__, __hash__ and the four orderings read exact units "
  "only through the canonical projections, hash projections are a subset "
  "of equality projections, week form and unit form hash the same tuple "
  "shape, each ordering applies its own operator to the same projection of "
  "(self, other); R17 __add__/__floordiv__ update all six unit slots slot "
  "to slot plus the week form, __mul__/__abs__/__bool__ iterate __slots__, "
  "__sub__/__rmul__ delegate; R12 both projections are dimensionally "
  "consistent incl. the rough year/month factors; R07 radices 60/60/24/7 "
  "and a month of 30 days.",
  "associativity/identity laws over float components.", [], [])

P("C12", ["R18", "R19", "R04", "R07", "R75", "R61"],
  "finite-domain abstract interpretation of the recurrence constructor and "
  "__iter__",
  "R18 for each of the 13 reachable abstract post-states of the "
  "constructor (anchors None/Given/Derived x repetitions x interval "
  "zero/exact/maybe-nominal x notation): iteration starts at the given "
  "anchor (or an equivalent derived one when the interval is exact), walks "
  "in the direction the anchors dictate using get_next/get_prev "
  "accordingly, a single-point recurrence yields its anchor once, and a "
  "bounded walk with a possibly nominal interval is not cut by a derived "
  "bound; R19 neighbours are exactly one interval away.",
  "counts and values for concrete series.",
  ["two known findings (K1, K2) are reported as KNOWN-FINDING lines"], [])

P("C13", ["R19", "R43", "R61", "R68"],
  "abstract interpretation of guard status of returned points",
  "R19 every time point computed by arithmetic and returned by get_next, "
  "get_prev or get_first_after has passed self._get_is_in_bounds on that "
  "path (anchors and None need no guard); get_is_valid and __getitem__ "
  "obtain their points only from iteration of the recurrence, membership is "
  "equality with an iterated point, and the two early exits test the "
  "direction __iter__ walks under the same guard; neighbours move by one "
  "interval and are None for single points; the exact-interval shortcut of "
  "get_first_after adds period - remainder (strictly positive), never a "
  "bare remainder.",
  "that the closed form of get_first_after (divmod of second counts) lands "
  "on the earliest later member for every probe.", [], [])

P("C14", ["R18", "R16", "R28", "R17"],
  "abstract interpretation of __add__ re-entering the constructor, "
  "projection-set comparison",
  "R18 for every reachable state r + d rebuilds the recurrence through the "
  "constructor with every anchor of r shifted (none lost, none passed "
  "unshifted), the same repetitions and interval, min/max passed on; r - d "
  "delegates; R16 __eq__ compares every constructor-given component "
  "(incl. the interval) and __hash__ projects a subset of them; R28 "
  "__str__ writes each notation in the component order a recurrence regex "
  "reads, every component is written as str() of the stored component "
  "itself, and regex groups reach the constructor keyword of the same "
  "meaning; identity components are compared/hashed as they are (no "
  "projecting method in between); R17 a Duration method that rewrites "
  "slots through a literal name list covers all seven unit slots (so "
  "r - d negates the week form too).",
  "(r + d) - d == r and identical iteration over values.", [], [])

P("C15", ["R04", "R05", "R06", "R07", "R30", "R03", "R12", "R39", "R62", "R36", "R11"],
  "call-graph closure of mode reads, must-assign analysis, partial "
  "evaluation of set_mode over the finite mode table",
  "(structural, in full up to the assumptions) R04 every memoised function "
  "that can read mode-dependent calendar state, directly or through "
  "callees, has a parameter bound to the live CALENDAR.mode at every "
  "resolved call site, and is reachable under no other name; R05 "
  "Calendar.set_mode is the only writer of the singleton, no "
  "mode-dependent value is bound at import time (module level, class body, "
  "decorator, default argument) or stored into long-lived state; R06 "
  "set_mode assigns every derived attribute on every path and reads none of "
  "them before assigning it (the post-state is a function of the argument "
  "alone, so histories cannot matter); R07 the seven mode spellings fold "
  "through set_mode to exactly the documented month/year lengths and "
  "derived constants, the leap rule is the 4/100/400 fold; R30 the CLI "
  "option / environment variable reach set_mode before any parser is "
  "built and the option's choices are valid keys.",
  "numeric results of the calendar helpers themselves (C03).",
  ["no exec/eval/reflection on Calendar outside what is parsed",
   "functools.lru_cache keys on all arguments",
   "client code does not assign CALENDAR.* directly"],
  ["definition table MODE_DEF in sa/rules/calendar_mode.py (from the "
   "property text)"])

P("C16", ["R01", "R02", "R03", "R17", "R21", "R37"],
  "flow-sensitive ownership (fresh/receiver/param/shared) abstract "
  "interpretation with inter-procedural summaries",
  "(structural, in full up to the assumptions) R01 every store to a slot "
  "of a TimePoint/Duration/TimeZone/TimeRecurrence (194 sites incl. "
  "setattr loops) targets the object under construction, an object that is "
  "Fresh on every path (constructor, _copy, or a callee whose summary "
  "returns Fresh for a Fresh receiver), or self inside a private in-place "
  "normaliser; stores from other modules are refused; R02 the in-place "
  "normalisers (computed: _tick_over, _tick_over_day_of_month) are "
  "private and only invoked on Fresh receivers; no in-place dunders, no "
  "property setters, __slots__ declared; R03 memoised containers are only "
  "read, module/class-level state is written only at two named memo sites, "
  "no mutable defaults, value slots hold no containers; R17 copies cover "
  "all slots and give the copy its own zone object.",
  "nothing further (whole-program structural property).",
  ["client code does not write underscore attributes; no "
   "object.__setattr__/ctypes tricks (checked absent in the package)"], [])

P("C17", ["R29", "R13d", "R26", "R23", "R20", "R12", "R44", "R45", "R48", "R41", "R54", "R52"],
  "folded directive table vs POSIX meaning, representation abstract "
  "interpretation of strftime",
  "R29 the directive table holds exactly the supported set, each directive "
  "expands to the properties POSIX prescribes, %F/%X equal their parts, an "
  "unknown directive raises the ValueError-derived StrftimeSyntaxError "
  "before any output, both directions split formats with the same regex "
  "and strptime applies the assumed zone; R13d for calendar, ordinal and "
  "week receivers strftime reads the year properties from a non-week form "
  "(the table has no week directive); R26 every signed value a directive "
  "prints (%s) has a reader that admits the sign; R23 the same rows drive "
  "templates and regexes (widths agree); R20 raises reachable from "
  "strftime/strptime are ValueError-derived.",
  "character-level equality with libc strftime output.", [], [])

P("C18", ["R26", "R12", "R14", "R07", "R41", "R42", "R44"],
  "def-use dependence on the offset sign, unit inference with literal "
  "divisors",
  "(thin) R26 both components returned by get_local_time_zone are computed "
  "through the sign of the offset (the floor-vs-truncate regression of "
  "#193) and the format's '-' is chosen from both components; R12 the "
  "literal divisors 60/3600 yield (hours, minutes) from seconds, and that "
  "pair keeps its order through every consumer (TimeZone(hours=,minutes=), "
  "time_zone_hour/minute, the {hh}{mm} templates); Unix time is days * "
  "seconds-per-day + seconds of (self - epoch); R07 the epoch constants "
  "are 1970 at (0,0); R14 to_local_time_zone passes the pair in order.",
  "results for actual system zone configurations (read from time.* at run "
  "time).", [], [])

P("C19", ["R30", "R20", "R32", "R12", "R51", "R55", "R63", "R67", "R73", "R76", "R18"],
  "structural try/handler and option-plumbing checks, call-graph "
  "reachability",
  "R30 all four dispatch calls (for the recurrence generator: its loop) "
  "lie inside `try ... except ValueError: sys.exit(exc)`, every argparse "
  "destination is consumed and each DateTimeOperator keyword receives the "
  "option of the same meaning, --calendar / --as-total choices are valid "
  "downstream, set_calendar_mode runs unconditionally before parsers are "
  "built, the -P escape is undone at every consumer, the parsed expression "
  "is kept as print format, recurrence output is the first N items in "
  "order; R20 every raise reachable under the dispatch is ValueError-"
  "derived; R32 the printed sign and the operand order of the difference "
  "agree; R12 --as-total divides seconds by 60/3600; R51 offsets are "
  "applied one after the other (no parsed duration is added to another); "
  "the --utc conversion precedes every return of date_parse; an option "
  "with an environment fallback has no argparse default.",
  "the text printed for all argument vectors; argparse behaviour.",
  ["an invalid ISODATETIMECALENDAR raises KeyError in the constructor, "
   "outside the handler (an environment variable, not an argument) - noted"],
  [])

P("C20", ["R08", "R14", "R09", "R10", "R12", "R23", "R13c", "R36", "R46", "R47", "R04", "R07", "R78"],
  "typestate abstract interpretation of the search loops",
  "(thin) R08 in each of the seven in-scope search loops of add_truncated "
  "the incremented field is normalised by _tick_over() before the loop "
  "condition re-tests it (so every intermediate and the result are valid "
  "dates - also necessary for termination); R14 the search runs on the full "
  "operand re-expressed in the truncated operand's zone and the result is "
  "converted back to the full operand's zone, the commuted order "
  "delegates; R09/R10 the normaliser's carries agree; R23 every truncated "
  "year-part key is in the parser's year-presence list; R46 each requested "
  "field is written only inside its own search loop, loops run smallest "
  "unit first, and a requested time unit zeroes every lower unit that was "
  "not requested (decision table of the defaulting prologue); R04 no "
  "memoised length helper outlives a mode switch.",
  "earliest match, idempotence and termination (they depend on which values "
  "the cyclic fields can take).",
  ["-W53 + p does not terminate in the 360-day calendar (MAX_WEEKS_IN_YEAR "
   "is not mode-derived): outside the property's quantifier, noted"], [])

NOT_APPLICABLE = {}


# ---------------------------------------------------------------------------
# Dependency-based attribution.
#
# A property about computed values (instants, dates, orderings, texts) is
# stated for every input, so a defect in any function its operations call -
# the normaliser, a length helper, a representation converter, the
# comparison keys, a mode-dependent cache - breaks it as well, whichever
# property that function is "anchored" under.  For the properties below the
# obligations of the CORE rules (rules about that shared machinery) whose
# construct lies in a function reachable, in the resolved call graph, from
# the property's entry points are evaluated for the property too.  Entry
# points are the operations the property's anchors name (by function, not by
# line, because line numbers moved with the fix commits).
CORE_RULES = ("R04", "R05", "R06", "R07", "R08", "R09", "R10", "R11", "R12",
              "R13ab", "R13c", "R14", "R15", "R16", "R17", "R22", "R34",
              "R36", "R39", "R41", "R43", "R47", "R49", "R50", "R56", "R57", "R62", "R64",
              # (sixth round) operand mutation, the duration and year-range
              # text tables, and the rules added with that round
              "R01", "R02", "R03", "R27", "R54", "R65", "R66", "R69", "R70", "R71", "R72",
              "R76", "R77", "R79", "R80")

ENTRY_POINTS = {
    "C01": ["data.TimePoint.__add__", "data.TimePoint.__radd__"],
    "C02": ["data.TimePoint._cmp", "data.TimePoint.__hash__"],
    "C03": ["data.TimePoint.get_calendar_date",
            "data.TimePoint.get_ordinal_date", "data.TimePoint.get_week_date",
            "data.TimePoint.to_calendar_date",
            "data.TimePoint.to_ordinal_date", "data.TimePoint.to_week_date"],
    "C04": ["data.TimePoint.__sub__"],
    "C05": ["data.TimePoint.add_months", "data.TimePoint.__add__"],
    "C06": ["data.TimePoint.to_time_zone", "data.TimePoint.to_utc",
            "data.TimePoint.to_local_time_zone",
            "dumpers.TimePointDumper._dump_expression_with_properties"],
    "C07": ["parsers.TimePointParser.parse", "data.TimePoint.__str__",
            "dumpers.TimePointDumper.dump"],
    "C08": ["data.TimePoint.__str__", "dumpers.TimePointDumper.dump",
            "parsers.TimePointParser.parse"],
    "C09": ["data.TimePoint.__init__", "data.TimePoint._check_bounds",
            "parsers.TimePointParser.parse", "parsers.DurationParser.parse",
            "parsers.TimeRecurrenceParser.parse",
            "data.TimeRecurrence.__init__", "data.Duration.__init__"],
    "C10": ["data.Duration.__str__", "parsers.DurationParser.parse"],
    "C11": ["data.Duration.__add__", "data.Duration.__sub__",
            "data.Duration.__mul__", "data.Duration.__floordiv__",
            "data.Duration.__abs__", "data.Duration.__eq__",
            "data.Duration.__hash__", "data.Duration.__lt__",
            "data.Duration.__le__", "data.Duration.__gt__",
            "data.Duration.__ge__"],
    "C12": ["data.TimeRecurrence.__init__", "data.TimeRecurrence.__iter__"],
    "C13": ["data.TimeRecurrence.get_is_valid",
            "data.TimeRecurrence.get_first_after",
            "data.TimeRecurrence.__getitem__", "data.TimeRecurrence.get_next",
            "data.TimeRecurrence.get_prev"],
    "C14": ["data.TimeRecurrence.__add__", "data.TimeRecurrence.__sub__",
            "data.TimeRecurrence.__eq__", "data.TimeRecurrence.__hash__",
            "data.TimeRecurrence.__str__",
            "parsers.TimeRecurrenceParser.parse"],
    "C15": ["data.Calendar.set_mode", "data.get_is_leap_year",
            "data.get_days_in_year", "data.get_days_in_month",
            "data.get_weeks_in_year", "data.get_days_in_year_range",
            "data.get_days_since_1_ad", "data.iter_months_days",
            "data.get_calendar_date_from_ordinal_date",
            "data.get_calendar_date_from_week_date",
            "data.get_ordinal_date_from_calendar_date",
            "data.get_ordinal_date_from_week_date",
            "data.get_week_date_from_calendar_date",
            "data.get_week_date_from_ordinal_date",
            "data.get_calendar_date_week_date_start",
            "data.get_ordinal_date_week_date_start",
            # "every calendar-dependent result": arithmetic and validation
            "data.TimePoint.__add__", "data.TimePoint.__sub__",
            "data.TimePoint.add_months", "data.TimePoint._check_bounds"],
    "C17": ["dumpers.TimePointDumper.strftime",
            "parsers.TimePointParser.strptime"],
    "C18": ["data.TimePoint.seconds_since_unix_epoch",
            "data.get_timepoint_from_seconds_since_unix_epoch",
            "data.TimePoint.to_local_time_zone",
            "timezone.get_local_time_zone"],
    "C19": ["main.main", "data.TimeRecurrence.__iter__",
            "datetimeoper.DateTimeOperator.process_time_point_str",
            "datetimeoper.DateTimeOperator.diff_time_point_strs",
            "datetimeoper.DateTimeOperator.iter_recurrence_str",
            "datetimeoper.DateTimeOperator.format_duration_str"],
    "C20": ["data.TimePoint.add_truncated", "data.TimePoint.__add__"],
}

# Obligations of table rules that carry another property's tag but decide a
# clause of this one as well: (rule prefix, tag that counts).
INHERIT_TAGS = {
    # the date-time-like duration spelling is read with the time point
    # tables
    "C10": [("R23", "C07"), ("R24", "C07")],
    # "every in-range combination is accepted in each parser configuration"
    "C09": [("R24", "C07"), ("R37", "C07"), ("R03", "C16")],
    # --as-total and the recurrence text round trip go through
    # str(Duration) and DurationParser.parse
    "C19": [("R27", "C10"), ("R26", "C10"), ("R60", "C10")],
    "C14": [("R27", "C10"), ("R26", "C10"), ("R60", "C10")],
}



# Clauses added after the fifth seeding round (DESIGN 9.9), appended to the
# "decides" part of the explanations above.
_ROUND5 = {
    "C01": "R56 for each of the 64 zero/non-zero combinations of the "
           "duration's unit slots every non-zero unit reaches the result on "
           "every returning Duration path of TimePoint.__add__ (must-apply "
           "flow analysis).",
    "C03": "R57 values are compared half-open with week-year starts; R64 a "
           "closed-form day count from a week-year start adds a year length "
           "for every calendar year the start can lie back (symbolic year "
           "offsets).",
    "C07": "R58 a refusal conditioned on the text of the string is disjoint "
           "from every form regex the tables hold for that configuration "
           "(shape intersection); R59 configuration-dependent maps are "
           "subscripted only with keys known to be present; R36 no "
           "zero-legal stored field is read by truthiness in any TimePoint "
           "method.",
    "C09": "R59 a lookup in a map whose key set depends on the "
           "configuration cannot raise KeyError out of the parser (key "
           "origin followed through locals, parameters, tuple returns).",
    "C10": "R60 each numeral becomes a number by one int()/float() of the "
           "whole matched text, times the sign.",
    "C11": "R16 every non-False answer of Duration.__eq__ has compared the "
           "two total lengths (decision table).",
    "C12": "R11 a leap flag is never re-bound to something that is not "
           "leap-derived.",
    "C13": "R61 on every path of _get_is_in_bounds answering True each set "
           "bound (start, min, end, max) is ordered against the point, "
           "transitively.",
    "C15": "R62 a leap-year count becomes days only scaled by the "
           "calendar's leap-day size; R11/R36 over the calendar helpers.",
    "C17": "R29 the format splitter isolates every %<letter> so the refusal "
           "of unsupported directives sees them all.",
    "C19": "R63 outside the data model the raw year of a point is read "
           "with its converting month/day (week/weekday) properties only "
           "from a point known to be in the matching form.",
}
for _pid, _t in _ROUND5.items():
    _e = PROPS[_pid]["explanation"]
    assert " Does not decide:" in _e, _pid
    PROPS[_pid]["explanation"] = _e.replace(
        " Does not decide:", " " + _t + " Does not decide:", 1)


# Clauses added after the sixth seeding round (DESIGN 9.10).
_ROUND6 = {
    "C03": "R65 a 1-based count returned as day/month is reduced by a "
           "period length only under a strict `>` (bisect_left, not "
           "bisect); R66 no day count is divided by the length of a single "
           "year.",
    "C04": "R12 each borrow of the field-wise difference decrements the "
           "next unit up (an increment is a violation).",
    "C07": "R24 fraction groups take at least nine digits.",
    "C10": "R26 after a duration regex matched nothing refuses the text; "
           "R23/R24 (the time point tables) decide the date-time-like "
           "spelling.",
    "C11": "R17 a slot-wise __sub__ subtracts in every slot.",
    "C13": "R68 get_first_after answers None only where the following "
           "point or the probe was found outside the bounds.",
    "C19": "R67 date_shift strips the sign of an offset before the parser "
           "sees it; the duration text rules (R26/R27/R60) and, through the "
           "call graph of main and the operator, the core rules of the data "
           "model are evaluated for this property too.",
}
for _pid, _t in _ROUND6.items():
    _e = PROPS[_pid]["explanation"]
    assert " Does not decide:" in _e, _pid
    PROPS[_pid]["explanation"] = _e.replace(
        " Does not decide:", " " + _t + " Does not decide:", 1)


# Clauses added after the seventh seeding round (DESIGN 9.11).
_ROUND7 = {
    "C01": "R69 the time-of-day part of _tick_over conserves seconds + "
           "60*minutes + 3600*hours + 86400*(days carried) on every path "
           "(symbolic identity in a linear normal form); R72 a loop that "
           "steps a year asks the calendar helpers about that year.",
    "C02": "R69 get_hour_minute_second() and get_second_of_day() return the "
           "total of the fields that are set.",
    "C07": "R70 a dumper cached under a digit count is built for that "
           "count; R26 year_sign is '-' exactly for negative years; R42 the "
           "local offset uses the daylight offset only when DST is defined "
           "and in effect.",
    "C09": "R74 truncated date information is fabricated only where "
           "allow_truncated holds; R36 constructor defaults are filled in "
           "only under `is None`.",
    "C10": "R71 the week form is `_weeks is not None`, the stored week "
           "count is the signed day count // 7; R27 whole-number components "
           "of any length are read back.",
    "C11": "R69 Duration(standardize=True) conserves the total length.",
    "C19": "R73 the search over the parse formats stops at the first "
           "success; each offset list is unescaped from itself.",
}
for _pid, _t in _ROUND7.items():
    _e = PROPS[_pid]["explanation"]
    assert " Does not decide:" in _e, _pid
    PROPS[_pid]["explanation"] = _e.replace(
        " Does not decide:", " " + _t + " Does not decide:", 1)

_ROUND8 = {
    "C01": "R77 in _tick_over the fraction of a field moves into the next "
           "finer one exactly when both are set, and each field is reduced "
           "exactly under `field is not None`; R79 every day range "
           "_iter_months_days builds runs from day 1 (or the start day) "
           "through the month's last day.",
    "C03": "R49 a month-and-day match in the walk over calendar year Y also "
           "requires Y to be the date's year.",
    "C04": "R12 each borrow of TimePoint - TimePoint refills its unit with "
           "exactly one of the next unit up.",
    "C06": "R22 zone minutes are checked against -(60-1) .. 60-1, narrowed "
           "to 0 against the sign of the hours.",
    "C10": "R27 the flag that writes '-' + str(abs(d)) is raised only by a "
           "negative component and lowered for good by a positive one.",
    "C12": "R75 only a strictly negative interval is refused (zero is the "
           "single-point series).",
    "C13": "R19 get_is_valid leaves its scan early only where the direction "
           "of iteration rules out later members (every disjunct of the "
           "exit condition is justified).",
    "C18": "R44 the second count reaches Duration(seconds=) unrounded; R12 "
           "borrow refills.",
    "C20": "R78 fields are shifted by a zone difference only towards a "
           "known zone (the unknown zone of a truncated point is not UTC).",
}
for _pid, _t in _ROUND8.items():
    _e = PROPS[_pid]["explanation"]
    assert " Does not decide:" in _e, _pid
    PROPS[_pid]["explanation"] = _e.replace(
        " Does not decide:", " " + _t + " Does not decide:", 1)

_ROUND9 = {
    "C01": "R39 the week count of a year is counted from the active "
           "calendar's year lengths (no constant, no min/max clamp), and no "
           "function measures with the common-year constant alone.",
    "C04": "R80 nothing in the value classes, parsers or dumpers rounds a "
           "value or compares with a tolerance.",
    "C05": "R08 zone conversions in TimePoint.__add__ belong to the "
           "truncated-point branch: months and years are stepped on the "
           "date in the point's own offset.",
    "C07": "R38 the sign of a minute number is never decided by testing "
           "the value of the hour number (-00:30).",
    "C09": "R20 no int() of a float read from the text outside a handler "
           "for OverflowError.",
    "C10": "R26 the designator search tries the whole DURATION_REGEXES "
           "table for every expression.",
    "C11": "R08 Duration - Duration is returned as self + (-1 * other), "
           "untouched.",
    "C16": "R01 a store into an object that sits in a slot of a value "
           "object (x._zone._hours = ...) is a store into a shared object: "
           "copies are shallow.",
    "C18": "R44 the epoch count printed is int(86400 * days + seconds) of "
           "the difference on every path, and the count added by the "
           "inverse is unrounded.",
    "C19": "R30 no argument is split at a character the ISO 8601 notations "
           "use themselves.",
}
for _pid, _t in _ROUND9.items():
    _e = PROPS[_pid]["explanation"]
    assert " Does not decide:" in _e, _pid
    PROPS[_pid]["explanation"] = _e.replace(
        " Does not decide:", " " + _t + " Does not decide:", 1)
