"""Property -> rules, explanation, assumptions, trusted base."""

COMMON_TRUST = [
    "CPython ast / re._parser (parsing only; nothing from /repo is imported "
    "or executed)",
    "the checker's resolver (sa/resolve.py) incl. its table of public "
    "signatures for unannotated entry-point parameters",
]

PROPS = {}

PROPS["C15"] = {
    "rules": ["R04", "R05", "R06", "R07", "R30"],
    "explanation": (
        "Decides (structural, in full up to the listed assumptions): R04 "
        "every memoised function that can read mode-dependent calendar "
        "state, directly or through callees, has a parameter bound to the "
        "live CALENDAR.mode at every resolved call site, and is reachable "
        "under no other name; R05 Calendar.set_mode is the only writer of "
        "the singleton, no mode-dependent value is read at import time "
        "(module level, class body, decorator, default argument) or stored "
        "into long-lived state; R06 set_mode assigns every derived "
        "attribute on every path and reads none of them before assigning it "
        "(post-state is a function of the argument alone, so histories "
        "cannot matter); R07 the seven mode spellings fold through set_mode "
        "to exactly the documented month/year lengths and the leap rule is "
        "the 4/100/400 fold. Does not decide: numeric results of the "
        "calendar helpers themselves (C03)."),
    "assumptions": [
        "no exec/eval/reflection on Calendar outside what is parsed",
        "functools.lru_cache keys on all arguments",
        "client code does not assign CALENDAR.* directly",
    ],
    "trusted": COMMON_TRUST + ["definition table MODE_DEF in "
                               "sa/rules/calendar_mode.py (from the "
                               "property text)"],
}

PROPS["C01"] = {"rules": ["R09", "R10", "R11", "R08", "R13c"], "explanation": "wip", "assumptions": [], "trusted": COMMON_TRUST}
PROPS["C05"] = {"rules": ["R10", "R11", "R08", "R13c", "R13ab"], "explanation": "wip", "assumptions": [], "trusted": COMMON_TRUST}
PROPS["C03"] = {"rules": ["R11", "R13ab"], "explanation": "wip", "assumptions": [], "trusted": COMMON_TRUST}
PROPS["C06"] = {"rules": ["R09", "R10", "R11", "R08", "R13c", "R14", "R15", "R26"], "explanation": "wip", "assumptions": [], "trusted": COMMON_TRUST}
PROPS["C09"] = {"rules": ["R10", "R11", "R31", "R20", "R21", "R22", "R33", "R17"], "explanation": "wip", "assumptions": [], "trusted": COMMON_TRUST}
PROPS["C20"] = {"rules": ["R09", "R10", "R08", "R14", "R23"], "explanation": "wip", "assumptions": [], "trusted": COMMON_TRUST}

PROPS["C02"] = {"rules": ["R16", "R14", "R15", "R32", "R08"], "explanation": "wip", "assumptions": [], "trusted": COMMON_TRUST}
PROPS["C11"] = {"rules": ["R16", "R17"], "explanation": "wip", "assumptions": [], "trusted": COMMON_TRUST}
PROPS["C14"] = {"rules": ["R16", "R18", "R28"], "explanation": "wip", "assumptions": [], "trusted": COMMON_TRUST}
PROPS["C16"] = {"rules": ["R01", "R02", "R03", "R17"], "explanation": "wip", "assumptions": [], "trusted": COMMON_TRUST}

PROPS["C12"] = {"rules": ["R18", "R19"], "explanation": "wip", "assumptions": [], "trusted": COMMON_TRUST}
PROPS["C13"] = {"rules": ["R19", "R18"], "explanation": "wip", "assumptions": [], "trusted": COMMON_TRUST}

PROPS["C04"] = {"rules": ["R14", "R15", "R32", "R17", "R08"], "explanation": "wip", "assumptions": [], "trusted": COMMON_TRUST}
PROPS["C19"] = {"rules": ["R32", "R20", "R30"], "explanation": "wip", "assumptions": [], "trusted": COMMON_TRUST}

PROPS["C07"] = {"rules": ["R23", "R24", "R25", "R26"], "explanation": "wip", "assumptions": [], "trusted": COMMON_TRUST}
PROPS["C08"] = {"rules": ["R23", "R24", "R14", "R26"], "explanation": "wip", "assumptions": [], "trusted": COMMON_TRUST}

PROPS["C10"] = {"rules": ["R27", "R26"], "explanation": "wip", "assumptions": [], "trusted": COMMON_TRUST}
PROPS["C17"] = {"rules": ["R29", "R26", "R23", "R20", "R13d"], "explanation": "wip", "assumptions": [], "trusted": COMMON_TRUST}
PROPS["C18"] = {"rules": ["R26", "R14", "R07"], "explanation": "wip", "assumptions": [], "trusted": COMMON_TRUST}
