"""E7 - obligations, findings, evidence, known findings."""
import json
import os
import time

VERIF = os.path.dirname(os.path.dirname(os.path.abspath(__file__)))
KNOWN_FILE = os.path.join(VERIF, "known_findings.json")
EVIDENCE_DIR = os.path.join(VERIF, "evidence")


class Ob:
    """One evaluated rule instance (an obligation)."""
    __slots__ = ("rule", "key", "site", "verdict", "detail", "props",
                 "nontrivial", "witness")

    def __init__(self, rule, key, site, verdict, detail, props,
                 nontrivial=True, witness=None):
        self.rule = rule            # e.g. "R09.carry-amount"
        self.key = key              # stable construct key (no line numbers)
        self.site = site            # "data.py:1837" (diagnostic only)
        self.verdict = verdict      # ok | violation | note
        self.detail = detail
        self.props = tuple(props)
        self.nontrivial = nontrivial
        self.witness = witness or []

    def as_dict(self):
        d = {"rule": self.rule, "key": self.key, "site": self.site,
             "verdict": self.verdict, "detail": self.detail}
        if self.witness:
            d["witness_path"] = self.witness
        return d


class Report:
    def __init__(self):
        self.obs = []
        self.anchors = {}     # rule -> {anchor: count}
        self.notes = []       # (rule, text, props)
        self.tables = set()
        self.errors = []      # analysis errors (rule, text)
        self.assumptions = {}  # prop -> [text]
        self.trusted = {}      # prop -> [text]

    # -- emitters used by rules
    def ok(self, rule, key, site, detail, props, nontrivial=True):
        self.obs.append(Ob(rule, key, site, "ok", detail, props, nontrivial))

    def violation(self, rule, key, site, detail, props, witness=None):
        self.obs.append(Ob(rule, key, site, "violation", detail, props,
                           True, witness))

    def check(self, cond, rule, key, site, detail_ok, detail_bad, props,
              nontrivial=True, witness=None):
        if cond:
            self.ok(rule, key, site, detail_ok, props, nontrivial)
        else:
            self.violation(rule, key, site, detail_bad, props, witness)
        return cond

    def undecided(self, rule, key, site, detail, props):
        """The construct exists but is written in a form outside the idioms
        this rule reads: no verdict (reported as a NOTE and in the evidence,
        never as a violation; a *missing* construct is a violation or an
        anchor error instead)."""
        self.obs.append(Ob(rule, key, site, "undecided", detail, props,
                           True))

    def note(self, rule, text, props):
        self.notes.append((rule, text, tuple(props)))

    def anchor(self, rule, name, count=1):
        a = self.anchors.setdefault(rule, {})
        a[name] = a.get(name, 0) + count

    def need_anchor(self, rule, name):
        """Declare an anchor that must have matched at least once."""
        a = self.anchors.setdefault(rule, {})
        a.setdefault(name, 0)

    def error(self, rule, text):
        self.errors.append((rule, text))

    def missing_anchors(self, rules=None):
        out = []
        for rule, a in self.anchors.items():
            if rules is not None and rule.split(".")[0] not in rules and \
                    rule not in rules:
                continue
            for name, n in a.items():
                if n == 0:
                    out.append((rule, name))
        return out

    def for_prop(self, pid):
        return [o for o in self.obs if pid in o.props]


def load_known():
    if not os.path.exists(KNOWN_FILE):
        return []
    with open(KNOWN_FILE) as fh:
        return json.load(fh).get("findings", [])


def match_known(ob, pid, known):
    for k in known:
        if k.get("status") == "known" and k.get("property") == pid and \
                k.get("rule") == ob.rule and k.get("key") == ob.key:
            return k
    return None


def write_evidence(pid, tier, seed, explanation, obs, report, extra, wall,
                   violations, known_reported, assumptions, trusted, cmd):
    os.makedirs(EVIDENCE_DIR, exist_ok=True)
    keys = set()
    nontriv = set()
    for o in obs:
        keys.add((o.rule, o.key))
        if o.nontrivial:
            nontriv.add((o.rule, o.key))
    samples = [o.as_dict() for o in obs[:6]]
    # make sure violations / known findings are visible among the samples
    for o in obs:
        if o.verdict == "violation" and o.as_dict() not in samples:
            samples.append(o.as_dict())
    rules = sorted({o.rule.split(".")[0] for o in obs})
    anchors = {r: dict(a) for r, a in report.anchors.items()
               if r.split(".")[0] in rules}
    cov = {
        "explanation": explanation,
        "obligations": len(obs),
        "discharged": sum(1 for o in obs if o.verdict == "ok"),
        "undecided": [o.as_dict() for o in obs if o.verdict == "undecided"],
        "evaluations": len(obs),
        "distinct_nontrivial": len(nontriv),
        "rule": ("one evaluation = one rule instance (construct x rule) "
                 "decided on the current source of /repo; distinct = "
                 "distinct (rule, construct-key); non-trivial = deciding it "
                 "needed callee/type resolution, a path or dominance query, "
                 "an abstract-interpretation fix-point or a folded table "
                 "(pure presence checks are counted as trivial)"),
        "samples": samples,
        "rules": rules,
        "anchors": anchors,
        "notes": [{"rule": r, "note": t} for r, t, ps in report.notes
                  if pid in ps],
        "known_findings_reported": known_reported,
        "checker_cmd": cmd,
        "trusted_base": trusted,
    }
    cov.update(extra)
    ev = {"property_id": pid, "tier": tier, "seed": seed, "level": "other",
          "coverage": cov, "assumptions": assumptions,
          "wall_s": round(wall, 3), "violations": violations}
    path = os.path.join(EVIDENCE_DIR, pid + ".json")
    tmp = path + ".tmp"
    with open(tmp, "w") as fh:
        json.dump(ev, fh, indent=1, sort_keys=False, default=str)
    os.replace(tmp, path)
    return path


def write_replay(pid, n, ob, digest):
    d = os.path.join(EVIDENCE_DIR, "replay")
    os.makedirs(d, exist_ok=True)
    path = os.path.join(d, "%s-%d.json" % (pid, n))
    with open(path, "w") as fh:
        json.dump({"property": pid, "rule": ob.rule, "key": ob.key,
                   "site": ob.site, "reason": ob.detail,
                   "witness_path": ob.witness, "tree_digest": digest,
                   "written": time.strftime("%Y-%m-%dT%H:%M:%S")},
                  fh, indent=1)
    return path
