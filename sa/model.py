"""E1 - source model of metomi/isodatetime (parsed, never imported or run).

The model is built from *text*: ``Model.load()`` reads the files of the
package under /repo, ``Model.from_sources()`` takes a {module: text} map so
that the self-validation corpus can analyse in-memory variants with exactly
the same code path.
"""
import ast
import hashlib
import os
import re

REPO = os.environ.get("VERIF_REPO", "/repo")
PKG_DIR = "metomi/isodatetime"
PKG = "metomi.isodatetime"


class AnalysisError(Exception):
    """The analyser could not recognise what it is looking at (exit 2)."""


def U(node):
    return ast.unparse(node) if node is not None else "None"


class FuncInfo:
    def __init__(self, module, cls, node, outer=None):
        self.module = module
        self.cls = cls
        self.node = node
        self.name = node.name
        self.outer = outer
        if cls is not None:
            self.qual = "%s.%s.%s" % (module.name, cls.name, node.name)
        else:
            self.qual = "%s.%s" % (module.name, node.name)
        self.decorators = [U(d) for d in node.decorator_list]
        decs = " ".join(self.decorators)
        self.is_property = "property" in self.decorators
        self.is_static = "staticmethod" in self.decorators
        self.is_classmethod = "classmethod" in self.decorators
        self.is_cached = bool(re.search(r"\b(lru_cache|cache)\b", decs))
        a = node.args
        self.params = [x.arg for x in a.posonlyargs + a.args]
        self.kwonly = [x.arg for x in a.kwonlyargs]
        self.vararg = a.vararg.arg if a.vararg else None
        self.kwarg = a.kwarg.arg if a.kwarg else None
        # defaults aligned to params
        self.defaults = {}
        pos = a.posonlyargs + a.args
        for p, d in zip(pos[len(pos) - len(a.defaults):], a.defaults):
            self.defaults[p.arg] = d
        for p, d in zip(a.kwonlyargs, a.kw_defaults):
            if d is not None:
                self.defaults[p.arg] = d
        self.annotations = {}
        for p in pos + a.kwonlyargs:
            if p.annotation is not None:
                self.annotations[p.arg] = p.annotation
        self.returns = node.returns

    @property
    def is_method(self):
        return self.cls is not None and not self.is_static

    @property
    def self_name(self):
        if self.cls is not None and not self.is_static and self.params:
            return self.params[0]
        return None

    @property
    def call_params(self):
        """Parameters as seen by a caller (without self/cls)."""
        if self.cls is not None and not self.is_static:
            return self.params[1:]
        return list(self.params)

    def loc(self, node=None):
        return self.module.loc(node if node is not None else self.node)

    def __repr__(self):
        return "<Func %s>" % self.qual


class ClassInfo:
    def __init__(self, module, node):
        self.module = module
        self.node = node
        self.name = node.name
        self.qual = "%s.%s" % (module.name, node.name)
        self.base_exprs = [U(b) for b in node.bases]
        self.bases = []       # resolved ClassInfo or builtin names (str)
        self.methods = {}     # own methods
        self.attrs = {}       # class-body assignments name -> value node
        self.attr_nodes = {}  # name -> Assign stmt
        self._mro = None
        self._bases_done = False

    def mro(self):
        if self._mro is not None:
            return self._mro
        out, todo = [], [self]
        while todo:
            c = todo.pop(0)
            if c in out:
                continue
            out.append(c)
            if isinstance(c, ClassInfo):
                todo.extend(c.bases)
        if self._bases_done:
            self._mro = out
        return out

    def mro_names(self):
        return [c.name if isinstance(c, ClassInfo) else c for c in self.mro()]

    def find_method(self, name):
        for c in self.mro():
            if isinstance(c, ClassInfo) and name in c.methods:
                return c.methods[name]
        return None

    def find_attr(self, name):
        for c in self.mro():
            if isinstance(c, ClassInfo) and name in c.attrs:
                return c, c.attrs[name]
        return None, None

    def is_subclass_of(self, other):
        return other in self.mro()

    def __repr__(self):
        return "<Class %s>" % self.qual


class Module:
    def __init__(self, name, relpath, text, tree=None):
        self.name = name
        self.relpath = relpath
        self.text = text
        self.lines = text.splitlines()
        if tree is not None:
            self.tree = tree
        else:
            try:
                self.tree = ast.parse(text, filename=relpath)
            except SyntaxError as exc:
                raise AnalysisError("cannot parse %s: %s" % (relpath, exc))
        self.digest = hashlib.sha256(text.encode()).hexdigest()[:16]
        self.classes = {}
        self.functions = {}
        self.constants = {}     # module-level simple assignments
        self.const_nodes = {}
        self.imports = {}       # local name -> ("module", modname) |
        #                          ("symbol", modname, symbol)
        for node in ast.walk(self.tree):
            for child in ast.iter_child_nodes(node):
                child._parent = node
        self.tree._parent = None
        # evaluation-order index (line numbers are out of order after
        # inlining / unrolling)
        counter = [0]

        def number(n):
            n._pos = counter[0]
            counter[0] += 1
            for c in ast.iter_child_nodes(n):
                number(c)
        number(self.tree)

    def loc(self, node):
        return "%s:%s" % (os.path.basename(self.relpath),
                          getattr(node, "lineno", "?"))

    def seg(self, node):
        return ast.get_source_segment(self.text, node) or U(node)


BUILTIN_EXC = {
    "BaseException": [], "Exception": ["BaseException"],
    "ValueError": ["Exception"], "TypeError": ["Exception"],
    "KeyError": ["LookupError"], "IndexError": ["LookupError"],
    "LookupError": ["Exception"], "ArithmeticError": ["Exception"],
    "OverflowError": ["ArithmeticError"],
    "ZeroDivisionError": ["ArithmeticError"],
    "RuntimeError": ["Exception"], "NotImplementedError": ["RuntimeError"],
    "AttributeError": ["Exception"], "OSError": ["Exception"],
    "IOError": ["Exception"], "StopIteration": ["Exception"],
    "AssertionError": ["Exception"], "UnicodeError": ["ValueError"],
    "SystemExit": ["BaseException"], "KeyboardInterrupt": ["BaseException"],
    "ImportError": ["Exception"], "NameError": ["Exception"],
    "RecursionError": ["RuntimeError"], "MemoryError": ["Exception"],
    "object": [],
}


def builtin_exc_mro(name):
    out, todo = [], [name]
    while todo:
        n = todo.pop(0)
        if n in out:
            continue
        out.append(n)
        todo.extend(BUILTIN_EXC.get(n, []))
    return out


class Model:
    VALUE_CLASSES = ("TimePoint", "Duration", "TimeZone", "TimeRecurrence")

    def __init__(self, sources, inline=True, canon=False):
        """sources: {module short name: (relpath, text)}"""
        self.sources = sources
        self.canon = canon
        self.modules = {}
        trees = {}
        for name, (relpath, text) in sorted(sources.items()):
            try:
                trees[name] = ast.parse(text, filename=relpath)
            except SyntaxError as exc:
                raise AnalysisError("cannot parse %s: %s" % (relpath, exc))
        from .desugar import desugar_tree
        self.desugared = sum(desugar_tree(t) for t in trees.values())
        self.inline_report = {"inlined": {}, "removed": [], "kept": []}
        if inline:
            from .inline import inline_trees
            try:
                self.inline_report = inline_trees(trees)
            except RecursionError:
                raise AnalysisError("helper inlining did not terminate")
        self.canon_report = {}
        if canon:
            from .canon import canon_trees
            self.canon_report = canon_trees(trees)
        for name, (relpath, text) in sorted(sources.items()):
            self.modules[name] = Module(name, relpath, text, trees[name])
        self.classes = {}
        self.functions = {}
        for m in self.modules.values():
            self._index(m)
        self._resolve_bases()
        self.digest = hashlib.sha256(
            "".join(m.digest for m in self.modules.values()).encode()
        ).hexdigest()[:16]

    # ------------------------------------------------------------ loading
    @classmethod
    def package_files(cls, repo=None):
        repo = repo or REPO
        d = os.path.join(repo, PKG_DIR)
        if not os.path.isdir(d):
            raise AnalysisError("package directory %s not found" % d)
        out = {}
        for fn in sorted(os.listdir(d)):
            if fn.endswith(".py"):
                out[fn[:-3]] = os.path.join(PKG_DIR, fn)
        return out

    @classmethod
    def load(cls, repo=None, overrides=None, canon=False):
        repo = repo or REPO
        sources = {}
        for name, rel in cls.package_files(repo).items():
            with open(os.path.join(repo, rel), encoding="utf-8") as fh:
                sources[name] = (rel, fh.read())
        for name, text in (overrides or {}).items():
            rel = sources.get(name, (os.path.join(PKG_DIR, name + ".py"),))[0]
            sources[name] = (rel, text)
        return cls(sources, canon=canon or bool(
            os.environ.get("SA_FORCE_CANON")))

    def canonical(self):
        """The same sources, analysed in canonical statement form."""
        return Model(self.sources, canon=True)

    def texts(self):
        return {n: m.text for n, m in self.modules.items()}

    # ----------------------------------------------------------- indexing
    def _index(self, m):
        for st in m.tree.body:
            self._index_stmt(m, st)

    def _index_stmt(self, m, st):
        if isinstance(st, (ast.Import, ast.ImportFrom)):
            self._index_import(m, st)
        elif isinstance(st, ast.ClassDef):
            c = ClassInfo(m, st)
            m.classes[c.name] = c
            self.classes[c.qual] = c
            for b in st.body:
                if isinstance(b, (ast.FunctionDef, ast.AsyncFunctionDef)):
                    f = FuncInfo(m, c, b)
                    # property setters etc. would overwrite; keep first
                    c.methods.setdefault(b.name, f)
                    self.functions[f.qual] = f
                elif isinstance(b, ast.Assign):
                    for t in b.targets:
                        if isinstance(t, ast.Name):
                            c.attrs[t.id] = b.value
                            c.attr_nodes[t.id] = b
                elif isinstance(b, ast.AnnAssign) and b.value is not None:
                    if isinstance(b.target, ast.Name):
                        c.attrs[b.target.id] = b.value
                        c.attr_nodes[b.target.id] = b
        elif isinstance(st, (ast.FunctionDef, ast.AsyncFunctionDef)):
            f = FuncInfo(m, None, st)
            m.functions[f.name] = f
            self.functions[f.qual] = f
        elif isinstance(st, ast.Assign):
            for t in st.targets:
                if isinstance(t, ast.Name):
                    m.constants[t.id] = st.value
                    m.const_nodes[t.id] = st
        elif isinstance(st, (ast.If, ast.Try)):
            # module-level conditionals: index their bodies as well
            for sub in ast.iter_child_nodes(st):
                if isinstance(sub, ast.stmt):
                    self._index_stmt(m, sub)

    def _index_import(self, m, st):
        def short(modname):
            if modname is None:
                return None
            if modname.startswith(PKG + "."):
                return modname[len(PKG) + 1:]
            if modname == PKG:
                return "__init__"
            return None
        if isinstance(st, ast.Import):
            for a in st.names:
                m.imports[a.asname or a.name.split(".")[0]] = (
                    "extmodule", a.name)
        else:
            if st.level:       # relative: from . import x / from .data import y
                base = st.module
                for a in st.names:
                    local = a.asname or a.name
                    if base is None:
                        m.imports[local] = ("module", a.name)
                    else:
                        m.imports[local] = ("symbol", base, a.name)
            else:
                sm = short(st.module)
                for a in st.names:
                    local = a.asname or a.name
                    if sm == "__init__":
                        m.imports[local] = ("module", a.name)
                    elif sm is not None:
                        m.imports[local] = ("symbol", sm, a.name)
                    else:
                        m.imports[local] = ("extsymbol", st.module, a.name)

    def _resolve_bases(self):
        for c in self.classes.values():
            for b in c.node.bases:
                r = self.resolve_name_in_module(c.module, b)
                if isinstance(r, ClassInfo):
                    c.bases.append(r)
                else:
                    c.bases.append(U(b))
            c._bases_done = True
        self._subs = {}

    # ----------------------------------------------------------- lookups
    def resolve_name_in_module(self, m, expr):
        """Resolve Name / dotted Attribute at module scope to ClassInfo,
        FuncInfo, Module, or None."""
        if isinstance(expr, ast.Name):
            n = expr.id
            if n in m.classes:
                return m.classes[n]
            if n in m.functions:
                return m.functions[n]
            if n in m.imports:
                imp = m.imports[n]
                if imp[0] == "module":
                    return self.modules.get(imp[1])
                if imp[0] == "symbol":
                    tm = self.modules.get(imp[1])
                    if tm is None:
                        return None
                    if imp[2] in tm.classes:
                        return tm.classes[imp[2]]
                    if imp[2] in tm.functions:
                        return tm.functions[imp[2]]
                    if imp[2] in tm.constants:
                        return ("const", tm, imp[2])
                    if imp[2] in tm.imports:     # re-export
                        return self.resolve_name_in_module(
                            tm, ast.Name(id=imp[2]))
                    return None
                return None
            if n in m.constants:
                return ("const", m, n)
            return None
        if isinstance(expr, ast.Attribute):
            base = self.resolve_name_in_module(m, expr.value)
            if isinstance(base, Module):
                return self.resolve_name_in_module(
                    base, ast.Name(id=expr.attr))
            if isinstance(base, ClassInfo):
                f = base.find_method(expr.attr)
                if f is not None:
                    return f
                c, v = base.find_attr(expr.attr)
                if c is not None:
                    return ("classattr", c, expr.attr)
            return None
        return None

    def cls(self, name):
        """ClassInfo by short name (unique in the package)."""
        hits = [c for c in self.classes.values() if c.name == name]
        if len(hits) != 1:
            raise AnalysisError("class %s: %d definitions" % (name, len(hits)))
        return hits[0]

    def has_cls(self, name):
        return sum(1 for c in self.classes.values() if c.name == name) == 1

    def func(self, qual):
        """FuncInfo by 'module.func' or 'module.Class.method' or
        'Class.method' (unique)."""
        if qual in self.functions:
            return self.functions[qual]
        hits = [f for q, f in self.functions.items()
                if q.endswith("." + qual)]
        if len(hits) != 1:
            raise AnalysisError(
                "anchor %s not found (%d matches)" % (qual, len(hits)))
        return hits[0]

    def has_func(self, qual):
        try:
            self.func(qual)
            return True
        except AnalysisError:
            return False

    def exc_mro_names(self, cls_or_name):
        """Names of all ancestors of an exception class (package or builtin)."""
        if isinstance(cls_or_name, ClassInfo):
            out = []
            for c in cls_or_name.mro():
                if isinstance(c, ClassInfo):
                    out.append(c.name)
                else:
                    out.extend(builtin_exc_mro(c))
            return out
        return builtin_exc_mro(cls_or_name)

    def subclasses(self, c):
        r = self._subs.get(c.qual)
        if r is None:
            r = self._subs[c.qual] = [
                k for k in self.classes.values() if c in k.mro()]
        return r

    def all_functions(self):
        return list(self.functions.values())


# ---------------------------------------------------------------- helpers
def parent(node):
    return getattr(node, "_parent", None)


def ancestors(node):
    p = parent(node)
    while p is not None:
        yield p
        p = parent(p)


def enclosing_stmt(node):
    n = node
    while n is not None and not isinstance(n, ast.stmt):
        n = parent(n)
    return n


def clone(node):
    """Structural copy of an AST (without the parent links, which would make
    copy.deepcopy copy the whole module)."""
    if isinstance(node, ast.AST):
        new = node.__class__()
        for f in node._fields:
            if hasattr(node, f):
                setattr(new, f, clone(getattr(node, f)))
        for a in ("lineno", "col_offset", "end_lineno", "end_col_offset"):
            if hasattr(node, a):
                setattr(new, a, getattr(node, a))
        return new
    if isinstance(node, list):
        return [clone(x) for x in node]
    return node


def walk_no_nested(node):
    """ast.walk that does not descend into nested function/class defs."""
    todo = [node]
    first = True
    while todo:
        n = todo.pop()
        if not first and isinstance(
                n, (ast.FunctionDef, ast.AsyncFunctionDef, ast.ClassDef,
                    ast.Lambda)):
            continue
        first = False
        yield n
        todo.extend(ast.iter_child_nodes(n))


def npos(node):
    """Position of a node in evaluation order within its module."""
    p = getattr(node, "_pos", None)
    if p is None:
        return (getattr(node, "lineno", 0) * 1000 +
                getattr(node, "col_offset", 0))
    return p


def preorder(node):
    """Nodes in source/evaluation order, not descending into nested
    function/class definitions (line numbers are not reliable after
    inlining and unrolling)."""
    yield node
    for c in ast.iter_child_nodes(node):
        if isinstance(c, (ast.FunctionDef, ast.AsyncFunctionDef,
                          ast.ClassDef, ast.Lambda)):
            continue
        yield from preorder(c)


def calls_in(node):
    return [n for n in walk_no_nested(node) if isinstance(n, ast.Call)]


def is_self_attr(node, selfname="self", attr=None):
    return (isinstance(node, ast.Attribute) and
            isinstance(node.value, ast.Name) and node.value.id == selfname and
            (attr is None or node.attr == attr))


def alpha_key(node):
    """Normalised text of a node, stable under renaming of local names that
    are *assigned* inside it is not attempted; we use the plain unparse with
    whitespace normalised (line numbers never appear in keys)."""
    return re.sub(r"\s+", " ", U(node)).strip()


def short_key(node, limit=90):
    k = alpha_key(node)
    if isinstance(node, (ast.If, ast.While, ast.For)):
        k = k.split(":")[0]
    return k if len(k) <= limit else k[:limit] + "..."
