"""Statement canonicaliser.

Rewrites every function body of the parsed package into a canonical form
before the model is indexed, so that the rules see one shape for code that
differs only by local, behaviour-preserving refactoring idioms:

  T1  single-use temporaries are forwarded into the next statement
        t = E ; S(t)                      ->  S(E)
  T2  conditional expressions that are the whole value of a statement are
      lowered to if/else
        x = a if c else b                 ->  if c: x = a  else: x = b
        return a if c else b              ->  if c: return a  \n return b
  T3  an if/else whose branches end by assigning the same single-use name,
      followed by a return that reads it, takes the return into the branches
  T4  branch order: a trivial exit (one return/raise/continue/break) comes
      first; otherwise a test with a leading `not` is un-negated by swapping
      the branches; an else after a leaving body is flattened
  T5  tests are put in negation normal form (not pushed through and/or and
      comparisons; double negation removed)
  T6  x = x <op> e                        ->  x <op>= e ;   x = x  dropped
  T9  a name bound once, at the top level of the function, to an attribute
      chain of a never re-bound name (`z = other._time_zone`) is replaced by
      that chain wherever it is read, provided the function never stores to
      an attribute of that name and makes no call on / with the root object
      before the last read
  T10 operator.lt(a, b) and friends            ->  a < b
  T11 a for loop over a literal sequence of constants (or of tuples of
      constants) without break/continue/else is unrolled, the loop variables
      replaced by the constants; getattr(x, "name") -> x.name and
      setattr(x, "name", v) -> x.name = v
  T14 a field cached in a local around a loop
        v = X.f ; while T(v): v op= s ; X.f = v ; REST ; v = X.f
      becomes  while T(X.f): X.f op= s ; REST   (v not read anywhere else)
  T15 a class-level constant tuple/list of constants (assigned once, never
      stored to anywhere in the package) read as self.NAME / cls.NAME /
      Class.NAME in an iteration position is replaced by its literal;
      any(E for x in <literal>) / all(...) become an or / and chain
  T16 x = min(x, L) -> if x > L: x = L ;  x = max(x, L) -> if x < L: x = L
  T18 getattr(o, "name") / setattr(o, "name", v) with a constant identifier
      ->  o.name / o.name = v
  T19 a, b = (E(v) for v in (x, y))   ->  a = E(x) ; b = E(y)
  T21 "ab"[c] / (a, b)[c] with a boolean expression c  ->  b if c else a
  T20 v = functools.reduce(lambda a, x: E, S, I)
      ->  v = I ; for x in S: v = E[a := v]
  T17 fields cached in locals over a region
        v = X.a ; w = X.b ; <region: no access to X.a / X.b, no call on or
        with X> ; X.a, X.b = v, w
      become the region with X.a / X.b for v / w (v, w not used afterwards)
  T12 an if whose test consists of constants is replaced by the branch taken
  T7  `True if c else False` / `if c: return True; return False`
        with c a comparison              ->  c
      and a constant list on the right of in / not in becomes a tuple

Every rewrite is an equivalence for the value types this package computes
with (ints, strings, None, bools, its own value classes); T5 treats
`not a < b` as `a >= b`, which is wrong only for unordered operands such as
NaN.  Line numbers of the original nodes are kept, so reports still point
at the source.  The transformation is deterministic and idempotent; on the
unmodified repository it changes only a few dozen statements.
"""
import ast
import copy

_NEG = {ast.Eq: ast.NotEq, ast.NotEq: ast.Eq, ast.Lt: ast.GtE,
        ast.GtE: ast.Lt, ast.Gt: ast.LtE, ast.LtE: ast.Gt,
        ast.Is: ast.IsNot, ast.IsNot: ast.Is, ast.In: ast.NotIn,
        ast.NotIn: ast.In}

_EXIT = (ast.Return, ast.Raise, ast.Continue, ast.Break)
_SCOPES = (ast.FunctionDef, ast.AsyncFunctionDef, ast.Lambda, ast.ListComp,
           ast.SetComp, ast.DictComp, ast.GeneratorExp, ast.ClassDef)


def U_(e):
    try:
        return ast.unparse(e)
    except Exception:
        return ''


def negate(e):
    """-> expression equivalent to `not e` in boolean context, in NNF."""
    if isinstance(e, ast.UnaryOp) and isinstance(e.op, ast.Not):
        return nnf(e.operand)
    if isinstance(e, ast.BoolOp):
        op = ast.Or() if isinstance(e.op, ast.And) else ast.And()
        return ast.copy_location(
            ast.BoolOp(op=op, values=[negate(v) for v in e.values]), e)
    if (isinstance(e, ast.Compare) and len(e.ops) == 1
            and type(e.ops[0]) in _NEG):
        return ast.copy_location(
            ast.Compare(left=e.left, ops=[_NEG[type(e.ops[0])]()],
                        comparators=e.comparators), e)
    if isinstance(e, ast.Constant) and isinstance(e.value, bool):
        return ast.copy_location(ast.Constant(value=not e.value), e)
    return ast.copy_location(ast.UnaryOp(op=ast.Not(), operand=e), e)


_MIRROR = {ast.Eq: ast.Eq, ast.NotEq: ast.NotEq, ast.Lt: ast.Gt,
           ast.Gt: ast.Lt, ast.LtE: ast.GtE, ast.GtE: ast.LtE}


def nnf(e):
    if isinstance(e, ast.UnaryOp) and isinstance(e.op, ast.Not):
        return negate(e.operand)
    if isinstance(e, ast.BoolOp):
        return ast.copy_location(
            ast.BoolOp(op=e.op, values=[nnf(v) for v in e.values]), e)
    return e


class _ConstRight(ast.NodeTransformer):
    """`1 == x` -> `x == 1` (a constant operand goes to the right)."""

    def __init__(self):
        self.count = 0

    def visit_Compare(self, node):
        self.generic_visit(node)
        if len(node.ops) == 1 and type(node.ops[0]) in _MIRROR and \
                isinstance(node.left, ast.Constant) and \
                not isinstance(node.comparators[0], ast.Constant):
            self.count += 1
            return ast.copy_location(ast.Compare(
                left=node.comparators[0],
                ops=[_MIRROR[type(node.ops[0])]()],
                comparators=[node.left]), node)
        return node


def _leaves(body):
    """Does control never fall out of the end of this block?"""
    if not body:
        return False
    last = body[-1]
    if isinstance(last, _EXIT):
        return True
    if isinstance(last, ast.If):
        return bool(last.orelse) and _leaves(last.body) and \
            _leaves(last.orelse)
    return False


def _trivial_exit(body):
    if len(body) != 1 or not isinstance(body[0], _EXIT):
        return False
    st = body[0]
    if isinstance(st, ast.Return):
        v = st.value
        return v is None or isinstance(v, (ast.Name, ast.Constant)) or (
            isinstance(v, ast.Call) and not v.args and not v.keywords
            and isinstance(v.func, ast.Name))
    return True


def _is_boolean_expr(e):
    if isinstance(e, ast.Compare):
        return True
    if isinstance(e, ast.UnaryOp) and isinstance(e.op, ast.Not):
        return True
    if isinstance(e, ast.BoolOp):
        return all(_is_boolean_expr(v) for v in e.values)
    return False


def _continue_to_else(stmts):
    """Loop body in which `if c: continue` guards at the top level of the
    body are turned into `if not c: <rest>`; None when another continue /
    break of this loop remains."""
    out = []
    for i, st in enumerate(stmts):
        if isinstance(st, ast.If) and not st.orelse and len(st.body) == 1 \
                and isinstance(st.body[0], ast.Continue):
            rest = _continue_to_else(stmts[i + 1:])
            if rest is None:
                return None
            if rest:
                out.append(ast.copy_location(ast.If(
                    test=negate(st.test), body=rest, orelse=[]), st))
            return out
        out.append(st)
    return out


def _static_truth(e):
    """Truth of a test that consists of constants only; None otherwise."""
    if isinstance(e, ast.Constant):
        return bool(e.value)
    if isinstance(e, ast.UnaryOp) and isinstance(e.op, ast.Not):
        t = _static_truth(e.operand)
        return None if t is None else not t
    if isinstance(e, ast.BoolOp):
        vals = [_static_truth(v) for v in e.values]
        if isinstance(e.op, ast.And):
            if any(v is False for v in vals):
                return False
            return True if all(v is True for v in vals) else None
        if any(v is True for v in vals):
            return True
        return False if all(v is False for v in vals) else None
    if isinstance(e, ast.Compare) and len(e.ops) == 1 and isinstance(
            e.left, ast.Constant) and isinstance(
                e.comparators[0], ast.Constant):
        a, b = e.left.value, e.comparators[0].value
        op = e.ops[0]
        if isinstance(op, ast.Is):
            return (a is b) if (a is None or b is None) else None
        if isinstance(op, ast.IsNot):
            return (a is not b) if (a is None or b is None) else None
        try:
            if isinstance(op, ast.Eq):
                return a == b
            if isinstance(op, ast.NotEq):
                return a != b
        except Exception:
            return None
    return None


def _walk_same_loop(stmts):
    """Nodes of a loop body that belong to this loop (not to inner loops or
    nested scopes)."""
    for st in stmts:
        yield st
        if isinstance(st, (ast.For, ast.While, ast.FunctionDef,
                           ast.AsyncFunctionDef, ast.ClassDef)):
            continue
        for fld in ("body", "orelse", "finalbody"):
            sub = getattr(st, fld, None)
            if isinstance(sub, list) and sub and isinstance(sub[0],
                                                            ast.stmt):
                yield from _walk_same_loop(sub)
        if isinstance(st, ast.Try):
            for h in st.handlers:
                yield from _walk_same_loop(h.body)


class _ConstSubst(ast.NodeTransformer):
    """Replace loop variables by constants; fold getattr with a constant
    name into an attribute access."""

    def __init__(self, mapping):
        self.mapping = mapping

    def visit_Name(self, node):
        if node.id in self.mapping and isinstance(node.ctx, ast.Load):
            return ast.copy_location(copy.deepcopy(self.mapping[node.id]),
                                     node)
        return node

    def visit_BinOp(self, node):
        self.generic_visit(node)
        if isinstance(node.op, ast.Add) and isinstance(
                node.left, ast.Constant) and isinstance(
                    node.right, ast.Constant) and isinstance(
                        node.left.value, str) and isinstance(
                            node.right.value, str):
            return ast.copy_location(ast.Constant(
                value=node.left.value + node.right.value), node)
        return node

    def visit_Call(self, node):
        self.generic_visit(node)
        if isinstance(node.func, ast.Name) and node.func.id == "getattr" \
                and len(node.args) == 2 and not node.keywords and \
                isinstance(node.args[1], ast.Constant) and isinstance(
                    node.args[1].value, str) and \
                node.args[1].value.isidentifier():
            return ast.copy_location(ast.Attribute(
                value=node.args[0], attr=node.args[1].value,
                ctx=ast.Load()), node)
        return node


def _preorder(nodes):
    """Nodes of a statement list in evaluation (source) order."""
    for n in nodes:
        yield n
        yield from _preorder(list(ast.iter_child_nodes(n)))


def _pure_boolean(e):
    """Comparison / and / or / not over names, attributes and constants."""
    if isinstance(e, ast.BoolOp):
        return all(_pure_boolean(v) for v in e.values)
    if isinstance(e, ast.UnaryOp) and isinstance(e.op, ast.Not):
        # (`not x` is a boolean whatever x is)
        return _pure_boolean(e.operand) or (
            _pure_operand(e.operand) and not isinstance(
                e.operand, (ast.Tuple, ast.List)))
    if isinstance(e, ast.Compare):
        return all(_pure_operand(x) for x in [e.left] + e.comparators)
    if isinstance(e, ast.Call) and isinstance(e.func, ast.Name) and \
            e.func.id == "isinstance" and len(e.args) == 2 and \
            not e.keywords and _pure_operand(e.args[0]) and (
                isinstance(e.args[1], ast.Name) or (
                    isinstance(e.args[1], ast.Tuple) and all(
                        isinstance(x, ast.Name) for x in e.args[1].elts))):
        return True         # a type test of a name
    return False


def _pure_arith(e, top=True):
    """A number, or + - * between a number and a name / attribute chain /
    such an expression: a named constant (`first_day = 1`, `limit =
    CALENDAR.MINUTES_IN_HOUR - 1`).  Every operation has a literal number
    on one side, so it is arithmetic on numbers and not an overloaded
    operator building an object (`self + offset`)."""
    if isinstance(e, ast.Constant):
        return isinstance(e.value, (int, float)) and not isinstance(
            e.value, bool)
    if isinstance(e, ast.UnaryOp) and isinstance(e.op, (ast.USub, ast.UAdd)):
        return _pure_arith(e.operand)
    if isinstance(e, ast.BinOp) and isinstance(
            e.op, (ast.Add, ast.Sub, ast.Mult)):
        def operand(x):
            if isinstance(x, ast.Name):
                return True
            if isinstance(x, ast.Attribute):
                while isinstance(x, ast.Attribute):
                    x = x.value
                return isinstance(x, ast.Name)
            return _pure_arith(x)
        return (_pure_arith(e.left) and operand(e.right)) or (
            operand(e.left) and _pure_arith(e.right))
    return False


def _rotatable(e):
    """f(<names, attributes, constants, arithmetic>) with f a plain name"""
    if isinstance(e, ast.Call):
        return isinstance(e.func, ast.Name) and not e.keywords and all(
            _rotatable(a) for a in e.args) and e.func.id not in (
                "next", "input", "iter", "open")
    if isinstance(e, ast.BinOp):
        return _rotatable(e.left) and _rotatable(e.right)
    if isinstance(e, ast.UnaryOp):
        return _rotatable(e.operand)
    return _pure_operand(e)


def _pure_operand(e):
    if isinstance(e, (ast.Name, ast.Constant)):
        return True
    if isinstance(e, ast.Attribute):
        return _pure_operand(e.value)
    if isinstance(e, (ast.Tuple, ast.List)):
        return all(_pure_operand(x) for x in e.elts)
    return False


def _is_const(e, val):
    return isinstance(e, ast.Constant) and e.value is val


class _Usage:
    """Name usage of one function (nested scopes make a name ineligible)."""

    def __init__(self, fn):
        self.loads = {}
        self.stores = {}
        self.banned = set()
        a = fn.args
        for arg in (a.posonlyargs + a.args + a.kwonlyargs
                    + [x for x in (a.vararg, a.kwarg) if x]):
            self.banned.add(arg.arg)
        self._walk(fn.body, False)

    def _walk(self, nodes, nested):
        for n in nodes:
            self._visit(n, nested)

    def _visit(self, n, nested):
        if isinstance(n, (ast.Global, ast.Nonlocal)):
            self.banned.update(n.names)
        if isinstance(n, ast.Name):
            if nested:
                self.banned.add(n.id)
            elif isinstance(n.ctx, ast.Load):
                self.loads[n.id] = self.loads.get(n.id, 0) + 1
            else:
                self.stores[n.id] = self.stores.get(n.id, 0) + 1
            return
        if isinstance(n, (ast.ExceptHandler,)) and n.name:
            self.banned.add(n.name)
        inner = nested or isinstance(n, _SCOPES)
        for c in ast.iter_child_nodes(n):
            self._visit(c, inner)


class _Replace(ast.NodeTransformer):
    def __init__(self, name, value):
        self.name = name
        self.value = value
        self.count = 0

    def visit_Name(self, node):
        if node.id == self.name and isinstance(node.ctx, ast.Load):
            self.count += 1
            return self.value
        return node

    def generic_visit(self, node):
        if isinstance(node, _SCOPES):
            return node
        return super().generic_visit(node)


class _ReplaceAll(ast.NodeTransformer):
    def __init__(self, name, value):
        self.name = name
        self.value = value

    def visit_Name(self, node):
        if node.id == self.name and isinstance(node.ctx, ast.Load):
            return ast.copy_location(copy.deepcopy(self.value), node)
        return node


def _count_loads(node, name):
    c = 0
    for n in ast.walk(node):
        if isinstance(n, ast.Name) and n.id == name and \
                isinstance(n.ctx, ast.Load):
            c += 1
    return c


def _forward_slot(st):
    """Expression holders of `st` that are evaluated exactly once, first."""
    if isinstance(st, (ast.Return, ast.Expr)):
        return ["value"]
    if isinstance(st, ast.Assign):
        if all(isinstance(t, ast.Name) for t in st.targets):
            return ["value"]
        return ["value"]
    if isinstance(st, ast.AugAssign):
        return ["value"]
    if isinstance(st, ast.AnnAssign):
        return ["value"]
    if isinstance(st, ast.If):
        return ["test"]
    if isinstance(st, ast.For):
        return ["iter"]
    if isinstance(st, ast.Raise):
        return ["exc"]
    return []


class Canon:
    def __init__(self):
        self.counts = {}

    def note(self, what):
        self.counts[what] = self.counts.get(what, 0) + 1

    # -------------------------------------------------------------- driver
    def run_function(self, fn):
        cr = _ConstRight()
        cr.visit(fn)
        if cr.count:
            self.counts["T5.constant-right"] = self.counts.get(
                "T5.constant-right", 0) + cr.count
        for _ in range(40):
            self.changed = False
            self.usage = _Usage(fn)
            self.aliases(fn)
            fn.body = self.block(fn.body) or [ast.Pass()]
            if not self.changed:
                break
        ast.fix_missing_locations(fn)

    def aliases(self, fn):
        u = self.usage
        a_ = fn.args
        self._params = {x.arg for x in a_.posonlyargs + a_.args +
                        a_.kwonlyargs}
        attr_stores = set()
        for n in ast.walk(fn):
            if isinstance(n, ast.Attribute) and isinstance(
                    n.ctx, (ast.Store, ast.Del)):
                attr_stores.add(n.attr)
            if isinstance(n, ast.Call) and isinstance(n.func, ast.Name) and \
                    n.func.id in ("setattr", "delattr"):
                attr_stores.add("*")
        for blk, i, st in self._all_blocks(fn):
            if not (isinstance(st, ast.Assign) and len(st.targets) == 1
                    and isinstance(st.targets[0], ast.Name)):
                continue
            v = st.targets[0].id
            if v in u.banned or u.stores.get(v) != 1 or \
                    u.loads.get(v, 0) < 1:
                continue
            chain = st.value
            attrs = []
            while isinstance(chain, ast.Attribute):
                attrs.append(chain.attr)
                chain = chain.value
            roots = None
            if attrs and isinstance(chain, ast.Name):
                roots = {chain.id}
            elif isinstance(st.value, ast.Name) and \
                    st.value.id != v and st.value.id not in self._params:
                # a copy of another local (not of a parameter: `new = self`
                # is what the aliasing rules are there to see)
                roots = {st.value.id}
            elif _pure_boolean(st.value) or _pure_arith(st.value):
                roots = {n.id for n in ast.walk(st.value)
                         if isinstance(n, ast.Name)}
                attrs = [n.attr for n in ast.walk(st.value)
                         if isinstance(n, ast.Attribute)]
            if roots is None:
                continue
            if any(r in u.banned and r not in self._params for r in roots):
                continue
            # no call on / with the root before the last read of v
            rest = blk[i + 1:]
            attr_stores = set()
            rebound = False
            for n in ast.walk(ast.Module(body=rest, type_ignores=[])):
                if isinstance(n, ast.Name) and n.id in roots and \
                        isinstance(n.ctx, (ast.Store, ast.Del)):
                    rebound = True
                if isinstance(n, ast.Attribute) and isinstance(
                        n.ctx, (ast.Store, ast.Del)):
                    attr_stores.add(n.attr)
                if isinstance(n, ast.Call) and isinstance(
                        n.func, ast.Name) and n.func.id in ("setattr",
                                                            "delattr"):
                    attr_stores.add("*")
            if rebound or "*" in attr_stores or any(
                    a in attr_stores for a in attrs):
                continue
            order = {}
            for n in _preorder(rest):
                order[id(n)] = len(order)
            last = None
            for n in _preorder(rest):
                if isinstance(n, ast.Name) and n.id == v:
                    last = order[id(n)]
            if last is None:
                continue
            inside = sum(1 for n in ast.walk(ast.Module(
                body=rest, type_ignores=[])) if isinstance(n, ast.Name)
                and n.id == v and isinstance(n.ctx, ast.Load))
            if inside != u.loads.get(v, 0):
                continue
            clean = True
            # (the type of an object does not change under calls on it)
            type_test_only = isinstance(st.value, ast.Call) and isinstance(
                st.value.func, ast.Name) and st.value.func.id == "isinstance"
            for n in ast.walk(ast.Module(body=rest, type_ignores=[])):
                if type_test_only:
                    break
                if isinstance(n, ast.Call) and order.get(id(n), 0) <= last:
                    recv = n.func
                    while isinstance(recv, ast.Attribute):
                        recv = recv.value
                    names = set()
                    for a in list(n.args) + [k.value for k in n.keywords]:
                        if isinstance(a, ast.Starred):
                            a = a.value
                        if isinstance(a, ast.Name):
                            names.add(a.id)
                    if (isinstance(recv, ast.Name) and recv.id in roots
                            and isinstance(n.func, ast.Attribute)
                            and n.func.value is recv) or roots & names:
                        clean = False
                        break
            if not clean:
                continue
            for k, other in enumerate(rest):
                r = _ReplaceAll(v, st.value)
                rest[k] = r.visit(other)
            blk[i + 1:] = rest
            blk.remove(st)
            self.did("T9.alias")
            self.usage = _Usage(fn)
            return

    @staticmethod
    def _all_blocks(fn):
        """(block list, index, statement) of every statement of fn that is
        not inside a loop (a loop body may run again after a later store)."""
        out = []

        def visit(blk):
            for i, st in enumerate(list(blk)):
                out.append((blk, i, st))
                if isinstance(st, (ast.For, ast.While, ast.FunctionDef,
                                   ast.AsyncFunctionDef, ast.ClassDef)):
                    continue
                for fld in ("body", "orelse", "finalbody"):
                    sub = getattr(st, fld, None)
                    if isinstance(sub, list) and sub and isinstance(
                            sub[0], ast.stmt):
                        visit(sub)
                if isinstance(st, ast.Try):
                    for h in st.handlers:
                        visit(h.body)
        visit(fn.body)
        return out

    def did(self, what):
        self.changed = True
        self.note(what)

    # -------------------------------------------------------------- blocks
    def block(self, stmts, chain=False):
        """chain: `stmts` is the else part of an if; a lone `if` in it is an
        elif, whose place in the chain is kept."""
        stmts = list(stmts)
        in_chain = chain and len(stmts) == 1 and isinstance(stmts[0], ast.If)
        # recurse first
        for s in stmts:
            if isinstance(s, (ast.FunctionDef, ast.AsyncFunctionDef,
                              ast.ClassDef)):
                continue
            for field in ("body", "orelse", "finalbody"):
                sub = getattr(s, field, None)
                if isinstance(sub, list) and sub and \
                        isinstance(sub[0], ast.stmt):
                    setattr(s, field, self.block(
                        sub, chain=(field == "orelse"
                                    and isinstance(s, ast.If))))
            if isinstance(s, ast.Try):
                for h in s.handlers:
                    h.body = self.block(h.body)
        stmts = self._unroll(stmts)
        stmts = self._uncache(stmts)
        stmts = self._uncache_region(stmts)
        stmts = self._minmax(stmts)
        # empty branches left behind by dropped statements
        cleaned = []
        if len(stmts) > 1 and any(isinstance(x, ast.Pass) for x in stmts):
            kept = [x for x in stmts if not isinstance(x, ast.Pass)]
            if kept:
                stmts = kept
                self.did("T6.pass")
        for s in stmts:
            if isinstance(s, ast.If):
                st_ = _static_truth(s.test)
                if st_ is not None:
                    self.did("T12.constant-test")
                    cleaned.extend(s.body if st_ else s.orelse)
                    continue
                s.body = [x for x in s.body if not isinstance(x, ast.Pass)]
                s.orelse = [x for x in s.orelse
                            if not isinstance(x, ast.Pass)]
                if not s.body and not s.orelse:
                    self.did("T6.empty-if")
                    continue
                if not s.body:
                    s.test = negate(s.test)
                    s.body, s.orelse = s.orelse, []
                    self.did("T6.empty-branch")
            cleaned.append(s)
        stmts = cleaned
        out = []
        i = 0
        while i < len(stmts):
            s = stmts[i]
            nxt = stmts[i + 1] if i + 1 < len(stmts) else None
            # T26: q, r = divmod(a, b)  ->  q = a // b ; r = a % b  (a, b
            #      free of calls and of q, r; a part whose name is never
            #      read is dropped)
            if isinstance(s, ast.Assign) and len(s.targets) == 1 and \
                    isinstance(s.targets[0], ast.Tuple) and len(
                        s.targets[0].elts) == 2 and all(
                            isinstance(t, ast.Name)
                            for t in s.targets[0].elts) and isinstance(
                                s.value, ast.Call) and isinstance(
                                    s.value.func, ast.Name) and \
                    s.value.func.id == "divmod" and len(
                        s.value.args) == 2 and not s.value.keywords and \
                    "divmod" not in self.usage.stores:
                q_, r_ = s.targets[0].elts
                a_, b_ = s.value.args
                names = {n.id for x in (a_, b_) for n in ast.walk(x)
                         if isinstance(n, ast.Name)}
                if q_.id != r_.id and not ({q_.id, r_.id} & names) and \
                        not any(isinstance(n, (ast.Call, ast.NamedExpr,
                                               ast.Starred))
                                for x in (a_, b_) for n in ast.walk(x)) \
                        and (self.usage.loads.get(q_.id, 0) == 0 or
                             self.usage.loads.get(r_.id, 0) == 0):
                    for t, op in ((q_, ast.FloorDiv()), (r_, ast.Mod())):
                        if self.usage.loads.get(t.id, 0) == 0:
                            continue
                        out.append(ast.copy_location(ast.Assign(
                            targets=[t], value=ast.BinOp(
                                left=copy.deepcopy(a_), op=op,
                                right=copy.deepcopy(b_)),
                            type_comment=None), s))
                    self.did("T26.divmod-part")
                    i += 1
                    continue
            # T24: a, b = x, y  ->  a = x ; b = y   (names on the left,
            #      none of them read on the right)
            if isinstance(s, ast.Assign) and len(s.targets) == 1 and \
                    isinstance(s.targets[0], ast.Tuple) and isinstance(
                        s.value, ast.Tuple) and len(s.value.elts) == len(
                            s.targets[0].elts) and all(
                                isinstance(t, ast.Name)
                                for t in s.targets[0].elts) and not any(
                                    isinstance(e, ast.Starred)
                                    for e in s.value.elts):
                tnames = {t.id for t in s.targets[0].elts}
                if len(tnames) == len(s.targets[0].elts) and not any(
                        isinstance(n, ast.Name) and n.id in tnames
                        for e in s.value.elts for n in ast.walk(e)) and \
                        sum(1 for e in s.value.elts
                            for n in ast.walk(e)
                            if isinstance(n, ast.Call)) <= 1:
                    for t, e in zip(s.targets[0].elts, s.value.elts):
                        out.append(ast.copy_location(ast.Assign(
                            targets=[t], value=e, type_comment=None), s))
                    self.did("T24.split-tuple-assign")
                    i += 1
                    continue
            # T23: v = E ; while T(v): BODY ; v = E
            #        ->  while T(E): v = E ; BODY     (E: calls of plain
            #        functions on names/attributes - taken to be pure, as
            #        the length helpers are; no continue in BODY)
            if isinstance(s, ast.Assign) and len(s.targets) == 1 and \
                    isinstance(s.targets[0], ast.Name) and isinstance(
                        nxt, ast.While) and not nxt.orelse and len(
                            nxt.body) >= 2 and isinstance(
                                nxt.body[-1], ast.Assign) and ast.dump(
                                    nxt.body[-1]) == ast.dump(s) and \
                    _rotatable(s.value) and not any(
                        isinstance(x, ast.Continue)
                        for b in nxt.body for x in ast.walk(b)) and \
                    _count_loads(nxt.test, s.targets[0].id) >= 1 and \
                    _count_loads(s.value, s.targets[0].id) == 0:
                v_ = s.targets[0].id
                later = stmts[i + 2:]
                used_later = any(_count_loads(x, v_) for x in later)
                new_loop = ast.copy_location(ast.While(
                    test=_ReplaceAll(v_, s.value).visit(
                        copy.deepcopy(nxt.test)),
                    body=[copy.deepcopy(s)] + nxt.body[:-1], orelse=[]),
                    nxt)
                out.append(new_loop)
                if used_later:
                    out.append(copy.deepcopy(s))
                self.did("T23.loop-carried-temp")
                i += 2
                continue
            # T20: v = reduce(lambda a, x: E, S, I)
            #        ->  v = I ; for x in S: v = E[a := v]
            if isinstance(s, (ast.Assign, ast.Return)) and isinstance(
                    s.value, ast.Call) and U_(s.value.func) in (
                        "functools.reduce", "reduce") and len(
                            s.value.args) == 3 and not s.value.keywords \
                    and isinstance(s.value.args[0], ast.Lambda) and len(
                        s.value.args[0].args.args) == 2 and (
                        isinstance(s, ast.Return) or (
                            len(s.targets) == 1 and isinstance(
                                s.targets[0], ast.Name))):
                lam, seq, init = s.value.args
                acc, item = [a.arg for a in lam.args.args]
                used = {n.id for n in ast.walk(ast.Module(
                    body=stmts, type_ignores=[]))
                    if isinstance(n, ast.Name)}
                vname = s.targets[0].id if isinstance(s, ast.Assign) else \
                    "reduced__value"
                if item not in used - {x.id for x in ast.walk(lam)
                                       if isinstance(x, ast.Name)} and \
                        acc != item and vname not in {
                            x.id for x in ast.walk(seq)
                            if isinstance(x, ast.Name)}:
                    body_e = _ConstSubst({acc: ast.Name(
                        id=vname, ctx=ast.Load())}).visit(
                            copy.deepcopy(lam.body))
                    news = [
                        ast.Assign(targets=[ast.Name(id=vname,
                                                     ctx=ast.Store())],
                                   value=init),
                        ast.For(target=ast.Name(id=item, ctx=ast.Store()),
                                iter=seq,
                                body=[ast.Assign(
                                    targets=[ast.Name(id=vname,
                                                      ctx=ast.Store())],
                                    value=body_e)],
                                orelse=[])]
                    if isinstance(s, ast.Return):
                        news.append(ast.Return(value=ast.Name(
                            id=vname, ctx=ast.Load())))
                    for x in news:
                        ast.copy_location(x, s)
                        ast.fix_missing_locations(x)
                    self.did("T20.reduce-to-loop")
                    stmts[i:i + 1] = news
                    continue
            # T19: a, b = (E(v) for v in (x, y))  ->  a = E(x) ; b = E(y)
            if isinstance(s, ast.Assign) and len(s.targets) == 1 and \
                    isinstance(s.targets[0], (ast.Tuple, ast.List)) and \
                    isinstance(s.value, (ast.GeneratorExp, ast.ListComp)) \
                    and len(s.value.generators) == 1:
                g = s.value.generators[0]
                tg = s.targets[0].elts
                if isinstance(g.iter, (ast.Tuple, ast.List)) and \
                        not g.ifs and not g.is_async and isinstance(
                            g.target, ast.Name) and \
                        len(g.iter.elts) == len(tg) and all(
                            isinstance(t, ast.Name) for t in tg) and all(
                                isinstance(x, (ast.Name, ast.Attribute,
                                               ast.Constant))
                                for x in g.iter.elts):
                    tnames = {t.id for t in tg}
                    used = {x.id for x in ast.walk(s.value.elt)
                            if isinstance(x, ast.Name)} | {
                                x.id for e in g.iter.elts
                                for x in ast.walk(e)
                                if isinstance(x, ast.Name)}
                    if not (tnames & used):
                        news = []
                        for t, x in zip(tg, g.iter.elts):
                            e2 = _ConstSubst({g.target.id: x}).visit(
                                copy.deepcopy(s.value.elt))
                            news.append(ast.copy_location(ast.Assign(
                                targets=[ast.Name(id=t.id, ctx=ast.Store())],
                                value=e2), s))
                        for x in news:
                            ast.fix_missing_locations(x)
                        self.did("T19.unpack-comprehension")
                        stmts[i:i + 1] = news
                        continue
            # T18: setattr(o, "name", v) with a constant identifier
            if isinstance(s, ast.Expr) and isinstance(
                    s.value, ast.Call) and isinstance(
                        s.value.func, ast.Name) and \
                    s.value.func.id == "setattr" and len(
                        s.value.args) == 3 and not s.value.keywords and \
                    isinstance(s.value.args[1], ast.Constant) and \
                    isinstance(s.value.args[1].value, str) and \
                    s.value.args[1].value.isidentifier() and not any(
                        isinstance(a, ast.Starred) for a in s.value.args):
                s = ast.copy_location(ast.Assign(
                    targets=[ast.Attribute(
                        value=s.value.args[0], attr=s.value.args[1].value,
                        ctx=ast.Store())],
                    value=s.value.args[2]), s)
                ast.fix_missing_locations(s)
                self.did("T18.setattr-const")
            # T6
            if isinstance(s, ast.Assign) and len(s.targets) == 1:
                t = s.targets[0]
                if isinstance(t, (ast.Name, ast.Attribute)):
                    tv = ast.dump(_as_load(t))
                    if ast.dump(s.value) == tv:
                        self.did("T6.self-assign")
                        i += 1
                        continue
                    if (isinstance(s.value, ast.BinOp)
                            and ast.dump(s.value.left) == tv):
                        s = ast.copy_location(
                            ast.AugAssign(target=t, op=s.value.op,
                                          value=s.value.right), s)
                        self.did("T6.augassign")
            if isinstance(s, ast.AugAssign) and isinstance(
                    s.op, (ast.Add, ast.Sub)):
                neg = None
                if isinstance(s.value, ast.UnaryOp) and isinstance(
                        s.value.op, ast.USub):
                    neg = s.value.operand
                elif isinstance(s.value, ast.Constant) and isinstance(
                        s.value.value, (int, float)) and not isinstance(
                            s.value.value, bool) and s.value.value < 0:
                    neg = ast.copy_location(
                        ast.Constant(value=-s.value.value), s.value)
                if neg is not None:
                    s = ast.copy_location(ast.AugAssign(
                        target=s.target,
                        op=ast.Sub() if isinstance(s.op, ast.Add)
                        else ast.Add(), value=neg), s)
                    self.did("T6.augassign-sign")
            # T2
            low = self._lower_ifexp(s)
            if low is not None:
                self.did("T2.lower-ifexp")
                s = low
            # T7 (statement form)
            if (isinstance(s, ast.If) and not s.orelse and len(s.body) == 1
                    and isinstance(s.body[0], ast.Return)
                    and isinstance(nxt, ast.Return)
                    and _is_boolean_expr(s.test)):
                a, b = s.body[0].value, nxt.value
                if _is_const(a, True) and _is_const(b, False):
                    out.append(ast.copy_location(
                        ast.Return(value=nnf(s.test)), s))
                    self.did("T7.return-bool")
                    i += 2
                    continue
                if _is_const(a, False) and _is_const(b, True):
                    out.append(ast.copy_location(
                        ast.Return(value=negate(s.test)), s))
                    self.did("T7.return-bool")
                    i += 2
                    continue
            # T1
            if (nxt is not None and isinstance(s, ast.Assign)
                    and len(s.targets) == 1
                    and isinstance(s.targets[0], ast.Name)):
                v = s.targets[0].id
                u = self.usage
                if (v not in u.banned and u.stores.get(v) == 1
                        and u.loads.get(v) == 1
                        and not isinstance(s.value, (ast.Yield, ast.Await,
                                                     ast.YieldFrom))):
                    for field in _forward_slot(nxt):
                        holder = getattr(nxt, field)
                        if holder is None:
                            continue
                        r = _Replace(v, s.value)
                        new = r.visit(holder)
                        if r.count == 1:
                            setattr(nxt, field, new)
                            self.did("T1.forward-temp")
                            u.loads[v] = 0
                            s = None
                            break
                    if s is None:
                        i += 1
                        continue
            # T3b: `v = K; if a: v = x elif b: v = y` -> the chain gets
            # `else: v = K` (K constant, v not read inside the chain)
            if (isinstance(s, ast.Assign) and len(s.targets) == 1
                    and isinstance(s.targets[0], ast.Name)
                    and isinstance(s.value, ast.Constant)
                    and isinstance(nxt, ast.If)):
                v = s.targets[0].id
                last = nxt
                ok = v not in self.usage.banned
                while ok:
                    b = self._tail_binding(last.body[-1]) if last.body \
                        else None
                    if not b or set(b) != {v}:
                        ok = False
                        break
                    if len(last.orelse) == 1 and isinstance(
                            last.orelse[0], ast.If):
                        last = last.orelse[0]
                        continue
                    break
                if ok and not last.orelse and not any(
                        isinstance(n, ast.Name) and n.id == v and
                        isinstance(n.ctx, ast.Load)
                        for n in ast.walk(nxt)):
                    last.orelse = [s]
                    self.did("T3.init-to-else")
                    i += 1
                    continue
            # T3
            if (isinstance(s, ast.If) and s.orelse
                    and isinstance(nxt, ast.Return) and nxt.value is not None):
                vs = self._common_tail_name(s)
                if vs is not None and all(
                        _count_loads(nxt, v) == 1 and
                        self._loads_total(v) == 1 for v in vs):
                    self._sink(s, vs, nxt)
                    self.did("T3.sink-return")
                    out.extend(self._if(s, []))
                    i += 2
                    continue
            # T7 (expression form) and list->tuple
            self._t7_expr(s)
            # T4/T5
            if isinstance(s, ast.If):
                rest = stmts[i + 1:]
                res = self._if(s, rest, in_chain or _is_chain_head(s))
                if res is not None and res[0] == "consumed":
                    out.extend(res[1])
                    return out
                out.extend(res)
                i += 1
                continue
            if isinstance(s, ast.While):
                t = nnf(s.test)
                if ast.dump(t) != ast.dump(s.test):
                    s.test = t
                    self.did("T5.nnf")
            out.append(s)
            i += 1
        return out

    def _unroll(self, stmts):
        out = []
        for idx, s in enumerate(stmts):
            # setattr(x, "name", v) statement
            if isinstance(s, ast.Expr) and isinstance(s.value, ast.Call) and \
                    isinstance(s.value.func, ast.Name) and \
                    s.value.func.id == "setattr" and len(
                        s.value.args) == 3 and not s.value.keywords and \
                    isinstance(s.value.args[1], ast.Constant) and \
                    isinstance(s.value.args[1].value, str) and \
                    s.value.args[1].value.isidentifier():
                a = s.value.args
                out.append(ast.copy_location(ast.Assign(
                    targets=[ast.Attribute(value=a[0], attr=a[1].value,
                                           ctx=ast.Store())],
                    value=a[2]), s))
                self.did("T11.setattr")
                continue
            # a search loop:  for x in ROWS: if C(x): S(x); break
            #                 else: E           ->  if/elif chain
            search = None
            if (isinstance(s, ast.For) and isinstance(
                    s.iter, (ast.Tuple, ast.List)) and
                    0 < len(s.iter.elts) <= 12 and len(s.body) == 1 and
                    isinstance(s.body[0], ast.If) and not s.body[0].orelse
                    and s.body[0].body and isinstance(
                        s.body[0].body[-1], ast.Break)):
                inner = s.body[0]
                others = [n for n in _walk_same_loop(inner.body[:-1])
                          if isinstance(n, (ast.Break, ast.Continue))]
                if not others:
                    search = inner
            if search is not None:
                loop = ast.copy_location(ast.For(
                    target=s.target, iter=s.iter,
                    body=[ast.copy_location(ast.If(
                        test=search.test, body=search.body[:-1] or
                        [ast.Pass()], orelse=[]), search)],
                    orelse=[]), s)
                saved = list(out)
                out = []
                got = self._unroll([loop] + [ast.Pass()])
                # the chain is valid only if the loop really was unrolled
                unrolled_ifs = got[:-1]
                out = saved
                if unrolled_ifs and all(isinstance(x, ast.If)
                                        for x in unrolled_ifs) and not any(
                        isinstance(x, ast.For) for x in unrolled_ifs):
                    chain_tail = list(s.orelse)
                    for x in reversed(unrolled_ifs):
                        x.orelse = chain_tail
                        chain_tail = [x]
                    out.extend(chain_tail)
                    self.did("T11.search-loop")
                    continue
                out.append(s)
                continue
            if not (isinstance(s, ast.For) and not s.orelse
                    and isinstance(s.iter, (ast.Tuple, ast.List))
                    and 0 < len(s.iter.elts) <= 12):
                out.append(s)
                continue
            rows = []
            ok = True
            row_names = set()
            row_attrs = set()
            for e in s.iter.elts:
                if isinstance(e, ast.Constant):
                    rows.append(e)
                elif isinstance(e, (ast.Tuple, ast.List)) and all(
                        isinstance(x, ast.Constant) or (
                            _pure_operand(x) and not isinstance(
                                x, (ast.Tuple, ast.List)))
                        for x in e.elts):
                    rows.append(e)
                    row_names |= {n.id for x in e.elts for n in ast.walk(x)
                                  if isinstance(n, ast.Name)
                                  and n.id != "self"}
                    row_attrs |= {n.attr for x in e.elts
                                  for n in ast.walk(x)
                                  if isinstance(n, ast.Attribute)}
                    if any(isinstance(n, ast.Attribute) and isinstance(
                            n.ctx, (ast.Store, ast.Del)) and
                            n.attr in row_attrs
                            for b_ in s.body for n in ast.walk(b_)):
                        ok = False
                elif _pure_operand(e) and not isinstance(
                        e, (ast.Tuple, ast.List)) and isinstance(
                            s.target, ast.Name):
                    # a bare name / field as the row
                    rows.append(e)
                    row_names |= {n.id for n in ast.walk(e)
                                  if isinstance(n, ast.Name)
                                  and n.id != "self"}
                    row_attrs |= {n.attr for n in ast.walk(e)
                                  if isinstance(n, ast.Attribute)}
                    if any(isinstance(n, ast.Attribute) and isinstance(
                            n.ctx, (ast.Store, ast.Del)) and
                            n.attr in row_attrs
                            for b_ in s.body for n in ast.walk(b_)):
                        ok = False
                else:
                    ok = False
            tnames = [n.id for n in ast.walk(s.target)
                      if isinstance(n, ast.Name)]
            if isinstance(s.target, ast.Name):
                shape_ok = True
            elif isinstance(s.target, ast.Tuple) and all(
                    isinstance(e, ast.Name) for e in s.target.elts):
                shape_ok = all(isinstance(r, (ast.Tuple, ast.List)) and
                               len(r.elts) == len(s.target.elts)
                               for r in rows)
            else:
                shape_ok = False
            if not ok or not shape_ok:
                out.append(s)
                continue
            # no break / continue of this loop, loop variables not rebound
            # in the body and not read after the loop
            bad = False
            body = _continue_to_else(s.body)
            if body is None:
                bad = True
                body = s.body
            for n in _walk_same_loop(body):
                if isinstance(n, (ast.Break, ast.Continue)):
                    bad = True
            for n in ast.walk(ast.Module(body=body, type_ignores=[])):
                if isinstance(n, ast.Name) and (
                        n.id in tnames or n.id in row_names) and \
                        isinstance(n.ctx, (ast.Store, ast.Del)):
                    bad = True
            for later in stmts[idx + 1:]:
                for n in ast.walk(later):
                    if isinstance(n, ast.Name) and n.id in tnames:
                        bad = True
            if any(t in self.usage.banned for t in tnames):
                bad = True
            size = sum(1 for n in ast.walk(ast.Module(
                body=body, type_ignores=[])) if isinstance(n, ast.stmt))
            if bad or size * len(rows) > 240:
                out.append(s)
                continue
            unrolled = []
            for r in rows:
                if isinstance(s.target, ast.Name):
                    mapping = {s.target.id: r}
                else:
                    mapping = {e.id: v for e, v in zip(s.target.elts,
                                                       r.elts)}
                for b in body:
                    nb = copy.deepcopy(b)
                    nb = _ConstSubst(mapping).visit(nb)
                    unrolled.append(nb)
            # the row operands were evaluated once, before the loop: nothing
            # in the unrolled body may write them (a dynamic setattr whose
            # name became known, or is still unknown)
            clash = False
            if row_names or locals().get("row_attrs"):
                ra = locals().get("row_attrs") or set()
                for nb in unrolled:
                    for n in ast.walk(nb):
                        if isinstance(n, ast.Call) and isinstance(
                                n.func, ast.Name) and n.func.id == "setattr":
                            nm = n.args[1] if len(n.args) > 1 else None
                            if not isinstance(nm, ast.Constant) or \
                                    nm.value in ra:
                                clash = bool(ra)
            if clash:
                out.append(s)
                continue
            out.extend(unrolled)
            self.did("T11.unroll")
        return out

    def _minmax(self, stmts):
        out = []
        for s in stmts:
            if isinstance(s, ast.Assign) and len(s.targets) == 1 and \
                    isinstance(s.targets[0], (ast.Name, ast.Attribute)) and \
                    isinstance(s.value, ast.Call) and isinstance(
                        s.value.func, ast.Name) and s.value.func.id in (
                            "min", "max") and len(s.value.args) == 2 and \
                    not s.value.keywords:
                t = ast.dump(_as_load(s.targets[0]))
                a, b = s.value.args
                other = None
                if ast.dump(a) == t:
                    other = b
                elif ast.dump(b) == t:
                    other = a
                if other is not None and not _pure_operand(other):
                    # evaluate the other operand once, into a temporary
                    self._tmp = getattr(self, "_tmp", 0) + 1
                    nm = "limit__%d" % self._tmp
                    out.append(ast.copy_location(ast.Assign(
                        targets=[ast.Name(id=nm, ctx=ast.Store())],
                        value=other), s))
                    other = ast.Name(id=nm, ctx=ast.Load())
                if other is not None:
                    op = ast.Gt() if s.value.func.id == "min" else ast.Lt()
                    out.append(ast.copy_location(ast.If(
                        test=ast.Compare(left=_as_load(s.targets[0]),
                                         ops=[op], comparators=[other]),
                        body=[ast.copy_location(ast.Assign(
                            targets=[s.targets[0]],
                            value=copy.deepcopy(other)), s)],
                        orelse=[]), s))
                    self.did("T16.minmax")
                    continue
            out.append(s)
        return out

    def _uncache_region(self, stmts):
        """T17"""
        for j, s in enumerate(stmts):
            # the write-back statement
            if not isinstance(s, ast.Assign) or len(s.targets) != 1:
                continue
            t = s.targets[0]
            if isinstance(t, ast.Attribute) and isinstance(s.value, ast.Name):
                pairs = [(t, s.value)]
            elif isinstance(t, ast.Tuple) and isinstance(
                    s.value, ast.Tuple) and len(t.elts) == len(
                        s.value.elts) and all(
                            isinstance(a, ast.Attribute) and
                            isinstance(b, ast.Name)
                            for a, b in zip(t.elts, s.value.elts)):
                pairs = list(zip(t.elts, s.value.elts))
            else:
                continue
            if not all(isinstance(a.value, ast.Name) for a, _ in pairs):
                continue
            # the loads, earlier in the same block
            starts = {}
            for a, b in pairs:
                for i in range(j - 1, -1, -1):
                    si = stmts[i]
                    if isinstance(si, ast.Assign) and len(
                            si.targets) == 1 and isinstance(
                                si.targets[0], ast.Name) and \
                            si.targets[0].id == b.id and ast.dump(
                                si.value) == ast.dump(_as_load(a)):
                        starts[b.id] = i
                        break
            if len(starts) != len(pairs):
                continue
            first = min(starts.values())
            load_idx = set(starts.values())
            region = [st for k, st in enumerate(stmts[first:j], first)
                      if k not in load_idx]
            names = {b.id for _, b in pairs}
            roots = {a.value.id for a, _ in pairs}
            attrs = {a.attr for a, _ in pairs}
            ok = not (names & self.usage.banned)
            # statements between the first load and the other loads must
            # not touch the cached names either: they are in `region`
            for st in region:
                for n in ast.walk(st):
                    if isinstance(n, ast.Attribute) and n.attr in attrs and \
                            isinstance(n.value, ast.Name) and \
                            n.value.id in roots:
                        ok = False
                    if isinstance(n, ast.Call):
                        recv = n.func
                        while isinstance(recv, ast.Attribute):
                            recv = recv.value
                        if isinstance(recv, ast.Name) and recv.id in roots \
                                and isinstance(n.func, ast.Attribute):
                            ok = False
                        for a_ in list(n.args) + [k.value
                                                  for k in n.keywords]:
                            if isinstance(a_, ast.Name) and a_.id in roots:
                                ok = False
                    if isinstance(n, ast.Name) and n.id in roots and \
                            isinstance(n.ctx, ast.Store):
                        ok = False
            # cached names not read after the write-back, and only stored
            # inside the region / the loads
            for later in stmts[j + 1:]:
                for n in ast.walk(later):
                    if isinstance(n, ast.Name) and n.id in names and \
                            isinstance(n.ctx, ast.Load):
                        ok = False
            if not ok:
                continue
            mapping = {b.id: a for a, b in pairs}

            class _R(ast.NodeTransformer):
                def visit_Name(self_, node):
                    if node.id in mapping:
                        new = copy.deepcopy(mapping[node.id])
                        new.ctx = node.ctx.__class__()
                        return ast.copy_location(new, node)
                    return node
            new_region = [_R().visit(st) for st in region]
            self.did("T17.uncache-region")
            return self._uncache_region(
                stmts[:first] + new_region + stmts[j + 1:])
        return stmts

    def _uncache(self, stmts):
        out = []
        i = 0
        while i < len(stmts):
            s = stmts[i]
            nxt = stmts[i + 1] if i + 1 < len(stmts) else None
            m = None
            if (isinstance(s, ast.Assign) and len(s.targets) == 1
                    and isinstance(s.targets[0], ast.Name)
                    and isinstance(s.value, ast.Attribute)
                    and isinstance(s.value.value, ast.Name)
                    and isinstance(nxt, ast.While) and not nxt.orelse
                    and len(nxt.body) >= 3):
                v = s.targets[0].id
                fld = ast.dump(s.value)
                b = nxt.body
                first, second, last = b[0], b[1], b[-1]
                if (isinstance(first, ast.AugAssign)
                        and isinstance(first.target, ast.Name)
                        and first.target.id == v
                        and isinstance(second, ast.Assign)
                        and len(second.targets) == 1
                        and ast.dump(_as_load(second.targets[0])) == fld
                        and isinstance(second.value, ast.Name)
                        and second.value.id == v
                        and isinstance(last, ast.Assign)
                        and len(last.targets) == 1
                        and isinstance(last.targets[0], ast.Name)
                        and last.targets[0].id == v
                        and ast.dump(last.value) == fld
                        and v not in self.usage.banned):
                    mid = b[2:-1]
                    used_mid = any(
                        isinstance(n, ast.Name) and n.id == v
                        for st in mid for n in ast.walk(st)) or any(
                        isinstance(n, ast.Name) and n.id == v
                        for n in ast.walk(first.value))
                    # after the loop v must be overwritten before any read
                    read_after = False
                    for later in stmts[i + 2:]:
                        names = [n for n in _preorder([later])
                                 if isinstance(n, ast.Name) and n.id == v]
                        if names:
                            read_after = not (
                                isinstance(later, ast.Assign) and
                                len(later.targets) == 1 and
                                isinstance(later.targets[0], ast.Name) and
                                later.targets[0].id == v and
                                len(names) == 1)
                            break
                    if not used_mid and not read_after:
                        m = (v, s.value, first, mid)
            if m is None:
                out.append(s)
                i += 1
                continue
            v, fexpr, first, mid = m
            test = _ReplaceAll(v, fexpr).visit(copy.deepcopy(nxt.test))
            tgt = copy.deepcopy(fexpr)
            tgt.ctx = ast.Store()
            step = ast.copy_location(ast.AugAssign(
                target=tgt, op=first.op, value=first.value), first)
            out.append(ast.copy_location(ast.While(
                test=test, body=[step] + mid, orelse=[]), nxt))
            self.did("T14.uncache-field")
            i += 2
        return out

    def _loads_total(self, v):
        return self.usage.loads.get(v, 0) if v not in self.usage.banned \
            else 99

    @staticmethod
    def _tail_binding(last):
        """`v = e` -> {v: e};  `a, b = (x, y)` -> {a: x, b: y};  else None"""
        if not (isinstance(last, ast.Assign) and len(last.targets) == 1):
            return None
        t = last.targets[0]
        if isinstance(t, ast.Name):
            return {t.id: last.value}
        if isinstance(t, ast.Tuple) and isinstance(
                last.value, ast.Tuple) and len(t.elts) == len(
                    last.value.elts) and all(
                        isinstance(e, ast.Name) for e in t.elts) and \
                len({e.id for e in t.elts}) == len(t.elts):
            # right-hand sides must not read the names being bound
            names = {e.id for e in t.elts}
            for v in last.value.elts:
                if any(isinstance(x, ast.Name) and x.id in names
                       for x in ast.walk(v)):
                    return None
            return {e.id: v for e, v in zip(t.elts, last.value.elts)}
        return None

    def _common_tail_name(self, ifn):
        """Names bound by the last statement of every branch (the same set
        in each), or None."""
        names = None
        for br in (ifn.body, ifn.orelse):
            if not br:
                return None
            last = br[-1]
            if isinstance(last, ast.If) and last.orelse and br is ifn.orelse \
                    and len(br) == 1:
                n = self._common_tail_name(last)
            else:
                b = self._tail_binding(last)
                n = None if b is None else frozenset(b)
            if n is None or (names is not None and n != names):
                return None
            names = n
        if names is None or any(v in self.usage.banned for v in names):
            return None
        return names

    def _sink(self, ifn, names, ret):
        for br in (ifn.body, ifn.orelse):
            last = br[-1]
            if isinstance(last, ast.If):
                self._sink(last, names, ret)
                continue
            new_ret = copy.deepcopy(ret)
            for v, e in self._tail_binding(last).items():
                new_ret = _Replace(v, e).visit(new_ret)
            br[-1] = ast.copy_location(new_ret, last)

    def _lower_ifexp(self, s):
        # a conditional expression that is a direct argument of the call a
        # simple statement consists of: f(a if c else b)
        v = getattr(s, "value", None)
        if isinstance(s, (ast.Assign, ast.Return, ast.Expr)) and \
                isinstance(v, ast.Call) and _pure_operand(v.func):
            slots = [("args", i) for i in range(len(v.args))] + \
                [("keywords", i) for i in range(len(v.keywords))]
            for kind, i in slots:
                arg = v.args[i] if kind == "args" else v.keywords[i].value
                if isinstance(arg, ast.BoolOp) and len(arg.values) == 2 and \
                        isinstance(arg.values[0], ast.Name) and \
                        not _is_boolean_expr(arg.values[1]):
                    # `a or b` as a value is `a if a else b`
                    a0, b0 = arg.values
                    arg = ast.copy_location(
                        ast.IfExp(test=a0, body=a0, orelse=b0)
                        if isinstance(arg.op, ast.Or) else
                        ast.IfExp(test=a0, body=b0, orelse=a0), arg)
                if isinstance(arg, ast.IfExp) and not (
                        _is_boolean_expr(arg.test) and
                        isinstance(arg.body, ast.Constant) and
                        isinstance(arg.orelse, ast.Constant) and
                        isinstance(arg.body.value, bool)):
                    a, b = copy.deepcopy(s), copy.deepcopy(s)
                    for st, val in ((a, arg.body), (b, arg.orelse)):
                        if kind == "args":
                            st.value.args[i] = copy.deepcopy(val)
                        else:
                            st.value.keywords[i].value = copy.deepcopy(val)
                    return ast.copy_location(
                        ast.If(test=arg.test, body=[a], orelse=[b]), s)
                if not _pure_operand(arg):
                    break
        if isinstance(s, (ast.Assign, ast.Return)) and isinstance(
                v, ast.BoolOp) and len(v.values) == 2 and isinstance(
                    v.values[0], ast.Name) and not _is_boolean_expr(
                        v.values[1]):
            a0, b0 = v.values
            s.value = ast.copy_location(
                ast.IfExp(test=a0, body=a0, orelse=b0)
                if isinstance(v.op, ast.Or) else
                ast.IfExp(test=a0, body=b0, orelse=a0), v)
        if isinstance(s, (ast.Assign, ast.AugAssign, ast.AnnAssign,
                          ast.Return)) and isinstance(
                              getattr(s, "value", None), ast.IfExp):
            ie = s.value
            if _is_boolean_expr(ie.test) and (
                    (_is_const(ie.body, True) and _is_const(ie.orelse, False))
                    or (_is_const(ie.body, False)
                        and _is_const(ie.orelse, True))):
                return None     # handled by T7
            a = copy.copy(s)
            b = copy.copy(s)
            a.value = ie.body
            b.value = ie.orelse
            if isinstance(s, ast.Assign):
                b.targets = copy.deepcopy(s.targets)
            elif not isinstance(s, ast.Return):
                b.target = copy.deepcopy(s.target)
            return ast.copy_location(
                ast.If(test=ie.test, body=[a], orelse=[b]), s)
        return None

    def _t7_expr(self, s):
        for n in ast.walk(s):
            for field, val in list(ast.iter_fields(n)):
                vals = val if isinstance(val, list) else [val]
                for k, x in enumerate(vals):
                    r = _operator_call(x)
                    if r is not None:
                        if isinstance(val, list):
                            val[k] = r
                        else:
                            setattr(n, field, r)
                        self.did("T10.operator-call")
                        continue
                    r = _bool_index(x)
                    if r is not None:
                        if isinstance(val, list):
                            val[k] = r
                        else:
                            setattr(n, field, r)
                        self.did("T21.bool-index")
                        continue
                    r = _const_attr_call(x)
                    if r is not None:
                        if isinstance(val, list):
                            val[k] = r
                        else:
                            setattr(n, field, r)
                        self.did("T18.getattr-const")
                        continue
                    r = _len_relative_slice(x)
                    if r is not None:
                        if isinstance(val, list):
                            val[k] = r
                        else:
                            setattr(n, field, r)
                        self.did("T27.len-relative-slice")
                        continue
                    r = _fold_int_arith(x)
                    if r is not None:
                        if isinstance(val, list):
                            val[k] = r
                        else:
                            setattr(n, field, r)
                        self.did("T25.fold-int-arith")
                        continue
                    in_test = (isinstance(n, (ast.If, ast.While, ast.IfExp))
                               and field == "test") or (isinstance(
                                   n, ast.UnaryOp) and isinstance(
                                       n.op, ast.Not))
                    r = _anyall_literal(x, in_test)
                    if r is not None:
                        if isinstance(val, list):
                            val[k] = r
                        else:
                            setattr(n, field, r)
                        self.did("T22.anyall-literal")
        for n in ast.walk(s):
            for field, val in list(ast.iter_fields(n)):
                if isinstance(val, ast.IfExp):
                    r = self._bool_ifexp(val)
                    if r is not None:
                        setattr(n, field, r)
                        self.did("T7.ifexp-bool")
                elif isinstance(val, list):
                    for k, x in enumerate(val):
                        if isinstance(x, ast.IfExp):
                            r = self._bool_ifexp(x)
                            if r is not None:
                                val[k] = r
                                self.did("T7.ifexp-bool")
            if isinstance(n, ast.Compare) and len(n.ops) == 1 and \
                    isinstance(n.ops[0], (ast.In, ast.NotIn)):
                c = n.comparators[0]
                if isinstance(c, ast.List) and all(
                        isinstance(e, ast.Constant) for e in c.elts):
                    n.comparators[0] = ast.copy_location(
                        ast.Tuple(elts=c.elts, ctx=ast.Load()), c)
                    self.did("T7.list-to-tuple")

    @staticmethod
    def _bool_ifexp(ie):
        if not _is_boolean_expr(ie.test):
            return None
        if _is_const(ie.body, True) and _is_const(ie.orelse, False):
            return nnf(ie.test)
        if _is_const(ie.body, False) and _is_const(ie.orelse, True):
            return negate(ie.test)
        return None

    # ------------------------------------------------------------------ if
    def _if(self, s, rest, chained=False):
        """Canonical branch order.  -> list of statements replacing `s`, or
        ("consumed", stmts) when `rest` was taken into the result."""
        test = nnf(s.test)
        if ast.dump(test) != ast.dump(s.test):
            s.test = test
            self.did("T5.nnf")
        if chained:
            # the links of an elif chain keep their order; a link whose body
            # leaves needs no else
            if _leaves(s.body) and s.orelse:
                tail = s.orelse
                s.orelse = []
                self.did("T4.flatten-else")
                return [s] + tail
            return [s]
        body, orelse = s.body, s.orelse
        from_rest = False
        if not orelse:
            if not _leaves(body) or not rest:
                return [s]
            # `rest` plays the else part
            if _trivial_exit(rest) and not _trivial_exit(body):
                # guard written the long way round: swap
                rest = self.block(rest)
                new = ast.copy_location(
                    ast.If(test=negate(s.test), body=rest, orelse=[]), s)
                self.did("T4.exit-first")
                return ("consumed", [new] + body)
            return [s]
        swap = False
        if _trivial_exit(body) and not _trivial_exit(orelse):
            swap = False
        elif _trivial_exit(orelse) and not _trivial_exit(body):
            swap = True
        elif isinstance(s.test, ast.UnaryOp) and isinstance(s.test.op,
                                                            ast.Not):
            swap = True
        if swap:
            s.test = negate(s.test)
            s.body, s.orelse = orelse, body
            self.did("T4.swap")
        if _leaves(s.body) and s.orelse:
            tail = s.orelse
            s.orelse = []
            self.did("T4.flatten-else")
            return [s] + tail
        return [s]


_OPERATOR_CMP = {"lt": ast.Lt, "le": ast.LtE, "gt": ast.Gt, "ge": ast.GtE,
                 "eq": ast.Eq, "ne": ast.NotEq}
_OPERATOR_BIN = {"add": ast.Add, "sub": ast.Sub, "mul": ast.Mult,
                 "floordiv": ast.FloorDiv, "mod": ast.Mod,
                 "truediv": ast.Div,
                 # (on the numbers and immutable values this code base
                 # computes with, the in-place forms return the same result)
                 "iadd": ast.Add, "isub": ast.Sub, "imul": ast.Mult,
                 "ifloordiv": ast.FloorDiv, "imod": ast.Mod,
                 "itruediv": ast.Div}


def _bool_index(x):
    """"ab"[c] / (a, b)[c] with a boolean expression c -> (b if c else a)"""
    if not (isinstance(x, ast.Subscript) and isinstance(
            getattr(x, "ctx", None), ast.Load) and _is_boolean_expr(
                x.slice)):
        return None
    v = x.value
    if isinstance(v, ast.Constant) and isinstance(v.value, str) and len(
            v.value) == 2:
        a, b = (ast.Constant(value=v.value[0]), ast.Constant(value=v.value[1]))
    elif isinstance(v, (ast.Tuple, ast.List)) and len(v.elts) == 2 and all(
            isinstance(e, (ast.Constant, ast.Name)) for e in v.elts):
        a, b = v.elts
    else:
        return None
    return ast.copy_location(ast.IfExp(test=x.slice, body=b, orelse=a), x)


def _len_relative_slice(x):
    """s[:len(s) - 1] -> s[:-1] ; s[len(s) - 1:] -> s[-1:]   (s a name; the
    same for the empty sequence too.  Not for k > 1: with len(s) < k the
    two spellings clamp differently)"""
    if not (isinstance(x, ast.Subscript) and isinstance(x.value, ast.Name)
            and isinstance(x.slice, ast.Slice) and x.slice.step is None):
        return None
    name = x.value.id

    def rel(b):
        if isinstance(b, ast.BinOp) and isinstance(b.op, ast.Sub) and \
                isinstance(b.left, ast.Call) and isinstance(
                    b.left.func, ast.Name) and b.left.func.id == "len" and \
                len(b.left.args) == 1 and isinstance(
                    b.left.args[0], ast.Name) and \
                b.left.args[0].id == name and isinstance(
                    b.right, ast.Constant) and type(
                        b.right.value) is int and b.right.value == 1:
            return ast.copy_location(ast.UnaryOp(
                op=ast.USub(), operand=ast.Constant(value=b.right.value)), b)
        return None
    lo, hi = x.slice.lower, x.slice.upper
    nlo = rel(lo) if lo is not None else None
    nhi = rel(hi) if hi is not None else None
    if nlo is None and nhi is None:
        return None
    if (nlo is not None and hi is not None) or (
            nhi is not None and lo is not None):
        return None
    new = copy.deepcopy(x)
    new.slice = ast.Slice(lower=nlo if nlo is not None else lo,
                          upper=nhi if nhi is not None else hi, step=None)
    return ast.copy_location(new, x)


def _fold_int_arith(x):
    """2 * 30 -> 60 (+ - * of two integer literals)"""
    if isinstance(x, ast.BinOp) and isinstance(
            x.op, (ast.Add, ast.Sub, ast.Mult)) and all(
                isinstance(o, ast.Constant) and type(o.value) is int
                for o in (x.left, x.right)):
        a, b = x.left.value, x.right.value
        v = a + b if isinstance(x.op, ast.Add) else (
            a - b if isinstance(x.op, ast.Sub) else a * b)
        if v < 0:
            return ast.copy_location(ast.UnaryOp(
                op=ast.USub(), operand=ast.Constant(value=-v)), x)
        return ast.copy_location(ast.Constant(value=v), x)
    return None


def _anyall_literal(x, in_test):
    """any(f(v) for v in (a, b)) -> f(a) or f(b); all(...) -> ... and ...
    (a literal sequence of at most six names/attributes/constants, one
    generator without conditions).  Where the element is not itself a
    boolean expression, only in the position of a test (same truth)."""
    if not (isinstance(x, ast.Call) and isinstance(x.func, ast.Name) and
            x.func.id in ("any", "all") and len(x.args) == 1 and
            not x.keywords):
        return None
    g = x.args[0]
    if isinstance(g, (ast.Tuple, ast.List)):
        items = list(g.elts)
        elt_of = lambda it: it                              # noqa: E731
        proto = items[0] if items else None
    elif isinstance(g, (ast.GeneratorExp, ast.ListComp)) and len(
            g.generators) == 1 and not g.generators[0].ifs and \
            not g.generators[0].is_async and isinstance(
                g.generators[0].target, ast.Name) and isinstance(
                    g.generators[0].iter, (ast.Tuple, ast.List)):
        items = list(g.generators[0].iter.elts)
        tname = g.generators[0].target.id
        proto = g.elt

        def elt_of(it):
            return _ReplaceAll(tname, it).visit(copy.deepcopy(g.elt))
    else:
        return None
    if not 2 <= len(items) <= 6 or not all(_pure_operand(i) for i in items):
        return None
    if any(isinstance(n, (ast.Call, ast.NamedExpr, ast.Lambda, ast.Await,
                          ast.Yield, ast.YieldFrom))
           for n in ast.walk(proto)):
        return None
    if not (in_test or all(_is_boolean_expr(elt_of(i)) for i in items)):
        return None
    op = ast.Or() if x.func.id == "any" else ast.And()
    return ast.copy_location(ast.BoolOp(
        op=op, values=[elt_of(i) for i in items]), x)


def _const_attr_call(x):
    """getattr(o, "name") with a constant identifier -> o.name"""
    if isinstance(x, ast.Call) and isinstance(x.func, ast.Name) and \
            x.func.id == "getattr" and len(x.args) == 2 and \
            not x.keywords and isinstance(x.args[1], ast.Constant) and \
            isinstance(x.args[1].value, str) and \
            x.args[1].value.isidentifier() and not isinstance(
                x.args[0], ast.Starred):
        return ast.copy_location(ast.Attribute(
            value=x.args[0], attr=x.args[1].value, ctx=ast.Load()), x)
    return None


def _operator_call(x):
    if not (isinstance(x, ast.Call) and isinstance(x.func, ast.Attribute)
            and isinstance(x.func.value, ast.Name)
            and x.func.value.id == "operator" and len(x.args) == 2
            and not x.keywords
            and not any(isinstance(a, ast.Starred) for a in x.args)):
        return None
    nm = x.func.attr.strip("_")
    if nm in _OPERATOR_CMP:
        return ast.copy_location(ast.Compare(
            left=x.args[0], ops=[_OPERATOR_CMP[nm]()],
            comparators=[x.args[1]]), x)
    if nm in _OPERATOR_BIN:
        return ast.copy_location(ast.BinOp(
            left=x.args[0], op=_OPERATOR_BIN[nm](), right=x.args[1]), x)
    return None


def _is_chain_head(s):
    return len(s.orelse) == 1 and isinstance(s.orelse[0], ast.If)


def _as_load(t):
    t2 = copy.deepcopy(t)
    for n in ast.walk(t2):
        if hasattr(n, "ctx"):
            n.ctx = ast.Load()
    return t2


def _class_constants(trees):
    """{class name: {attr: literal node}} for class-level tuple/list
    literals of constants that nothing in the package stores to."""
    stored = set()
    for tree in trees.values():
        for n in ast.walk(tree):
            if isinstance(n, ast.Attribute) and isinstance(
                    n.ctx, (ast.Store, ast.Del)):
                stored.add(n.attr)
            if isinstance(n, ast.Call) and isinstance(n.func, ast.Name) and \
                    n.func.id == "setattr" and len(n.args) >= 2:
                if isinstance(n.args[1], ast.Constant):
                    stored.add(n.args[1].value)
    out = {}
    for tree in trees.values():
        for c in tree.body:
            if not isinstance(c, ast.ClassDef):
                continue
            seen = {}
            for st in c.body:
                if isinstance(st, ast.Assign) and len(st.targets) == 1 and \
                        isinstance(st.targets[0], ast.Name):
                    nm = st.targets[0].id
                    seen[nm] = seen.get(nm, 0) + 1
                    v = st.value
                    if isinstance(v, (ast.Tuple, ast.List)) and v.elts and \
                            len(v.elts) <= 12 and all(
                                isinstance(e, ast.Constant) or (
                                    isinstance(e, (ast.Tuple, ast.List)) and
                                    all(isinstance(x, ast.Constant)
                                        for x in e.elts))
                                for e in v.elts):
                        out.setdefault(c.name, {})[nm] = v
            for nm, k in seen.items():
                if k != 1 or nm in stored:
                    out.get(c.name, {}).pop(nm, None)
    # `self.NAME` is looked up through the instance's class: the name must
    # be defined by one class only (a subclass may override it otherwise)
    count = {}
    for tree in trees.values():
        for c in ast.walk(tree):
            if isinstance(c, ast.ClassDef):
                for st in c.body:
                    tg = st.targets if isinstance(st, ast.Assign) else (
                        [st.target] if isinstance(st, ast.AnnAssign) else [])
                    for t in tg:
                        if isinstance(t, ast.Name):
                            count[t.id] = count.get(t.id, 0) + 1
    for cname in list(out):
        for nm in list(out[cname]):
            if count.get(nm, 0) != 1 or nm.startswith("__"):
                del out[cname][nm]
    return out


class _IterConst(ast.NodeTransformer):
    """T15: literal for a class constant in iteration position, and
    any()/all() over a literal as a boolean chain."""

    def __init__(self, consts, cls_name, selfn, canon):
        self.consts = consts
        self.cls_name = cls_name
        self.selfn = selfn
        self.canon = canon

    def _literal(self, e):
        if isinstance(e, ast.Attribute) and isinstance(e.value, ast.Name):
            base = e.value.id
            cname = None
            if base in (self.selfn, "cls") and self.cls_name:
                cname = self.cls_name
            elif base in self.consts:
                cname = base
            lit = self.consts.get(cname, {}).get(e.attr) if cname else None
            if lit is not None:
                return ast.copy_location(copy.deepcopy(lit), e)
        return None

    def visit_For(self, node):
        self.generic_visit(node)
        lit = self._literal(node.iter)
        if lit is not None:
            node.iter = lit
            self.canon.did("T15.class-constant")
        return node

    def _expand(self, comp):
        """[E for x in <literal of constants>] -> list of E[x := c]."""
        if len(comp.generators) != 1:
            return None
        g = comp.generators[0]
        it = self._literal(g.iter) or g.iter
        if not (isinstance(it, (ast.Tuple, ast.List)) and it.elts and
                not g.ifs and not g.is_async and len(it.elts) <= 8 and all(
                    isinstance(e, ast.Constant) for e in it.elts) and
                isinstance(g.target, ast.Name)):
            return None
        return [_ConstSubst({g.target.id: e}).visit(copy.deepcopy(comp.elt))
                for e in it.elts]

    def visit_ListComp(self, node):
        self.generic_visit(node)
        vals = self._expand(node)
        if vals is None:
            return node
        self.canon.did("T15.comprehension")
        return ast.copy_location(ast.List(elts=vals, ctx=ast.Load()), node)

    def visit_Call(self, node):
        self.generic_visit(node)
        if isinstance(node.func, ast.Name) and node.func.id in (
                "tuple", "list") and len(node.args) == 1 and \
                not node.keywords and isinstance(
                    node.args[0], (ast.GeneratorExp, ast.ListComp)):
            vals = self._expand(node.args[0])
            if vals is not None:
                self.canon.did("T15.comprehension")
                cls_ = ast.Tuple if node.func.id == "tuple" else ast.List
                return ast.copy_location(cls_(elts=vals, ctx=ast.Load()),
                                         node)
        if isinstance(node.func, ast.Name) and node.func.id in (
                "tuple", "list") and len(node.args) == 1 and \
                not node.keywords and isinstance(node.args[0], ast.List):
            # tuple([a, b]) after the comprehension was expanded
            cls_ = ast.Tuple if node.func.id == "tuple" else ast.List
            return ast.copy_location(cls_(elts=node.args[0].elts,
                                          ctx=ast.Load()), node)
        if isinstance(node.func, ast.Name) and node.func.id in (
                "any", "all") and len(node.args) == 1 and \
                not node.keywords and isinstance(
                    node.args[0], (ast.GeneratorExp, ast.ListComp)) and \
                len(node.args[0].generators) == 1:
            g = node.args[0].generators[0]
            it = self._literal(g.iter) or g.iter
            if isinstance(it, (ast.Tuple, ast.List)) and it.elts and \
                    not g.ifs and not g.is_async and len(it.elts) <= 12 and \
                    all(isinstance(e, ast.Constant) or (
                        isinstance(e, (ast.Tuple, ast.List)) and all(
                            isinstance(x, ast.Constant) for x in e.elts))
                        for e in it.elts):
                vals = []
                for e in it.elts:
                    if isinstance(g.target, ast.Name):
                        mapping = {g.target.id: e}
                    elif isinstance(g.target, ast.Tuple) and isinstance(
                            e, (ast.Tuple, ast.List)) and len(
                                e.elts) == len(g.target.elts) and all(
                                    isinstance(t, ast.Name)
                                    for t in g.target.elts):
                        mapping = {t.id: v for t, v in zip(g.target.elts,
                                                           e.elts)}
                    else:
                        return node
                    vals.append(_ConstSubst(mapping).visit(
                        copy.deepcopy(node.args[0].elt)))
                self.canon.did("T15.any-all")
                op = ast.Or() if node.func.id == "any" else ast.And()
                if len(vals) == 1:
                    return vals[0]
                return ast.copy_location(ast.BoolOp(op=op, values=vals),
                                         node)
        return node


def canon_trees(trees):
    """trees: {module: ast.Module}; mutates; -> {rewrite: count}."""
    c = Canon()
    consts = _class_constants(trees)
    for mod, tree in trees.items():
        for top in tree.body:
            if isinstance(top, ast.ClassDef):
                for b in top.body:
                    if isinstance(b, (ast.FunctionDef,
                                      ast.AsyncFunctionDef)):
                        selfn = b.args.args[0].arg if b.args.args else None
                        _IterConst(consts, top.name, selfn, c).visit(b)
            elif isinstance(top, (ast.FunctionDef, ast.AsyncFunctionDef)):
                _IterConst(consts, None, None, c).visit(top)
        for n in ast.walk(tree):
            if isinstance(n, (ast.FunctionDef, ast.AsyncFunctionDef)):
                c.run_function(n)
    return dict(sorted(c.counts.items()))
