"""E2 - resolver: may-types, callee resolution incl. operator/protocol edges,
call graph.  Flow-insensitive per function, iterated to a global fix-point
together with return summaries and call-site propagation of argument types.

Type atoms are strings: package class short names ("TimePoint"), builtin
names ("int", "float", "str", "bool", "None", "list", "dict", "tuple",
"set"), "class:<Name>", "func:<qual>", "module:<name>", "ext:<module>",
"regex", "match".  The empty set means "unknown".
"""
import ast

from .model import (AnalysisError, ClassInfo, FuncInfo, Module, U,
                    walk_no_nested)

NUM = frozenset(["int", "float"])

BINOP_DUNDER = {ast.Add: ("__add__", "__radd__"), ast.Sub: ("__sub__", "__rsub__"),
                ast.Mult: ("__mul__", "__rmul__"),
                ast.FloorDiv: ("__floordiv__", "__rfloordiv__"),
                ast.Div: ("__truediv__", "__rtruediv__"),
                ast.Mod: ("__mod__", "__rmod__")}
AUG_DUNDER = {ast.Add: "__iadd__", ast.Sub: "__isub__", ast.Mult: "__imul__",
              ast.FloorDiv: "__ifloordiv__", ast.Div: "__itruediv__"}
CMP_DUNDER = {ast.Eq: ("__eq__", "__eq__"), ast.NotEq: ("__ne__", "__ne__"),
              ast.Lt: ("__lt__", "__gt__"), ast.LtE: ("__le__", "__ge__"),
              ast.Gt: ("__gt__", "__lt__"), ast.GtE: ("__ge__", "__le__")}

# Parameters of public entry points that no in-package caller binds and that
# carry no annotation: types transcribed from the docstrings (trusted base,
# printed in the evidence).
PUBLIC_SIGNATURES = {
    "data.TimeRecurrence.get_first_after": {"timepoint": ["TimePoint"]},
    "data.TimePoint.add_months": {"num_months": ["int"]},
    "dumpers.TimePointDumper.dump": {"timepoint": ["TimePoint"],
                                     "formatting_string": ["str"]},
    "dumpers.TimePointDumper.strftime": {"timepoint": ["TimePoint"],
                                         "formatting_string": ["str"]},
    "datetimeoper.DateTimeOperator.get_datetime_strftime": {
        "time_point": ["TimePoint"], "print_format": ["str"]},
    "datetimeoper.DateTimeOperator.date_diff": {
        "time_point_1": ["TimePoint"], "time_point_2": ["TimePoint"]},
    "datetimeoper.DateTimeOperator.date_diff_format": {
        "duration": ["Duration"]},
    "datetimeoper.DateTimeOperator.date_format": {
        "time_point": ["TimePoint"], "print_format": ["str"]},
    "datetimeoper.DateTimeOperator.date_shift": {
        "time_point": ["TimePoint"], "offset": ["str", "None"]},
    "datetimeoper.DateTimeOperator.strftime": {
        "time_point": ["TimePoint"], "print_format": ["str"]},
    "data.TimePoint.to_time_zone": {"dest_time_zone": ["TimeZone"]},
    "data.TimePoint.get_time_zone_offset": {"other": ["TimePoint"]},
}

STR_METHODS = {"format", "join", "lower", "upper", "strip", "split",
               "splitlines", "replace", "startswith", "endswith", "lstrip",
               "rstrip", "rsplit", "is_integer", "isdigit", "count", "find",
               "encode", "decode", "title", "zfill", "index"}
CONTAINER_READ = {"get", "keys", "values", "items", "copy", "index", "count"}
CONTAINER_MUT = {"append", "extend", "insert", "remove", "pop", "clear",
                 "update", "setdefault", "sort", "reverse", "add", "discard",
                 "popitem", "__setitem__", "__delitem__"}
REGEX_METHODS = {"search", "match", "sub", "split", "groupdict", "group",
                 "groups", "fullmatch", "findall", "finditer"}



def _widen_ext(t):
    """Widening for the unbounded chain types of values coming from outside
    the package ("ext:a.b().c.d()..."): beyond a small depth every such
    value is the one type "ext:?", so the fix-point terminates."""
    if len(t) > 90 or t.count(".") + t.count("(") > 8:
        return "ext:?"
    return t


class Edge:
    __slots__ = ("node", "callee", "kind", "recv")

    def __init__(self, node, callee, kind, recv=None):
        self.node = node        # AST node of the call / operator
        self.callee = callee    # FuncInfo
        self.kind = kind        # call | ctor | property | operator | protocol
        self.recv = recv        # receiver expr node if a method call

    def __repr__(self):
        return "<Edge %s %s>" % (self.kind, self.callee.qual)


class Resolver:
    def __init__(self, model):
        self.model = model
        self.m = model
        self.var_types = {}      # func qual -> {name: set(types)}
        self.ret_types = {}      # func qual -> set(types)
        self.ret_tuple = {}      # func qual -> list[set] | None
        self.yield_types = {}    # func qual -> set(types)
        self.param_in = {}       # func qual -> {param: set(types)}
        self.slot_types = {}     # class qual -> {attr: set(types)}
        self.module_types = {}   # module -> {name: set(types)}
        self.edges = {}          # func qual -> [Edge]
        self.external = {}       # func qual -> [(node, "ext:time.time")]
        self.unresolved = {}     # func qual -> [(node, text)]
        self.builtin_method_calls = {}   # func qual -> [(node, recv, meth)]
        self._class_names = {c.name: c for c in model.classes.values()}
        from .fold import Folder
        self.folder = Folder(model)
        self._narrowing = set()
        self._is_gen = {}
        self._facts_cache = {}
        self._fnodes = {}
        self.ret_sites = {}      # func qual -> {id(ret): (facts, types)}
        self._const_seq_cache = {}
        self._solve()

    # ---------------------------------------------------------- utilities
    def cls_of(self, tname):
        return self._class_names.get(tname)

    def _ann_types(self, ann, module):
        if ann is None:
            return set()
        if isinstance(ann, ast.Constant) and isinstance(ann.value, str):
            name = ann.value
        else:
            name = U(ann)
        name = name.strip("'\"")
        base = name.split("[")[0].split(".")[-1]
        if base in ("Tuple", "tuple"):
            return {"tuple"}
        if base in ("Optional",):
            inner = name[name.index("[") + 1:-1].strip("'\" ")
            return {inner.split(".")[-1], "None"}
        if base in self._class_names or base in (
                "int", "float", "str", "bool", "list", "dict", "tuple"):
            return {base}
        return set()

    def methods_named(self, name):
        return [c.methods[name] for c in self.m.classes.values()
                if name in c.methods]

    def lookup_method(self, tname, meth):
        """Methods that a call recv.meth() may reach when recv has static
        class ``tname`` (the class's own resolution + overrides in
        subclasses)."""
        c = self.cls_of(tname)
        if c is None:
            return []
        out = []
        f = c.find_method(meth)
        if f is not None:
            out.append(f)
        for sub in self.m.subclasses(c):
            if sub is not c and meth in sub.methods and \
                    sub.methods[meth] not in out:
                out.append(sub.methods[meth])
        return out

    # -------------------------------------------------------- the solver
    def _solve(self):
        funcs = self.m.all_functions()
        for f in funcs:
            self.var_types[f.qual] = {}
            self.ret_types[f.qual] = set()
            self.ret_tuple[f.qual] = None
            self.yield_types[f.qual] = set()
            self.param_in[f.qual] = {}
        for c in self.m.classes.values():
            self.slot_types[c.qual] = {}
        for mod in self.m.modules.values():
            self.module_types[mod.name] = {}
        total = 0
        for phase in (True, False):
            # optimistic phase: a parameter with no type yet means "no value
            # has reached it yet" (least fix-point); the second phase treats
            # what is still unknown conservatively.
            self._optimistic = phase
            for it in range(40):
                self._changed = False
                for mod in self.m.modules.values():
                    self._solve_module(mod)
                for f in funcs:
                    self._solve_func(f, collect=False)
                total += 1
                if not self._changed:
                    break
            else:
                raise AnalysisError("resolver did not converge")
        self.iterations = total
        for f in funcs:
            self.edges[f.qual] = []
            self.external[f.qual] = []
            self.unresolved[f.qual] = []
            self.builtin_method_calls[f.qual] = []
            self._solve_func(f, collect=True)
        # module-level code gets a pseudo function per module
        for mod in self.m.modules.values():
            q = mod.name + ".<module>"
            self.edges[q] = []
            self.external[q] = []
            self.unresolved[q] = []
            self.builtin_method_calls[q] = []
            self._cur = None
            self._curq = q
            self._curmod = mod
            self._collect = True
            for st in mod.tree.body:
                if isinstance(st, (ast.FunctionDef, ast.ClassDef,
                                   ast.AsyncFunctionDef)):
                    for d in st.decorator_list:
                        self.types(d)
                    if isinstance(st, ast.ClassDef):
                        for b in st.body:
                            if not isinstance(b, (ast.FunctionDef,
                                                  ast.AsyncFunctionDef)):
                                self._visit_stmt_exprs(b)
                            else:
                                for d in b.args.defaults + b.decorator_list:
                                    self.types(d)
                    else:
                        for d in st.args.defaults:
                            self.types(d)
                    continue
                self._visit_stmt_exprs(st)

    def _add(self, table, key, types):
        cur = table.setdefault(key, set())
        new = set(types) - cur
        if new:
            cur |= new
            self._changed = True

    def _solve_module(self, mod):
        self._cur = None
        self._curq = mod.name + ".<module>"
        self._curmod = mod
        self._collect = False
        for name, node in mod.constants.items():
            self._add(self.module_types[mod.name], name, self.types(node))

    def _env(self):
        return self.var_types[self._curq] if self._cur is not None else {}

    def _solve_func(self, f, collect):
        self._cur = f
        self._curq = f.qual
        self._curmod = f.module
        self._collect = collect
        env = self.var_types[f.qual]
        # seeds ---------------------------------------------------------
        if f.self_name:
            if f.is_classmethod:
                self._add(env, f.self_name, {"class:" + f.cls.name})
            else:
                self._add(env, f.self_name, {f.cls.name})
        for p, ann in f.annotations.items():
            self._add(env, p, self._ann_types(ann, f.module))
        for p, d in f.defaults.items():
            t = self.types(d)
            # a None default says nothing about the non-default type
            self._add(env, p, t)
        for p, ts in self.param_in[f.qual].items():
            self._add(env, p, ts)
        for p, ts in PUBLIC_SIGNATURES.get(f.qual, {}).items():
            self._add(env, p, ts)
        if f.returns is not None:
            self._add(self.ret_types, f.qual,
                      self._ann_types(f.returns, f.module))
        # body ----------------------------------------------------------
        nodes = self._fnodes.get(f.qual)
        if nodes is None:
            nodes = self._fnodes[f.qual] = [
                n for n in walk_no_nested(f.node) if n is not f.node]
        for node in nodes:
            self._visit(node, f)

    def _visit_stmt_exprs(self, st):
        for node in walk_no_nested(st):
            if isinstance(node, ast.expr):
                par = getattr(node, "_parent", None)
                if isinstance(par, ast.expr) and not isinstance(
                        par, (ast.ListComp, ast.DictComp, ast.SetComp,
                              ast.GeneratorExp)):
                    continue
                self.types(node)

    def _visit(self, node, f):
        env = self.var_types[f.qual]
        if isinstance(node, ast.Assign):
            vt = self.types(node.value)
            for t in node.targets:
                self._bind(t, vt, node.value, f)
        elif isinstance(node, ast.AnnAssign) and node.value is not None:
            self._bind(node.target, self.types(node.value), node.value, f)
        elif isinstance(node, ast.AugAssign):
            vt = self._binop_types(node.target, node.op, node.value, node,
                                   aug=True)
            self._bind(node.target, vt, None, f)
        elif isinstance(node, ast.For):
            et = self._iter_elem_types(node.iter, node)
            self._bind_iter_target(node.target, et, node.iter, f)
            self.types(node.iter)
        elif isinstance(node, ast.comprehension):
            et = self._iter_elem_types(node.iter, node)
            self._bind_iter_target(node.target, et, node.iter, f)
        elif isinstance(node, ast.Return):
            if node.value is None:
                self._add(self.ret_types, f.qual, {"None"})
            else:
                rt = self.types(node.value)
                self._add(self.ret_types, f.qual, rt)
                self._note_ret_tuple(f, node.value)
                facts = {k: v[0] for k, v in self._facts_at(node).items()
                         if k in f.params}
                self.ret_sites.setdefault(f.qual, {})[id(node)] = (
                    facts, set(rt))
        elif isinstance(node, (ast.Yield,)):
            if node.value is not None:
                self._add(self.yield_types, f.qual, self.types(node.value))
        elif isinstance(node, (ast.Import, ast.ImportFrom)):
            tmp = Module.__new__(Module)
            tmp.imports = {}
            tmp.classes, tmp.functions, tmp.constants = {}, {}, {}
            tmp.name = f.module.name
            self.m._index_import(tmp, node)
            for local in tmp.imports:
                self._add(env, local, self._global_types(local, tmp))
        elif isinstance(node, ast.ExceptHandler):
            if node.name and node.type is not None:
                names = [node.type] if not isinstance(node.type, ast.Tuple) \
                    else node.type.elts
                self._add(env, node.name, {U(n).split(".")[-1]
                                           for n in names})
        elif isinstance(node, ast.Call):
            fn = node.func
            if isinstance(fn, ast.Name) and fn.id == "isinstance" and \
                    len(node.args) == 2 and isinstance(node.args[0], ast.Name):
                ts = node.args[1].elts if isinstance(
                    node.args[1], ast.Tuple) else [node.args[1]]
                self._add(env, node.args[0].id,
                          {U(t).split(".")[-1] for t in ts})
            if isinstance(fn, ast.Name) and fn.id == "_type_checker":
                self._type_checker_seed(node, f)
            if isinstance(fn, ast.Name) and fn.id == "setattr" and \
                    len(node.args) == 3:
                self.types(node)
        # expression statements / conditions: make sure every expression is
        # typed at least once so that edges are collected
        if isinstance(node, ast.stmt):
            for child in ast.iter_child_nodes(node):
                if isinstance(child, ast.expr):
                    self.types(child)
                elif isinstance(child, ast.keyword):
                    self.types(child.value)
        if isinstance(node, (ast.withitem,)):
            self.types(node.context_expr)

    def _type_checker_seed(self, call, f):
        """_type_checker((value, "name", *types), ...) or (*inputs) where
        inputs is a local tuple of such tuples: seeds parameter types."""
        env = self.var_types[f.qual]
        tuples = []
        for a in call.args:
            if isinstance(a, ast.Tuple):
                tuples.append(a)
            elif isinstance(a, ast.Starred) and isinstance(a.value, ast.Name):
                for node in walk_no_nested(f.node):
                    if isinstance(node, ast.Assign) and any(
                            isinstance(t, ast.Name) and t.id == a.value.id
                            for t in node.targets) and isinstance(
                                node.value, ast.Tuple):
                        tuples.extend(x for x in node.value.elts
                                      if isinstance(x, ast.Tuple))
        for t in tuples:
            if len(t.elts) >= 3 and isinstance(t.elts[0], ast.Name):
                ts = set()
                for x in t.elts[2:]:
                    s = U(x)
                    ts.add("None" if s == "None" else s.split(".")[-1])
                self._add(env, t.elts[0].id, ts)

    def _note_ret_tuple(self, f, value):
        if isinstance(value, ast.Tuple) and not any(
                isinstance(e, ast.Starred) for e in value.elts):
            elems = [self.types(e) for e in value.elts]
        else:
            elems = self._tuple_elems(value)
        cur = self.ret_tuple.get(f.qual)
        if elems is None:
            return
        if cur is None:
            self.ret_tuple[f.qual] = [set(e) for e in elems]
            self._changed = True
        elif len(cur) == len(elems):
            for c, e in zip(cur, elems):
                if set(e) - c:
                    c |= set(e)
                    self._changed = True

    def _tuple_elems(self, expr):
        """Element types if expr is a call whose callees all return tuples of
        one arity."""
        if isinstance(expr, ast.Tuple):
            return [self.types(e) for e in expr.elts]
        if isinstance(expr, ast.Call):
            callees = self.callees_of_call(expr)
            res = None
            for c in callees:
                rt = self.ret_tuple.get(c.qual)
                if rt is None:
                    return None
                if res is None:
                    res = [set(x) for x in rt]
                elif len(res) == len(rt):
                    for a, b in zip(res, rt):
                        a |= b
                else:
                    return None
            return res
        if isinstance(expr, ast.Name) and self._cur is not None:
            # local bound once to a tuple-returning call
            defs = [n for n in walk_no_nested(self._cur.node)
                    if isinstance(n, ast.Assign) and any(
                        isinstance(t, ast.Name) and t.id == expr.id
                        for t in n.targets)]
            if len(defs) >= 1:
                res = None
                for d in defs:
                    e = self._tuple_elems(d.value) if not isinstance(
                        d.value, ast.Name) else None
                    if e is None:
                        return None
                    if res is None:
                        res = [set(x) for x in e]
                    elif len(res) == len(e):
                        for a, b in zip(res, e):
                            a |= b
                    else:
                        return None
                return res
        return None

    def _bind(self, target, vt, value_node, f):
        env = self.var_types[f.qual]
        if isinstance(target, ast.Name):
            self._add(env, target.id, vt)
        elif isinstance(target, ast.Attribute):
            for bt in self.types(target.value):
                c = self.cls_of(bt[6:] if bt.startswith("class:") else bt)
                if c is not None:
                    self._add(self.slot_types[c.qual], target.attr, vt)
        elif isinstance(target, (ast.Tuple, ast.List)):
            elems = self._tuple_elems(value_node) if value_node is not None \
                else None
            for i, t in enumerate(target.elts):
                if isinstance(t, ast.Starred):
                    self._bind(t.value, {"list"}, None, f)
                elif elems is not None and len(elems) == len(target.elts):
                    self._bind(t, elems[i], None, f)
                else:
                    self._bind(t, set(), None, f)
        elif isinstance(target, ast.Subscript):
            self.types(target.value)

    def _bind_iter_target(self, target, et, iter_node, f):
        if isinstance(target, ast.Name):
            self._add(self.var_types[f.qual], target.id, et)
        elif isinstance(target, (ast.Tuple, ast.List)):
            for t in target.elts:
                self._bind_iter_target(t, set(), None, f)

    def _iter_elem_types(self, it, ctx):
        out = set()
        # generator call
        if isinstance(it, ast.Call):
            for c in self.callees_of_call(it):
                out |= self.yield_types.get(c.qual, set())
        for t in self.types(it):
            c = self.cls_of(t)
            if c is not None:
                itf = c.find_method("__iter__")
                if itf is not None:
                    out |= self.yield_types.get(itf.qual, set())
                    self._edge(ctx, itf, "protocol")
        return out

    # --------------------------------------------------- expression types
    def types(self, e):
        if e is None:
            return set()
        meth = getattr(self, "_t_" + type(e).__name__, None)
        if meth is None:
            for child in ast.iter_child_nodes(e):
                if isinstance(child, ast.expr):
                    self.types(child)
            return set()
        return meth(e)

    def _t_Constant(self, e):
        v = e.value
        if v is None:
            return {"None"}
        return {type(v).__name__}

    def _t_JoinedStr(self, e):
        for v in e.values:
            if isinstance(v, ast.FormattedValue):
                vt = self.types(v.value)
                self._protocol(v, vt, "__str__")
        return {"str"}

    def _t_Tuple(self, e):
        for x in e.elts:
            self.types(x)
        return {"tuple"}

    def _t_List(self, e):
        for x in e.elts:
            self.types(x)
        return {"list"}

    def _t_Set(self, e):
        for x in e.elts:
            self.types(x)
        return {"set"}

    def _t_Dict(self, e):
        for x in list(e.keys) + list(e.values):
            if x is not None:
                self.types(x)
        return {"dict"}

    def _t_ListComp(self, e):
        self.types(e.elt)
        for g in e.generators:
            self.types(g.iter)
            for c in g.ifs:
                self.types(c)
        return {"list"}

    _t_GeneratorExp = _t_ListComp

    def _t_SetComp(self, e):
        self._t_ListComp(e)
        return {"set"}

    def _t_DictComp(self, e):
        self.types(e.key)
        self.types(e.value)
        for g in e.generators:
            self.types(g.iter)
            for c in g.ifs:
                self.types(c)
        return {"dict"}

    def _t_Starred(self, e):
        return self.types(e.value)

    def _t_Lambda(self, e):
        return {"func:<lambda>"}

    def _t_Name(self, e):
        n = e.id
        env = self._env()
        if self._cur is not None and isinstance(e.ctx, ast.Load):
            nar = self._narrow(e)
            if nar is not None:
                return nar
        if n in env:
            return set(env[n])
        if self._cur is not None and (
                n in self._cur.params or n in self._cur.kwonly):
            return set()
        return self._global_types(n, self._curmod)

    # ------------------------------------------------ isinstance narrowing
    @staticmethod
    def _isinstance_facts(test, positive=True):
        """{name: set(type names)} implied when ``test`` is true (positive)
        or false (not positive)."""
        facts = {}

        def one(t):
            if isinstance(t, ast.Call) and isinstance(t.func, ast.Name) and \
                    t.func.id == "isinstance" and len(t.args) == 2 and \
                    isinstance(t.args[0], ast.Name):
                ts = t.args[1].elts if isinstance(t.args[1], ast.Tuple) \
                    else [t.args[1]]
                return t.args[0].id, {U(x).split(".")[-1] for x in ts}
            return None
        if positive:
            if isinstance(test, ast.BoolOp) and isinstance(test.op, ast.And):
                for v in test.values:
                    for k, ts in Resolver._isinstance_facts(v, True).items():
                        facts[k] = ts
            elif isinstance(test, ast.BoolOp) and isinstance(test.op, ast.Or):
                parts = [one(v) for v in test.values]
                if all(parts) and len({p[0] for p in parts}) == 1:
                    facts[parts[0][0]] = set().union(*[p[1] for p in parts])
            else:
                r = one(test)
                if r:
                    facts[r[0]] = r[1]
        else:
            if isinstance(test, ast.UnaryOp) and isinstance(test.op, ast.Not):
                return Resolver._isinstance_facts(test.operand, True)
            if isinstance(test, ast.BoolOp) and isinstance(test.op, ast.Or):
                for v in test.values:
                    for k, ts in Resolver._isinstance_facts(v, False).items():
                        facts[k] = ts
        return facts

    @staticmethod
    def _ends_abruptly(body):
        return bool(body) and isinstance(
            body[-1], (ast.Raise, ast.Return, ast.Continue, ast.Break))

    def _facts_at(self, at):
        """{name: (typeset, region)} isinstance facts holding at node ``at``
        (innermost fact per name wins).  Negative facts are spelled
        "!T"."""
        cached = self._facts_cache.get(id(at))
        if cached is not None:
            return cached
        out = {}
        self._facts_cache[id(at)] = out
        child = at
        node = getattr(child, "_parent", None)

        def put(f, region, negate=False):
            for k, ts in f.items():
                if k not in out:
                    out[k] = ({("!" + t) for t in ts} if negate else set(ts),
                              region)
        while node is not None and not isinstance(node, ast.ClassDef):
            if isinstance(node, ast.If):
                if any(child is b for b in node.body):
                    put(self._isinstance_facts(node.test, True), node.body)
                elif any(child is b for b in node.orelse):
                    put(self._isinstance_facts(node.test, False), node.orelse)
                    put(self._isinstance_facts(node.test, True), node.orelse,
                        negate=True)
            if isinstance(node, ast.IfExp) and child is node.body:
                put(self._isinstance_facts(node.test, True), [node.body])
            if isinstance(node, ast.BoolOp) and isinstance(node.op, ast.And):
                for v in node.values:
                    if v is child:
                        break
                    put(self._isinstance_facts(v, True), [child])
            for field in ("body", "orelse", "finalbody"):
                seq = getattr(node, field, None)
                if isinstance(seq, list) and any(child is b for b in seq):
                    idx = [i for i, b in enumerate(seq) if b is child][0]
                    for prev in seq[:idx][::-1]:
                        if isinstance(prev, ast.If) and self._ends_abruptly(
                                prev.body) and not prev.orelse:
                            put(self._isinstance_facts(prev.test, False),
                                seq[idx:])
                            put(self._isinstance_facts(prev.test, True),
                                seq[idx:], negate=True)
            if isinstance(node, (ast.FunctionDef, ast.AsyncFunctionDef)):
                break
            child, node = node, getattr(node, "_parent", None)
        return out

    def _narrow(self, name_node):
        n = name_node.id
        fact = self._facts_at(name_node).get(n)
        if fact is None:
            return None
        want, region = fact
        pos = {w for w in want if not w.startswith("!")}
        neg = {w[1:] for w in want if w.startswith("!")}
        if pos:
            result = set(pos)
        else:
            env = self._env()
            have = set(env.get(n, set()))
            if not have:
                return None
            result = {h for h in have
                      if not any(self.issub(h, w) for w in neg)}
        key = (n, id(region[0]) if region else 0)
        if key in self._narrowing:
            return result
        self._narrowing.add(key)
        try:
            for st in region:
                for sub in walk_no_nested(st):
                    if isinstance(sub, ast.Assign) and any(
                            isinstance(t, ast.Name) and t.id == n
                            for t in sub.targets):
                        result |= self.types(sub.value)
        finally:
            self._narrowing.discard(key)
        return result

    def _global_types(self, n, mod):
        if n in mod.classes:
            return {"class:" + n}
        if n in mod.functions:
            return {"func:" + mod.functions[n].qual}
        if n in mod.constants:
            return set(self.module_types[mod.name].get(n, set()))
        if n in mod.imports:
            imp = mod.imports[n]
            if imp[0] == "module":
                return {"module:" + imp[1]}
            if imp[0] == "symbol":
                tm = self.m.modules.get(imp[1])
                if tm is not None:
                    return self._global_types(imp[2], tm)
                return set()
            if imp[0] == "extmodule":
                return {"ext:" + imp[1]}
            if imp[0] == "extsymbol":
                return {"ext:%s.%s" % (imp[1], imp[2])}
        if n in ("True", "False"):
            return {"bool"}
        if n in ("int", "float", "str", "bool", "list", "dict", "tuple",
                 "set", "type"):
            return {"class:" + n}
        return set()

    def _t_Attribute(self, e):
        bt = self.types(e.value)
        out = set()
        for t in bt:
            if t.startswith("module:"):
                tm = self.m.modules.get(t[7:])
                if tm is not None:
                    out |= self._global_types(e.attr, tm)
            elif t.startswith("ext:"):
                out.add(_widen_ext(t + "." + e.attr))
            elif t.startswith("class:"):
                c = self.cls_of(t[6:])
                if c is not None:
                    f = c.find_method(e.attr)
                    if f is not None:
                        out.add("func:" + f.qual)
                    else:
                        owner, node = c.find_attr(e.attr)
                        if owner is not None:
                            out |= self._class_attr_types(owner, e.attr)
                        for k in c.mro():
                            if isinstance(k, ClassInfo):
                                out |= self.slot_types[k.qual].get(
                                    e.attr, set())
            else:
                c = self.cls_of(t)
                if c is None:
                    continue
                for cc in [c] + [s for s in self.m.subclasses(c)
                                 if s is not c]:
                    f = cc.find_method(e.attr)
                    if f is not None and f.is_property:
                        if isinstance(e.ctx, ast.Load):
                            self._edge(e, f, "property", e.value)
                        out |= self.ret_types.get(f.qual, set())
                    elif f is not None:
                        out.add("func:" + f.qual)
                    else:
                        for k in cc.mro():
                            if isinstance(k, ClassInfo):
                                out |= self.slot_types[k.qual].get(
                                    e.attr, set())
                        owner, node = cc.find_attr(e.attr)
                        if owner is not None:
                            out |= self._class_attr_types(owner, e.attr)
                    if cc is c and e.attr == "__class__":
                        out.add("class:" + c.name)
        if e.attr == "__class__" and not out:
            for t in bt:
                if self.cls_of(t):
                    out.add("class:" + t)
        return out

    def _class_attr_types(self, owner, attr):
        node = owner.attrs[attr]
        save = (self._cur, self._curq, self._curmod, self._collect)
        self._cur, self._curq, self._curmod = None, owner.module.name + \
            ".<module>", owner.module
        self._collect = False
        try:
            return self.types(node)
        finally:
            self._cur, self._curq, self._curmod, self._collect = save

    def _t_Subscript(self, e):
        bt = self.types(e.value)
        self.types(e.slice)
        out = set()
        for t in bt:
            c = self.cls_of(t)
            if c is not None:
                f = c.find_method("__getitem__")
                if f is not None:
                    self._edge(e, f, "protocol", e.value)
                    out |= self.ret_types.get(f.qual, set())
        # element of a tuple-returning call: x()[1]
        if isinstance(e.slice, ast.Constant) and isinstance(
                e.slice.value, int):
            elems = self._tuple_elems(e.value)
            if elems is not None and -len(elems) <= e.slice.value < len(elems):
                out |= elems[e.slice.value]
        return out

    def _t_Slice(self, e):
        for x in (e.lower, e.upper, e.step):
            if x is not None:
                self.types(x)
        return set()

    def _t_IfExp(self, e):
        self._truth(e.test)
        return self.types(e.body) | self.types(e.orelse)

    def _t_BoolOp(self, e):
        out = set()
        for v in e.values:
            out |= self._truth(v)
        return out

    def _t_UnaryOp(self, e):
        vt = self.types(e.operand)
        if isinstance(e.op, ast.Not):
            self._truth(e.operand)
            return {"bool"}
        out = set()
        d = "__neg__" if isinstance(e.op, ast.USub) else "__pos__"
        for t in vt:
            c = self.cls_of(t)
            if c is not None:
                f = c.find_method(d)
                if f is not None:
                    self._edge(e, f, "operator", e.operand)
                    out |= self.ret_types.get(f.qual, set())
            elif t in NUM or t == "bool":
                out.add(t)
        return out

    def _truth(self, e):
        """Type an expression used in boolean context (adds __bool__ edge)."""
        vt = self.types(e)
        if not isinstance(e, (ast.Compare, ast.BoolOp)) and not (
                isinstance(e, ast.UnaryOp) and isinstance(e.op, ast.Not)):
            for t in vt:
                c = self.cls_of(t)
                if c is not None:
                    f = c.find_method("__bool__") or c.find_method("__len__")
                    if f is not None:
                        self._edge(e, f, "protocol", e)
        return vt

    def _t_Compare(self, e):
        left = e.left
        lt = self.types(left)
        for op, right in zip(e.ops, e.comparators):
            rt = self.types(right)
            d = CMP_DUNDER.get(type(op))
            if d is not None:
                hit = False
                for t in lt:
                    c = self.cls_of(t)
                    if c is not None:
                        for f in self.lookup_method(t, d[0]):
                            self._edge(e, f, "operator", left)
                            hit = True
                        if d[0] == "__ne__" and not self.lookup_method(
                                t, "__ne__"):
                            for f in self.lookup_method(t, "__eq__"):
                                self._edge(e, f, "operator", left)
                for t in rt:
                    c = self.cls_of(t)
                    if c is not None and not (lt & {t}):
                        for f in self.lookup_method(t, d[1]):
                            self._edge(e, f, "operator", right)
                        if d[1] == "__ne__" and not self.lookup_method(
                                t, "__ne__"):
                            for f in self.lookup_method(t, "__eq__"):
                                self._edge(e, f, "operator", right)
            elif isinstance(op, (ast.In, ast.NotIn)):
                for t in rt:
                    c = self.cls_of(t)
                    if c is not None:
                        for nm in ("__contains__", "__iter__"):
                            f = c.find_method(nm)
                            if f is not None:
                                self._edge(e, f, "protocol", right)
                                break
                # x in [a, b] compares with ==
                for t in lt:
                    if self.cls_of(t) is not None:
                        for f in self.lookup_method(t, "__eq__"):
                            self._edge(e, f, "operator", left)
            left, lt = right, rt
        return {"bool"}

    def _t_BinOp(self, e):
        return self._binop_types(e.left, e.op, e.right, e)

    def _binop_types(self, left, op, right, node, aug=False):
        lt = self.types(left)
        rt = self.types(right)
        out = set()
        d = BINOP_DUNDER.get(type(op))
        if isinstance(op, ast.Mod) and "str" in lt:
            # "%s" % x  -> __str__ of operands
            elems = right.elts if isinstance(right, ast.Tuple) else [right]
            for x in elems:
                self._protocol(node, self.types(x), "__str__")
            out.add("str")
        if d is None:
            return out | (lt & NUM) | (rt & NUM)
        for t in lt:
            c = self.cls_of(t)
            if c is not None:
                fs = []
                if aug:
                    fs = self.lookup_method(t, AUG_DUNDER.get(type(op), "?"))
                if not fs:
                    fs = self.lookup_method(t, d[0])
                for f in fs:
                    self._edge(node, f, "operator", left)
                    ps = f.call_params
                    if ps:
                        self._add(self.param_in[f.qual], ps[0], rt)
                    out |= self.ret_for_args(f, {ps[0]: rt} if ps else {})
            elif t in NUM or t == "bool":
                if rt & NUM or (not rt and not self._optimistic):
                    if isinstance(op, ast.Div):
                        out.add("float")
                    else:
                        out |= (lt | rt) & NUM
            elif t in ("str", "list", "tuple") and isinstance(
                    op, (ast.Add, ast.Mult)):
                out.add(t)
        for t in rt:
            c = self.cls_of(t)
            if c is not None and not any(self.cls_of(x) for x in lt):
                for f in self.lookup_method(t, d[1]):
                    self._edge(node, f, "operator", right)
                    ps = f.call_params
                    if ps:
                        self._add(self.param_in[f.qual], ps[0], lt)
                    out |= self.ret_for_args(f, {ps[0]: lt} if ps else {})
        return out

    def _protocol(self, node, vt, dunder):
        for t in vt:
            c = self.cls_of(t)
            if c is not None:
                for f in self.lookup_method(t, dunder):
                    self._edge(node, f, "protocol")
                if dunder == "__str__" and not self.lookup_method(
                        t, "__str__"):
                    for f in self.lookup_method(t, "__repr__"):
                        self._edge(node, f, "protocol")

    def _t_Await(self, e):
        return self.types(e.value)

    def _t_Yield(self, e):
        if e.value is not None:
            self.types(e.value)
        return set()

    def _t_NamedExpr(self, e):
        return self.types(e.value)

    def _t_FormattedValue(self, e):
        return self.types(e.value)

    # -------------------------------------------------------------- calls
    def _edge(self, node, callee, kind, recv=None):
        if self._collect:
            lst = self.edges[self._curq]
            for x in lst:
                if x.node is node and x.callee is callee:
                    return
            lst.append(Edge(node, callee, kind, recv))

    def callees_of_call(self, call):
        """FuncInfos a Call node may invoke (no side effects on edges)."""
        save = self._collect
        self._collect = False
        try:
            return self._resolve_call(call)[0]
        finally:
            self._collect = save

    def _resolve_call(self, call):
        """-> (callees, result_types, status) ; status in
        {'pkg','ctor','builtin','ext','method-builtin','unresolved'}"""
        fn = call.func
        callees, rtypes, status = [], set(), "unresolved"
        if isinstance(fn, ast.Name):
            name = fn.id
            ft = self.types(fn)
            if not ft:
                return self._builtin_call(call, name)
            for t in ft:
                if t.startswith("func:"):
                    f = self.m.functions.get(t[5:])
                    if f is not None:
                        callees.append(f)
                        rtypes |= self._call_result(f, call)
                        status = "pkg"
                elif t.startswith("class:"):
                    c = self.cls_of(t[6:])
                    if c is not None:
                        init = c.find_method("__init__")
                        if init is not None:
                            callees.append(init)
                        rtypes.add(c.name)
                        status = "ctor"
                    else:
                        return self._builtin_call(call, t[6:])
                elif t.startswith("ext:"):
                    status = "ext"
                    rtypes.add(_widen_ext(t + "()"))
            return callees, rtypes, status
        if isinstance(fn, ast.Attribute):
            bt = self.types(fn.value)
            meth = fn.attr
            for t in bt:
                if t.startswith("module:"):
                    tm = self.m.modules.get(t[7:])
                    if tm is None:
                        continue
                    if meth in tm.functions:
                        f = tm.functions[meth]
                        callees.append(f)
                        rtypes |= self._call_result(f, call)
                        status = "pkg"
                    elif meth in tm.classes:
                        c = tm.classes[meth]
                        init = c.find_method("__init__")
                        if init is not None:
                            callees.append(init)
                        rtypes.add(c.name)
                        status = "ctor"
                elif t.startswith("ext:"):
                    status = "ext"
                    full = t[4:] + "." + meth
                    if full == "re.compile":
                        rtypes.add("regex")
                    elif full.startswith("os.getenv"):
                        rtypes |= {"str", "None"}
                    elif full == "time.time":
                        rtypes.add("float")
                    else:
                        rtypes.add(_widen_ext("ext:" + full + "()"))
                elif t.startswith("class:"):
                    c = self.cls_of(t[6:])
                    if c is None:
                        continue
                    if meth == "__class__":
                        continue
                    f = c.find_method(meth)
                    if f is not None:
                        callees.append(f)
                        rtypes |= self._call_result(f, call)
                        status = "pkg"
                elif self.cls_of(t) is not None:
                    fs = self.lookup_method(t, meth)
                    for f in fs:
                        if f.is_property:
                            continue
                        callees.append(f)
                        rtypes |= self._call_result(f, call)
                        status = "pkg"
                    if not fs:
                        # attribute holding a callable/class (e.g.
                        # self.__class__(...))
                        at = self._t_Attribute(fn)
                        for a in at:
                            if a.startswith("class:") and self.cls_of(a[6:]):
                                c = self.cls_of(a[6:])
                                for k in self.m.subclasses(c):
                                    init = k.find_method("__init__")
                                    if init is not None and \
                                            init not in callees:
                                        callees.append(init)
                                    rtypes.add(k.name)
                                status = "ctor"
                            elif a.startswith("func:"):
                                f = self.m.functions.get(a[5:])
                                if f is not None:
                                    callees.append(f)
                                    rtypes |= self._call_result(f, call)
                                    status = "pkg"
                elif t in ("str", "dict", "list", "tuple", "set", "regex",
                           "match", "float", "int"):
                    status = "method-builtin"
                    rtypes |= self._builtin_method_result(t, meth)
                    if t == "str" and meth == "format":
                        for a in list(call.args) + [k.value
                                                    for k in call.keywords]:
                            self._protocol(call, self.types(a), "__str__")
            if not callees and status == "unresolved":
                if meth in STR_METHODS | CONTAINER_READ | CONTAINER_MUT | \
                        REGEX_METHODS and not self.methods_named(meth):
                    status = "method-builtin"
                    rtypes |= self._builtin_method_result(None, meth)
                else:
                    # unknown receiver: resolve by name over the package
                    fs = [f for f in self.methods_named(meth)
                          if not f.is_property]
                    if fs:
                        callees = fs
                        for f in fs:
                            rtypes |= self._call_result(f, call)
                        status = "pkg-by-name"
            return callees, rtypes, status
        if isinstance(fn, ast.Call) and isinstance(fn.func, ast.Name) and \
                fn.func.id == "type" and len(fn.args) == 1:
            # type(x)(...): constructor of x's class (and subclasses)
            for t in self.types(fn.args[0]):
                c = self.cls_of(t)
                if c is None:
                    continue
                for k in self.m.subclasses(c):
                    init = k.find_method("__init__")
                    if init is not None and init not in callees:
                        callees.append(init)
                    rtypes.add(k.name)
                status = "ctor"
            if callees or rtypes:
                return callees, rtypes, status
        # call of a call result / subscript: _operator_map[op](a, b)
        self.types(fn)
        if isinstance(fn, ast.Subscript) and len(call.args) == 2:
            from .fold import NotConst, Symbol
            try:
                table = self.folder.fold(fn.value, self._curmod, None, {})
            except NotConst:
                table = None
            if isinstance(table, dict) and table and all(
                    isinstance(v, Symbol) and v.qual.startswith("operator.")
                    for v in table.values()):
                lt = self.types(call.args[0])
                rt = self.types(call.args[1])
                for v in table.values():
                    d = "__%s__" % v.qual.split(".")[1]
                    for t in lt | rt:
                        if self.cls_of(t) is not None:
                            for f in self.lookup_method(t, d):
                                callees.append(f)
                return callees, {"bool"}, "operator-table"
        return [], set(), "dynamic"

    def _call_result(self, f, call=None):
        if f.qual not in self._is_gen:
            self._is_gen[f.qual] = any(
                isinstance(n, (ast.Yield, ast.YieldFrom))
                for n in walk_no_nested(f.node))
        if self._is_gen[f.qual]:
            return {"generator:" + f.qual}
        if call is None:
            return set(self.ret_types.get(f.qual, set()))
        argmap = {}
        params = f.call_params
        for i, a in enumerate(call.args):
            if isinstance(a, ast.Starred):
                break
            if i < len(params):
                argmap[params[i]] = self.types(a)
        for k in call.keywords:
            if k.arg is not None:
                argmap[k.arg] = self.types(k.value)
        return self.ret_for_args(f, argmap)

    def issub(self, t, sup):
        if t == sup:
            return True
        c, s = self.cls_of(t), self.cls_of(sup)
        return c is not None and s is not None and s in c.mro()

    def ret_for_args(self, f, argmap):
        """Return types of f restricted to the return statements whose
        isinstance-facts on parameters are compatible with the argument
        types (context-sensitive on type-dispatching dunders)."""
        sites = self.ret_sites.get(f.qual)
        if not sites:
            return set(self.ret_types.get(f.qual, set()))
        out = set()
        for facts, ts in sites.values():
            ok = True
            for p, want in facts.items():
                have = argmap.get(p)
                if not have:
                    if self._optimistic:
                        ok = False
                    continue
                pos = {w for w in want if not w.startswith("!")}
                neg = {w[1:] for w in want if w.startswith("!")}
                if pos and not any(self.issub(h, w) for h in have
                                   for w in pos):
                    ok = False
                if neg and all(any(self.issub(h, w) for w in neg)
                               for h in have):
                    ok = False
            if ok:
                out |= ts
        if f.returns is not None:
            out |= self._ann_types(f.returns, f.module) & set(
                self.ret_types.get(f.qual, set()))
        return out

    def _builtin_method_result(self, t, meth):
        if meth in ("format", "join", "lower", "upper", "strip", "replace",
                    "lstrip", "rstrip", "sub", "title", "zfill"):
            return {"str"}
        if meth in ("split", "splitlines", "rsplit", "keys", "values",
                    "items", "findall"):
            return {"list"}
        if meth in ("startswith", "endswith", "is_integer", "isdigit"):
            return {"bool"}
        if meth in ("search", "match", "fullmatch"):
            return {"match", "None"}
        if meth == "groupdict":
            return {"dict"}
        if meth == "copy" and t:
            return {t}
        return set()

    def _builtin_call(self, call, name):
        args = call.args
        ats = [self.types(a) for a in args]
        for k in call.keywords:
            self.types(k.value)
        res = set()
        if name in ("int", "float", "str", "bool", "list", "dict", "tuple",
                    "set"):
            res = {name}
            if name == "str" and ats:
                self._protocol(call, ats[0], "__str__")
            if name in ("bool",) and ats:
                self._protocol(call, ats[0], "__bool__")
            if name in ("list", "tuple", "set") and ats:
                self._protocol(call, ats[0], "__iter__")
        elif name in ("len",):
            res = {"int"}
        elif name == "abs":
            for t in (ats[0] if ats else ()):
                c = self.cls_of(t)
                if c is not None:
                    for f in self.lookup_method(t, "__abs__"):
                        self._edge(call, f, "protocol", args[0])
                        res |= self.ret_types.get(f.qual, set())
                elif t in NUM:
                    res.add(t)
        elif name == "hash":
            if ats:
                self._protocol(call, ats[0], "__hash__")
                a0 = args[0]
                elems = []
                if isinstance(a0, ast.Tuple):
                    elems = [x.value if isinstance(x, ast.Starred) else x
                             for x in a0.elts]
                elif isinstance(a0, ast.Call) and U(a0.func) == "tuple" and \
                        a0.args and isinstance(a0.args[0], (
                            ast.GeneratorExp, ast.ListComp)):
                    elems = [a0.args[0].elt]
                for x in elems:
                    self._protocol(call, self.types(x), "__hash__")
            res = {"int"}
        elif name == "repr":
            if ats:
                self._protocol(call, ats[0], "__repr__")
            res = {"str"}
        elif name in ("isinstance", "callable", "hasattr", "any", "all"):
            res = {"bool"}
        elif name in ("floor", "round", "divmod", "sum", "max", "min"):
            res = {"int", "float"} if name != "divmod" else {"tuple"}
        elif name == "getattr":
            res = self._getattr_types(call)
        elif name == "setattr":
            self._setattr(call)
            res = {"None"}
        elif name in ("enumerate", "reversed", "range", "zip", "sorted",
                      "iter", "filter", "map"):
            res = {"list"}
            if name in ("enumerate", "reversed", "sorted", "iter") and ats:
                self._protocol(call, ats[0], "__iter__")
        elif name == "type":
            res = {"class:" + t for t in (ats[0] if ats else ())
                   if self.cls_of(t)}
        elif name == "print":
            for a in ats:
                self._protocol(call, a, "__str__")
            res = {"None"}
        elif name == "super":
            res = set()
        status = "builtin"
        return [], res, status

    def const_str_values(self, e):
        """Possible constant string values of an expression (loop variable
        over a literal list / __slots__, string constants, simple format of
        such)."""
        if isinstance(e, ast.Constant) and isinstance(e.value, str):
            return [e.value]
        if isinstance(e, ast.Name) and self._cur is not None:
            vals = []
            for node in walk_no_nested(self._cur.node):
                it = tgt = None
                if isinstance(node, (ast.For, ast.comprehension)):
                    it, tgt = node.iter, node.target
                if it is None:
                    continue
                names = self._target_names(tgt)
                if e.id not in names:
                    continue
                seq = self.const_seq(it)
                if seq is None:
                    return None
                idx = names.index(e.id)
                for item in seq:
                    if isinstance(tgt, ast.Name):
                        vals.append(item)
                    elif isinstance(item, (tuple, list)) and \
                            len(item) == len(names):
                        vals.append(item[idx])
                    else:
                        return None
            if vals and all(isinstance(v, str) for v in vals):
                return vals
            return None
        if isinstance(e, ast.Call) and isinstance(e.func, ast.Attribute) and \
                e.func.attr == "format" and isinstance(
                    e.func.value, ast.Constant) and len(e.args) == 1:
            inner = self.const_str_values(e.args[0])
            if inner is not None:
                return [e.func.value.value.format(v) for v in inner]
        if isinstance(e, ast.Subscript) and isinstance(e.slice, ast.Slice):
            inner = self.const_str_values(e.value)
            if inner is not None and e.slice.lower is not None and isinstance(
                    e.slice.lower, ast.Constant) and e.slice.upper is None:
                return [v[e.slice.lower.value:] for v in inner]
        return None

    def _target_names(self, tgt):
        if isinstance(tgt, ast.Name):
            return [tgt.id]
        if isinstance(tgt, (ast.Tuple, ast.List)):
            return [t.id if isinstance(t, ast.Name) else None
                    for t in tgt.elts]
        return []

    def const_seq(self, it):
        """Constant sequence a loop iterates over: a literal list/tuple of
        constants, or X.__slots__ of a value class."""
        from .fold import NotConst
        ck = (id(it), self._curq)
        if ck in self._const_seq_cache:
            return self._const_seq_cache[ck]
        r = self._const_seq(it)
        self._const_seq_cache[ck] = r
        return r

    def _const_seq(self, it):
        from .fold import NotConst
        if isinstance(it, ast.Attribute) and it.attr == "__slots__":
            out = []
            for t in self.types(it.value):
                t = t[6:] if t.startswith("class:") else t
                c = self.cls_of(t)
                if c is None:
                    continue
                for k in [c] + [s for s in self.m.subclasses(c) if s is not c]:
                    try:
                        for s in self.folder.class_const(k, "__slots__"):
                            if s not in out:
                                out.append(s)
                    except NotConst:
                        return None
            return out or None
        try:
            v = self.folder.fold(
                it, self._curmod, self._cur.cls if self._cur else None, {})
        except NotConst:
            return None
        if isinstance(v, dict):
            v = list(v)
        if isinstance(v, (list, tuple)):
            return list(v)
        return None

    def _getattr_types(self, call):
        if len(call.args) < 2:
            return set()
        names = self.const_str_values(call.args[1])
        ot = self.types(call.args[0])
        out = set()
        if names is None:
            return out
        for n in names:
            fake = ast.Attribute(value=call.args[0], attr=n, ctx=ast.Load())
            fake._parent = call
            ast.copy_location(fake, call)
            out |= self._t_Attribute(fake)
        if len(call.args) == 3:
            out |= self.types(call.args[2])
        return out

    def _setattr(self, call):
        if len(call.args) != 3:
            return
        names = self.const_str_values(call.args[1])
        val = call.args[2]
        paired = (isinstance(val, ast.Call) and isinstance(val.func, ast.Name)
                  and val.func.id == "getattr" and len(val.args) >= 2 and
                  U(val.args[1]) == U(call.args[1]))
        vt = self.types(val)
        for t in self.types(call.args[0]):
            c = self.cls_of(t)
            if c is None:
                continue
            if names is None:
                continue
            for n in names:
                if paired:
                    fake = ast.Attribute(value=val.args[0], attr=n,
                                         ctx=ast.Load())
                    fake._parent = call
                    ast.copy_location(fake, call)
                    self._add(self.slot_types[c.qual], n,
                              self._t_Attribute(fake))
                else:
                    self._add(self.slot_types[c.qual], n, vt)

    def _t_Call(self, e):
        for a in e.args:
            self.types(a)
        for k in e.keywords:
            self.types(k.value)
        callees, rtypes, status = self._resolve_call(e)
        recv = e.func.value if isinstance(e.func, ast.Attribute) else None
        for f in callees:
            kind = "ctor" if f.name == "__init__" and status == "ctor" \
                else "call"
            self._edge(e, f, kind, recv)
            self._propagate_args(e, f)
        if self._collect:
            if status == "ext":
                self.external[self._curq].append((e, U(e.func)))
            elif status == "method-builtin":
                self.builtin_method_calls[self._curq].append(
                    (e, recv, e.func.attr))
            elif status in ("unresolved", "dynamic") and not callees:
                self.unresolved[self._curq].append((e, U(e.func)))
        return rtypes

    def _propagate_args(self, call, f):
        params = f.call_params
        pin = self.param_in[f.qual]
        i = 0
        for a in call.args:
            if isinstance(a, ast.Starred):
                # *t with t a tuple of known arity: element-wise
                elems = self._tuple_elems(a.value)
                if elems is None:
                    break
                for et in elems:
                    if i < len(params):
                        self._add(pin, params[i], et)
                    i += 1
                continue
            if i < len(params):
                self._add(pin, params[i], self.types(a))
            i += 1
        for k in call.keywords:
            if k.arg is not None and (k.arg in params or k.arg in f.kwonly):
                self._add(pin, k.arg, self.types(k.value))

    # ---------------------------------------------------------- call graph
    def callees(self, qual):
        return {e.callee.qual for e in self.edges.get(qual, [])}

    def reachable(self, roots, stop=None):
        seen, todo = set(), list(roots)
        stop = stop or (lambda q: False)
        while todo:
            q = todo.pop()
            if q in seen:
                continue
            seen.add(q)
            if stop(q):
                continue
            todo.extend(self.callees(q))
        return seen

    def callers_of(self, qual):
        out = []
        for q, es in self.edges.items():
            for e in es:
                if e.callee.qual == qual:
                    out.append((q, e))
        return out

    def path(self, root, target):
        """A call chain root -> ... -> target (for diagnostics)."""
        prev = {root: None}
        todo = [root]
        while todo:
            q = todo.pop(0)
            if q == target:
                out = []
                while q is not None:
                    out.append(q)
                    q = prev[q]
                return out[::-1]
            for c in sorted(self.callees(q)):
                if c not in prev:
                    prev[c] = q
                    todo.append(c)
        return None

    def stats(self):
        n_edges = sum(len(v) for v in self.edges.values())
        n_unres = sum(len(v) for v in self.unresolved.values())
        return {"functions": len(self.m.functions), "call_edges": n_edges,
                "unresolved_calls": n_unres, "iterations": self.iterations}
