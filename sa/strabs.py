"""Abstract interpretation of string-building functions.

Computes, without running anything, the set of *shapes* of the strings a
function can return: a shape is a tuple of tokens, each a literal piece
("L", text) or a formatted value ("V", key) where the key names where the
value came from (an attribute of self, a getattr() name, a parameter).
Unknown tests fork; loops over constant sequences are unrolled; private
helpers of the same class / module are interpreted recursively.  Used to
read writer-side notations (Duration.__str__, the default dump formats)
independently of how the code that assembles them is laid out.
"""
import ast
import re

from .model import AnalysisError, U

MAX_STATES = 6000
MAX_DEPTH = 4


class Unknown:
    def __repr__(self):
        return "?"


UNKNOWN = Unknown()


class Val:
    """A non-string value of unknown magnitude; key says where it is from."""
    __slots__ = ("key",)

    def __init__(self, key):
        self.key = key

    def __eq__(self, o):
        return isinstance(o, Val) and o.key == self.key

    def __hash__(self):
        return hash(("Val", self.key))

    def __repr__(self):
        return "<%s>" % self.key


class Str:
    """Abstract string: tuple of ("L", text) / ("V", key) tokens."""
    __slots__ = ("toks",)

    def __init__(self, toks=()):
        out = []
        for t in toks:
            if t[0] == "L":
                if not t[1]:
                    continue
                if out and out[-1][0] == "L":
                    out[-1] = ("L", out[-1][1] + t[1])
                    continue
            out.append(t)
        self.toks = tuple(out)

    def __eq__(self, o):
        return isinstance(o, Str) and o.toks == self.toks

    def __hash__(self):
        return hash(("Str", self.toks))

    def __add__(self, o):
        return Str(self.toks + o.toks)

    def __repr__(self):
        return "".join(t[1] if t[0] == "L" else "<%s>" % t[1]
                       for t in self.toks)

    def truth(self):
        if not self.toks:
            return False
        if any(t[0] == "L" for t in self.toks):
            return True
        return None


class Const:
    __slots__ = ("v",)

    def __init__(self, v):
        self.v = v

    def __eq__(self, o):
        return isinstance(o, Const) and type(o.v) is type(self.v) and \
            o.v == self.v

    def __hash__(self):
        try:
            return hash(("Const", self.v))
        except TypeError:
            return hash(("Const", repr(self.v)))

    def __repr__(self):
        return "Const(%r)" % (self.v,)


def lit(s):
    return Str((("L", s),))


_FMT = re.compile(r"%(?:\(\w+\))?[-+ #0]*\d*(?:\.\d+)?[sdifrx]|%%")
_BRACE = re.compile(r"\{(\w*)(?:![rsa])?(?::[^{}]*)?\}|\{\{|\}\}")


def key_of(e, selfname="self"):
    """Provenance key of an expression used as a formatted value."""
    if isinstance(e, ast.Attribute) and isinstance(e.value, ast.Name) and \
            e.value.id == selfname:
        return e.attr.lstrip("_")
    if isinstance(e, ast.Call) and isinstance(e.func, ast.Name) and \
            e.func.id in ("str", "int", "abs", "float") and len(e.args) == 1:
        return key_of(e.args[0], selfname)
    return U(e)


def _tuple_elts(e):
    """Elements of a tuple expression built from literals and `+`."""
    if e is None:
        return None
    if isinstance(e, ast.Tuple):
        return list(e.elts)
    if isinstance(e, ast.BinOp) and isinstance(e.op, ast.Add):
        a, b = _tuple_elts(e.left), _tuple_elts(e.right)
        if a is not None and b is not None:
            return a + b
    return None


class _Signal(Exception):
    pass


class Interp:
    def __init__(self, ctx, f, depth=0, args=None):
        self.ctx = ctx
        self.f = f
        self.depth = depth
        self.selfname = f.self_name or "self"
        self.results = set()
        self.raised = 0
        self.args = args or {}
        self.unknown_reasons = []

    # ---------------------------------------------------------------- driver
    def run(self):
        env = {}
        for p in self.f.params:
            if p == self.selfname:
                continue
            env[p] = self.args.get(p, Val(p))
        states = {self._freeze(env)}
        out = self.block(self.f.node.body, states)
        if out["normal"]:
            self.results.add(Const(None))
        return self.results

    @staticmethod
    def _freeze(env):
        return tuple(sorted(env.items(), key=lambda kv: kv[0]))

    def block(self, stmts, states):
        flow = {"normal": set(states), "brk": set(), "cont": set()}
        for st in stmts:
            if not flow["normal"]:
                break
            if len(flow["normal"]) > MAX_STATES:
                raise AnalysisError("%s: too many string-building paths" %
                                    self.f.qual)
            nxt = set()
            for s in flow["normal"]:
                r = self.stmt(st, dict(s))
                nxt |= r["normal"]
                flow["brk"] |= r["brk"]
                flow["cont"] |= r["cont"]
            flow["normal"] = nxt
        return flow

    def _one(self, env):
        return {"normal": {self._freeze(env)}, "brk": set(), "cont": set()}

    @staticmethod
    def _none():
        return {"normal": set(), "brk": set(), "cont": set()}

    # ------------------------------------------------------------ statements
    def stmt(self, st, env):
        if isinstance(st, ast.Return):
            for v, e2 in self.eval_fork(st.value, env):
                self.results.add(v if v is not None else Const(None))
            return self._none()
        if isinstance(st, ast.Raise):
            self.raised += 1
            return self._none()
        if isinstance(st, (ast.Pass, ast.Global, ast.Nonlocal, ast.Import,
                           ast.ImportFrom, ast.Assert, ast.Delete)):
            return self._one(env)
        if isinstance(st, ast.Expr):
            return self._one(env)
        if isinstance(st, ast.Break):
            r = self._none()
            r["brk"].add(self._freeze(env))
            return r
        if isinstance(st, ast.Continue):
            r = self._none()
            r["cont"].add(self._freeze(env))
            return r
        if isinstance(st, (ast.Assign, ast.AnnAssign)):
            if st.value is None:
                return self._one(env)
            out = self._none()
            targets = st.targets if isinstance(st, ast.Assign) else \
                [st.target]
            for v, e2 in self.eval_fork(st.value, env):
                e3 = dict(e2)
                for t in targets:
                    self.bind(t, v, e3)
                out["normal"].add(self._freeze(e3))
            return out
        if isinstance(st, ast.AugAssign):
            out = self._none()
            if isinstance(st.target, ast.Name) and isinstance(st.op, ast.Add):
                for v, e2 in self.eval_fork(st.value, env):
                    e3 = dict(e2)
                    a = e3.get(st.target.id, UNKNOWN)
                    e3[st.target.id] = self.add(a, v)
                    out["normal"].add(self._freeze(e3))
                return out
            if isinstance(st.target, ast.Name) and isinstance(st.op, ast.Mod):
                for v, e2 in self.eval_fork(st.value, env):
                    e3 = dict(e2)
                    a = e3.get(st.target.id, UNKNOWN)
                    e3[st.target.id] = self.percent(a, v, st.value)
                    out["normal"].add(self._freeze(e3))
                return out
            if isinstance(st.target, ast.Name):
                env[st.target.id] = UNKNOWN if not isinstance(
                    env.get(st.target.id), Val) else env[st.target.id]
            return self._one(env)
        if isinstance(st, ast.If):
            out = self._none()
            for truth, e2 in self.test(st.test, env):
                branch = st.body if truth else st.orelse
                r = self.block(branch, {self._freeze(e2)})
                for k in out:
                    out[k] |= r[k]
            return out
        if isinstance(st, ast.For):
            return self.loop(st, env)
        if isinstance(st, ast.While):
            return self.havoc_loop(st, env)
        if isinstance(st, ast.Try):
            r = self.block(st.body + st.orelse + st.finalbody,
                           {self._freeze(env)})
            return r
        if isinstance(st, ast.With):
            return self.block(st.body, {self._freeze(env)})
        if isinstance(st, (ast.FunctionDef, ast.ClassDef)):
            return self._one(env)
        raise AnalysisError("%s: statement %s not handled by the string "
                            "interpreter" % (self.f.qual, type(st).__name__))

    def bind(self, t, v, env):
        if isinstance(t, ast.Name):
            env[t.id] = v
        elif isinstance(t, (ast.Tuple, ast.List)):
            if isinstance(v, Const) and isinstance(v.v, (tuple, list)) and \
                    len(v.v) == len(t.elts):
                for e, x in zip(t.elts, v.v):
                    self.bind(e, self.wrap(x), env)
            else:
                for e in t.elts:
                    self.bind(e, UNKNOWN, env)
        # attribute / subscript stores: not tracked

    @staticmethod
    def wrap(x):
        if isinstance(x, (Str, Val, Const, Unknown)):
            return x
        if isinstance(x, str):
            return lit(x)
        return Const(x)

    def havoc_loop(self, st, env):
        for n in ast.walk(st):
            if isinstance(n, ast.Name) and isinstance(n.ctx, ast.Store):
                env[n.id] = UNKNOWN
        return self._one(env)

    def loop(self, st, env):
        seqs = []
        for v, e2 in self.eval_fork(st.iter, env):
            seqs.append((v, e2))
        out = self._none()
        for v, e2 in seqs:
            if not (isinstance(v, Const) and isinstance(v.v, (tuple, list))):
                r = self.havoc_loop(st, dict(e2))
                out["normal"] |= r["normal"]
                continue
            cur = {self._freeze(e2)}
            done = set()
            for item in v.v:
                nxt = set()
                for s in cur:
                    e3 = dict(s)
                    self.bind(st.target, self.wrap(item), e3)
                    r = self.block(st.body, {self._freeze(e3)})
                    nxt |= r["normal"] | r["cont"]
                    done |= r["brk"]
                cur = nxt
                if len(cur) > MAX_STATES:
                    raise AnalysisError("%s: too many string-building "
                                        "paths" % self.f.qual)
            if st.orelse:
                r = self.block(st.orelse, cur)
                cur = r["normal"]
            out["normal"] |= cur | done
        return out

    # ----------------------------------------------------------- conditions
    def test(self, e, env):
        """-> [(bool, env)]"""
        if isinstance(e, ast.BoolOp):
            res = []
            pending = [(env, 0)]
            is_and = isinstance(e.op, ast.And)
            while pending:
                en, i = pending.pop()
                if i == len(e.values):
                    res.append((is_and, en))
                    continue
                for t, e2 in self.test(e.values[i], en):
                    if t == is_and:
                        pending.append((e2, i + 1))
                    else:
                        res.append((not is_and, e2))
            return res
        if isinstance(e, ast.UnaryOp) and isinstance(e.op, ast.Not):
            return [(not t, e2) for t, e2 in self.test(e.operand, env)]
        out = []
        for v, e2 in self.eval_fork(e, env):
            tr = self.truth(v)
            if tr is None:
                out.append((True, e2))
                out.append((False, dict(e2)))
            else:
                out.append((tr, e2))
        return out

    @staticmethod
    def truth(v):
        if isinstance(v, Const):
            return bool(v.v)
        if isinstance(v, Str):
            return v.truth()
        return None

    # ---------------------------------------------------------- expressions
    def eval_fork(self, e, env):
        """-> [(value, env)]; conditional expressions fork."""
        if e is None:
            return [(Const(None), env)]
        ifexps = [n for n in ast.walk(e) if isinstance(n, ast.IfExp)]
        if not ifexps:
            return [(self.eval(e, env), env)]
        if isinstance(e, ast.IfExp):
            out = []
            for truth, e2 in self.test(e.test, env):
                out.extend(self.eval_fork(e.body if truth else e.orelse, e2))
            return out
        # a conditional expression deeper inside: fork on the first one
        first = ifexps[0]
        out = []
        for truth, e2 in self.test(first.test, env):
            self._choice = getattr(self, "_choice", {})
            self._choice[id(first)] = truth
            try:
                out.append((self.eval(e, e2), e2))
            finally:
                del self._choice[id(first)]
        return out

    def add(self, a, b):
        if isinstance(a, Str) and isinstance(b, Str):
            return a + b
        return UNKNOWN

    def as_str(self, v, e):
        """str(v)"""
        if isinstance(v, Str):
            return v
        if isinstance(v, Val):
            return Str((("V", v.key),))
        if isinstance(v, Const):
            return lit(str(v.v))
        return Str((("V", key_of(e, self.selfname)),))

    def percent(self, a, b, bexpr):
        if not isinstance(a, Str):
            return UNKNOWN
        exprs = _tuple_elts(bexpr)
        if exprs is None:
            exprs = [bexpr]
        toks = []
        i = 0
        # a conversion whose width is itself a formatted value:
        # "%0" + str(width) + "d"
        src = list(a.toks)
        k = 0
        merged = []
        while k < len(src):
            t = src[k]
            if (t[0] == "L" and re.search(r"%[-+ #0]*$", t[1])
                    and k + 2 < len(src) and src[k + 1][0] == "V"
                    and src[k + 2][0] == "L"
                    and re.match(r"[sdifrx]", src[k + 2][1])):
                head = re.sub(r"%[-+ #0]*$", "", t[1])
                merged.append(("L", head))
                merged.append(("W", src[k + 1][1]))
                merged.append(("L", src[k + 2][1][1:]))
                k += 3
                continue
            merged.append(t)
            k += 1
        for t in merged:
            if t[0] == "W":
                if i < len(exprs):
                    toks.append(("V", key_of(exprs[i], self.selfname)))
                else:
                    toks.append(("V", "?"))
                i += 1
                self.widths = getattr(self, "widths", set()) | {t[1]}
                continue
            if t[0] != "L":
                toks.append(t)
                continue
            pos = 0
            for m in _FMT.finditer(t[1]):
                toks.append(("L", t[1][pos:m.start()]))
                pos = m.end()
                if m.group(0) == "%%":
                    toks.append(("L", "%"))
                    continue
                if i < len(exprs):
                    toks.extend(self._fmt_value(exprs[i]))
                else:
                    toks.append(("V", "?"))
                i += 1
            toks.append(("L", t[1][pos:]))
        return Str(toks)

    def _fmt_value(self, e):
        """Tokens a formatted argument contributes."""
        if isinstance(e, (ast.BinOp, ast.JoinedStr, ast.Constant)) or (
                isinstance(e, ast.Call) and isinstance(
                    e.func, ast.Attribute) and e.func.attr == "format"):
            v = self.eval(e, getattr(self, "_cur_env", {}))
            if isinstance(v, Str):
                return list(v.toks)
        if isinstance(e, ast.Name):
            v = getattr(self, "_cur_env", {}).get(e.id)
            if isinstance(v, Str):
                return list(v.toks)
            if isinstance(v, Val):
                return [("V", v.key)]
        return [("V", key_of(e, self.selfname))]

    def brace(self, a, call, env):
        if not isinstance(a, Str):
            return UNKNOWN
        toks = []
        auto = 0
        for t in a.toks:
            if t[0] != "L":
                toks.append(t)
                continue
            pos = 0
            for m in _BRACE.finditer(t[1]):
                toks.append(("L", t[1][pos:m.start()]))
                pos = m.end()
                g = m.group(0)
                if g == "{{":
                    toks.append(("L", "{"))
                    continue
                if g == "}}":
                    toks.append(("L", "}"))
                    continue
                name = m.group(1)
                ex = None
                if name == "" or name.isdigit():
                    idx = auto if name == "" else int(name)
                    auto += 1
                    if idx < len(call.args):
                        ex = call.args[idx]
                else:
                    for k in call.keywords:
                        if k.arg == name:
                            ex = k.value
                if ex is None:
                    toks.append(("V", "?"))
                else:
                    v = self.eval(ex, env)
                    toks.extend(self.as_str(v, ex).toks)
            toks.append(("L", t[1][pos:]))
        return Str(toks)

    def eval(self, e, env):
        self._cur_env = env
        if isinstance(e, ast.Constant):
            if isinstance(e.value, str):
                return lit(e.value)
            return Const(e.value)
        if isinstance(e, ast.Name):
            if e.id in env:
                return env[e.id]
            if e.id in ("True", "False", "None"):
                return Const({"True": True, "False": False,
                              "None": None}[e.id])
            try:
                v = self.ctx.folder.fold(e, self.f.module, self.f.cls, {})
                return self.wrap(self._plain(v))
            except Exception:
                return UNKNOWN
        if isinstance(e, (ast.Tuple, ast.List)):
            vals = [self.eval(x, env) for x in e.elts]
            if all(isinstance(v, (Const, Str)) and (
                    not isinstance(v, Str) or all(
                        t[0] == "L" for t in v.toks)) for v in vals):
                return Const(tuple(
                    v.v if isinstance(v, Const) else repr(v) if v.toks
                    else "" for v in vals))
            return UNKNOWN
        if isinstance(e, ast.IfExp):
            ch = getattr(self, "_choice", {}).get(id(e))
            if ch is None:
                return UNKNOWN
            return self.eval(e.body if ch else e.orelse, env)
        if isinstance(e, ast.JoinedStr):
            out = Str()
            for part in e.values:
                if isinstance(part, ast.Constant):
                    out = out + lit(str(part.value))
                elif isinstance(part, ast.FormattedValue):
                    v = self.eval(part.value, env)
                    out = out + self.as_str(v, part.value)
            return out
        if isinstance(e, ast.BinOp):
            if isinstance(e.op, ast.Add):
                return self.add(self.eval(e.left, env),
                                self.eval(e.right, env))
            if isinstance(e.op, ast.Mod):
                a = self.eval(e.left, env)
                if isinstance(a, Str):
                    return self.percent(a, None, e.right)
            a, b = self.eval(e.left, env), self.eval(e.right, env)
            if isinstance(a, Val):
                return a
            if isinstance(b, Val):
                return b
            return UNKNOWN
        if isinstance(e, ast.Compare) and len(e.ops) == 1:
            a = self.eval(e.left, env)
            b = self.eval(e.comparators[0], env)
            op = e.ops[0]
            ca, cb = self._cval(a), self._cval(b)
            if ca is not _NO and cb is not _NO:
                try:
                    if isinstance(op, ast.Eq):
                        return Const(ca == cb)
                    if isinstance(op, ast.NotEq):
                        return Const(ca != cb)
                    if isinstance(op, ast.In):
                        return Const(ca in cb)
                    if isinstance(op, ast.NotIn):
                        return Const(ca not in cb)
                    if isinstance(op, ast.Is):
                        return Const(ca is cb)
                    if isinstance(op, ast.IsNot):
                        return Const(ca is not cb)
                except TypeError:
                    return UNKNOWN
            return UNKNOWN
        if isinstance(e, ast.Attribute):
            if isinstance(e.value, ast.Name) and e.value.id == self.selfname:
                if self.f.cls is not None and e.attr.isupper() or (
                        e.attr.startswith("_") and e.attr[1:].isupper()):
                    # a class-level constant table
                    try:
                        v = self.ctx.folder.fold(e, self.f.module,
                                                 self.f.cls, {})
                        return self.wrap(self._plain(v))
                    except Exception:
                        pass
                return Val(e.attr.lstrip("_"))
            try:
                v = self.ctx.folder.fold(e, self.f.module, self.f.cls, {})
                return self.wrap(self._plain(v))
            except Exception:
                return UNKNOWN
        if isinstance(e, ast.Subscript):
            v = self.eval(e.value, env)
            if isinstance(v, Str) and isinstance(e.slice, ast.Slice) and \
                    e.slice.lower is None and e.slice.step is None and \
                    U(e.slice.upper) in ("-1", "(-1)"):
                if v.toks and v.toks[-1][0] == "L":
                    return Str(v.toks[:-1] + (("L", v.toks[-1][1][:-1]),))
            return UNKNOWN
        if isinstance(e, ast.Call):
            return self.call(e, env)
        return UNKNOWN

    @staticmethod
    def _plain(v):
        if isinstance(v, list):
            return tuple(Interp._plain(x) for x in v)
        if isinstance(v, tuple):
            return tuple(Interp._plain(x) for x in v)
        return v

    @staticmethod
    def _cval(v):
        if isinstance(v, Const):
            return v.v
        if isinstance(v, Str) and all(t[0] == "L" for t in v.toks):
            return "".join(t[1] for t in v.toks)
        return _NO

    def call(self, e, env):
        fn = e.func
        name = U(fn)
        if isinstance(fn, ast.Name):
            if fn.id == "str" and len(e.args) == 1:
                return self.as_str(self.eval(e.args[0], env), e.args[0])
            if fn.id in ("int", "abs", "float", "round") and e.args:
                v = self.eval(e.args[0], env)
                return v if isinstance(v, Val) else (
                    Val(key_of(e.args[0], self.selfname)))
            if fn.id == "getattr" and len(e.args) >= 2:
                k = self._cval(self.eval(e.args[1], env))
                if isinstance(k, str):
                    return Val(k.lstrip("_"))
                return UNKNOWN
            if fn.id == "bool" and e.args:
                v = self.eval(e.args[0], env)
                t = self.truth(v)
                return Const(t) if t is not None else UNKNOWN
        if isinstance(fn, ast.Attribute):
            recv = self.eval(fn.value, env)
            if isinstance(recv, Str) and fn.attr == "join" and \
                    len(e.args) == 1:
                joined = self._join(recv, e.args[0], env)
                if joined is not None:
                    return joined
            if isinstance(recv, Str):
                if fn.attr == "replace":
                    return recv
                if fn.attr == "format":
                    return self.brace(recv, e, env)
                if fn.attr in ("endswith", "startswith") and e.args:
                    a = self._cval(self.eval(e.args[0], env))
                    if isinstance(a, str) and recv.toks:
                        t = recv.toks[-1 if fn.attr == "endswith" else 0]
                        if t[0] == "L":
                            return Const(t[1].endswith(a) if fn.attr ==
                                         "endswith" else t[1].startswith(a))
                    if not recv.toks:
                        return Const(False)
                    return UNKNOWN
                if fn.attr in ("strip", "lstrip", "rstrip", "lower",
                               "upper"):
                    # stripping characters changes no token structure that
                    # the readers of these shapes look at
                    return recv
        # helper of the same class / module: interpret it
        callee = self._helper(e)
        if callee is not None and self.depth < MAX_DEPTH:
            args = {}
            params = [p for p in callee.params if p != callee.self_name]
            for p, a in zip(params, e.args):
                args[p] = self.eval(a, env)
            for k in e.keywords:
                if k.arg:
                    args[k.arg] = self.eval(k.value, env)
            sub = Interp(self.ctx, callee, self.depth + 1, args)
            res = sub.run()
            res = {r for r in res}
            if len(res) == 1:
                return next(iter(res))
            self._pending_alts = res
            # several shapes: fork is the caller's business; approximate by
            # unknown unless all are strings, in which case the caller forks
            # through eval_fork's helper hook
            return _Alts(res)
        return UNKNOWN

    def _join(self, sep, arg, env):
        """sep.join(<comprehension over a constant sequence>)"""
        items = None
        if isinstance(arg, (ast.GeneratorExp, ast.ListComp)) and len(
                arg.generators) == 1 and not arg.generators[0].ifs:
            g = arg.generators[0]
            seq = self.eval(g.iter, env)
            if isinstance(seq, Const) and isinstance(seq.v, (tuple, list)):
                items = []
                for it in seq.v:
                    e2 = dict(env)
                    self.bind(g.target, self.wrap(it), e2)
                    items.append(self.eval(arg.elt, e2))
        elif isinstance(arg, (ast.List, ast.Tuple)):
            items = [self.eval(x, env) for x in arg.elts]
        if items is None:
            return None
        combos = [Str()]
        for k, it in enumerate(items):
            alts = list(it.alts) if isinstance(it, _Alts) else [it]
            if not all(isinstance(a, Str) for a in alts):
                return None
            new = []
            for c in combos:
                for a in alts:
                    # an empty piece contributes no separator in the shapes
                    # the readers look at only when the separator is empty
                    new.append(c + (sep if (k and sep.toks) else Str()) + a)
            combos = new
            if len(combos) > 4096:
                return None
        res = set(combos)
        if len(res) == 1:
            return next(iter(res))
        return _Alts(res)

    def _helper(self, e):
        fn = e.func
        m = self.ctx.model
        if isinstance(fn, ast.Attribute) and isinstance(fn.value, ast.Name) \
                and fn.value.id == self.selfname and self.f.cls is not None:
            g = self.f.cls.find_method(fn.attr)
            if g is not None and fn.attr.startswith("_") and \
                    not fn.attr.startswith("__"):
                return g
        if isinstance(fn, ast.Name) and fn.id.startswith("_"):
            q = "%s.%s" % (self.f.module.name, fn.id)
            if m.has_func(q):
                return m.func(q)
        return None


class _No:
    pass


_NO = _No()


class _Alts(Unknown):
    """Several possible results of a helper call."""

    def __init__(self, alts):
        self.alts = alts


def shapes(ctx, f):
    """-> set of returned values (Str / Const / Unknown) of function f."""
    it = _ForkingInterp(ctx, f)
    return it.run()


class _ForkingInterp(Interp):
    """Interp whose assignments / returns fork over helper alternatives."""

    def eval_fork(self, e, env):
        base = super().eval_fork(e, env)
        out = []
        for v, e2 in base:
            if isinstance(v, _Alts):
                for a in v.alts:
                    out.append((a, e2))
            else:
                out.append((v, e2))
        return out

    def add(self, a, b):
        if isinstance(a, _Alts) or isinstance(b, _Alts):
            # concatenation with a multi-shaped helper result: cross product
            As = a.alts if isinstance(a, _Alts) else [a]
            Bs = b.alts if isinstance(b, _Alts) else [b]
            res = {Interp.add(self, x, y) for x in As for y in Bs}
            if len(res) == 1:
                return next(iter(res))
            return _Alts(res)
        return Interp.add(self, a, b)


def unit_sequence(shape):
    """Str -> [(key or None, designator char)]: a value followed by a
    literal gives (key, first char); remaining literal chars stand alone."""
    out = []
    prev = None
    for kind, text in shape.toks:
        if kind == "V":
            if prev is not None:
                out.append((prev, None))
            prev = text
        else:
            for i, ch in enumerate(text):
                if i == 0 and prev is not None:
                    out.append((prev, ch))
                    prev = None
                else:
                    out.append((None, ch))
    if prev is not None:
        out.append((prev, None))
    return out


def is_subsequence(small, big):
    it = iter(big)
    return all(any(x == y for y in it) for x in small)
