"""E5 (tables) - folded parser/dumper tables, regex shapes, expression forms.

Everything here is partial evaluation of constant tables with the stdlib
``re`` module (``re.sub`` on folded constants, ``re._parser.parse`` for regex
ASTs).  Nothing from /repo is imported or run.
"""
import ast
import re

try:
    import re._parser as sre_parse
    import re._constants as sre_c
except ImportError:                      # pragma: no cover (py < 3.11)
    import sre_parse
    import sre_constants as sre_c

from .fold import NotConst, exec_block, _Return, Regex
from .model import AnalysisError, U, walk_no_nested

INF = 10 ** 6


class Tables:
    def __init__(self, ctx):
        self.ctx = ctx
        self.folder = ctx.folder
        self.m = ctx.model
        if "parser_spec" not in self.m.modules:
            raise AnalysisError("module parser_spec not found")
        self.spec = self.m.modules["parser_spec"]
        self._date_info = {}

    def const(self, name):
        return self.folder.need_module_const("parser_spec", name)

    # ---------------------------------------------------- translate tables
    def _call_fn(self, fname, env):
        f = self.spec.functions.get(fname)
        if f is None:
            raise AnalysisError("parser_spec.%s not found" % fname)
        e = dict(env)
        for p, dflt in f.defaults.items():
            if p not in e:
                e[p] = self.folder.fold(dflt, self.spec, None, {})
        body = [st for st in f.node.body if not (
            isinstance(st, ast.Expr) and isinstance(st.value, ast.Constant))]
        try:
            exec_block(self.folder, body, e, self.spec, None)
        except _Return as r:
            return r.value
        except NotConst as exc:
            raise AnalysisError("parser_spec.%s does not fold: %s" % (
                fname, exc))
        raise AnalysisError("parser_spec.%s returns nothing" % fname)

    def date_info(self, n):
        if n not in self._date_info:
            rows = self._call_fn("get_date_translate_info",
                                 {"num_expanded_year_digits": n})
            self._date_info[n] = [tuple(r) for r in rows]
        return self._date_info[n]

    def time_info(self):
        return [tuple(r) for r in self._call_fn("get_time_translate_info",
                                                {})]

    def zone_info(self):
        return [tuple(r) for r in self._call_fn(
            "get_time_zone_translate_info", {})]

    # --------------------------------------------------------- expressions
    def check_get_expressions_shape(self):
        f = self.ctx.try_func("parsers.TimePointParser.get_expressions")
        if f is None:
            raise AnalysisError("TimePointParser.get_expressions not found")
        meths = {n.func.attr for n in walk_no_nested(f.node)
                 if isinstance(n, ast.Call) and isinstance(
                     n.func, ast.Attribute)}
        if not {"splitlines", "strip", "startswith", "split"} <= meths:
            raise AnalysisError(
                "TimePointParser.get_expressions: shape not recognised "
                "(expected splitlines/strip/skip '#'/cut at '#')")
        return f

    @staticmethod
    def expressions(text):
        out = []
        for line in text.splitlines():
            t = line.strip()
            if not t or t.startswith("#"):
                continue
            out.append(t.split("#", 1)[0].strip())
        return out

    def check_substitution_shape(self, qual):
        """for <regex>, <sub>, _, _ in <info>: expr = re.sub(regex, sub,
        expr); then '^' + expr + '$'."""
        f = self.ctx.try_func(qual)
        if f is None:
            raise AnalysisError("%s not found" % qual)
        loops = [n for n in walk_no_nested(f.node) if isinstance(n, ast.For)]
        ok = False
        for lp in loops:
            if isinstance(lp.target, ast.Tuple) and len(
                    lp.target.elts) == 4:
                a, b = U(lp.target.elts[0]), U(lp.target.elts[1])
            elif isinstance(lp.target, ast.Name):
                # the row as a whole, read by position
                a, b = lp.target.id + "[0]", lp.target.id + "[1]"
            else:
                continue
            for n in ast.walk(lp):
                if isinstance(n, ast.Call) and U(n.func) == "re.sub" and \
                        len(n.args) == 3 and U(n.args[0]) == a and \
                        U(n.args[1]) == b:
                    ok = True
        # the result is anchored: "^" + expr + "$" in any spelling
        from . import strabs
        interp = strabs.Interp(self.ctx, f)
        anch = False
        for n in walk_no_nested(f.node):
            v = None
            if isinstance(n, ast.Return) and n.value is not None:
                v = n.value
            elif isinstance(n, ast.Assign):
                v = n.value
            if v is None or not isinstance(v, (ast.BinOp, ast.JoinedStr,
                                               ast.Call)):
                continue
            env = {x.id: strabs.Str((("V", x.id),)) for x in ast.walk(v)
                   if isinstance(x, ast.Name)}
            try:
                sh = interp.eval(v, env)
            except Exception:
                continue
            if isinstance(sh, strabs.Str) and len(sh.toks) >= 3 and \
                    sh.toks[0] == ("L", "^") and sh.toks[-1] == ("L", "$"):
                anch = True
        if not (ok and anch):
            raise AnalysisError("%s: substitution loop shape not recognised"
                                % qual)
        return f

    @staticmethod
    def to_regex(expr, rows):
        for expr_regex, substitute, _f, _p in rows:
            expr = re.sub(expr_regex, substitute, expr)
        return "^" + expr + "$"

    @staticmethod
    def to_template(expr, rows):
        """What the dumper's substitution makes of an expression:
        (template, [properties])."""
        props = []
        for expr_regex, _s, fmt, prop in rows:
            new = re.sub(expr_regex, fmt, expr)
            if new != expr and prop is not None:
                props.append(prop)
            expr = new
        return expr, props


# ------------------------------------------------------------ regex shapes
DIGITS = frozenset("0123456789")


def _charset(item):
    """Set of characters of an IN/LITERAL/ANY node, or None (unknown)."""
    op, av = item
    if op is sre_c.LITERAL:
        return frozenset(chr(av))
    if op is sre_c.NOT_LITERAL:
        return None
    if op is sre_c.IN:
        out = set()
        for o2, a2 in av:
            if o2 is sre_c.LITERAL:
                out.add(chr(a2))
            elif o2 is sre_c.RANGE:
                out |= {chr(c) for c in range(a2[0], a2[1] + 1)}
            elif o2 is sre_c.CATEGORY and a2 is sre_c.CATEGORY_DIGIT:
                out |= DIGITS
            else:
                return None
        return frozenset(out)
    if op is sre_c.CATEGORY and av is sre_c.CATEGORY_DIGIT:
        return DIGITS
    return None


def shape_of(pattern, flags=0):
    """Regex -> (items, groups) where items is a list of
    (charset|None, min, max, group name|None); raises ValueError for
    constructs outside concatenations of (repeated) character classes and
    named groups thereof."""
    tree = sre_parse.parse(pattern, flags)
    gnames = {v: k for k, v in tree.state.groupdict.items()}
    items = []

    def walk(seq, group):
        for op, av in seq:
            if op is sre_c.AT:
                continue
            if op is sre_c.SUBPATTERN:
                gid = av[0]
                walk(av[3], gnames.get(gid, group))
            elif op in (sre_c.MAX_REPEAT, sre_c.MIN_REPEAT):
                lo, hi, sub = av
                if len(sub) != 1:
                    # repeat of a sequence: expand if small and bounded
                    if hi != sre_c.MAXREPEAT and hi <= 4 and lo == hi:
                        for _ in range(lo):
                            walk(sub, group)
                        continue
                    if lo == 0 and hi == 1:
                        raise ValueError("optional sequence")
                    raise ValueError("repeat of a sequence")
                cs = _charset(sub[0])
                if sub[0][0] is sre_c.SUBPATTERN:
                    raise ValueError("repeat of a group")
                items.append((cs, lo, INF if hi == sre_c.MAXREPEAT else hi,
                              group))
            elif op in (sre_c.LITERAL, sre_c.IN, sre_c.CATEGORY,
                        sre_c.NOT_LITERAL, sre_c.ANY):
                cs = _charset((op, av)) if op is not sre_c.ANY else None
                items.append((cs, 1, 1, group))
            else:
                raise ValueError("construct %s" % op)
    walk(tree, None)
    return items, sorted(tree.state.groupdict)


def shapes_intersect(a, b):
    """Is there a string matched by both shapes (lists of items)?"""
    def expand(items):
        out = []
        for cs, lo, hi, g in items:
            for _ in range(min(lo, 64)):
                out.append((cs, False))
            if hi == INF:
                out.append((cs, True))          # star
            else:
                for _ in range(hi - lo):
                    out.append((cs, "opt"))
        return out
    A, B = expand(a), expand(b)

    def closure(i, j):
        seen = set()
        todo = [(i, j)]
        while todo:
            s = todo.pop()
            if s in seen:
                continue
            seen.add(s)
            x, y = s
            if x < len(A) and A[x][1] in (True, "opt"):
                todo.append((x + 1, y))
            if y < len(B) and B[y][1] in (True, "opt"):
                todo.append((x, y + 1))
        return seen
    frontier = closure(0, 0)
    seen = set(frontier)
    while frontier:
        if (len(A), len(B)) in frontier:
            return True
        nxt = set()
        for x, y in frontier:
            if x >= len(A) or y >= len(B):
                continue
            ca, cb = A[x][0], B[y][0]
            if ca is not None and cb is not None and not (ca & cb):
                continue
            nx = x if A[x][1] is True else x + 1
            ny = y if B[y][1] is True else y + 1
            for s in closure(nx, ny):
                if s not in seen:
                    seen.add(s)
                    nxt.add(s)
        frontier = nxt
    return (len(A), len(B)) in seen


def star_height(pattern, flags=0):
    """Maximum nesting depth of unbounded repeats."""
    tree = sre_parse.parse(pattern, flags)

    def h(seq):
        best = 0
        for op, av in seq:
            if op in (sre_c.MAX_REPEAT, sre_c.MIN_REPEAT):
                lo, hi, sub = av
                inner = h(sub)
                best = max(best, inner + (1 if hi == sre_c.MAXREPEAT else 0))
            elif op is sre_c.SUBPATTERN:
                best = max(best, h(av[3]))
            elif op is sre_c.BRANCH:
                for alt in av[1]:
                    best = max(best, h(alt))
            elif op in (sre_c.ASSERT, sre_c.ASSERT_NOT):
                best = max(best, h(av[1]))
        return best
    return h(tree)


def group_literal_items(pattern):
    """[(kind, value)] over the top-level sequence: ("group", name, inner
    pattern items) / ("lit", char)."""
    tree = sre_parse.parse(pattern)
    gnames = {v: k for k, v in tree.state.groupdict.items()}
    out = []
    for op, av in tree:
        if op is sre_c.SUBPATTERN and av[0] in gnames:
            out.append(("group", gnames[av[0]], av[3]))
        elif op is sre_c.LITERAL:
            out.append(("lit", chr(av)))
        elif op is sre_c.AT:
            continue
        else:
            out.append(("other", (op, av)))
    return out
