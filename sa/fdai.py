"""E3/E4 - structured finite-domain abstract interpreter.

Python has no goto, so path properties are decided by walking the statement
tree: each block maps a set of abstract states to five sets (normal exit,
return, break, continue, raise).  Loops are iterated to a fix-point (domains
are finite).  A rule supplies a *plugin* with the transfer functions and the
predicate refinement for the condition shapes it understands; unknown
conditions fork both ways (sound over-approximation).
"""
import ast

from .model import AnalysisError, U

MAX_STATES = 4096


def freeze(d):
    return tuple(sorted(d.items(), key=lambda kv: kv[0]))


def thaw(t):
    return dict(t)


class Flow:
    __slots__ = ("normal", "ret", "brk", "cont", "exc")

    def __init__(self):
        self.normal = set()
        self.ret = set()
        self.brk = set()
        self.cont = set()
        self.exc = set()

    def absorb(self, other, normal=True):
        if normal:
            self.normal |= other.normal
        self.ret |= other.ret
        self.brk |= other.brk
        self.cont |= other.cont
        self.exc |= other.exc


class Plugin:
    """Default transfer functions: everything unknown."""

    def eval(self, e, d):
        return None

    def assign(self, target, value, d, stmt):
        pass

    def augassign(self, stmt, d):
        pass

    def refine(self, test, d):
        """-> (list of states where test is true, list where false)"""
        self.eval(test, d)
        return [d], [dict(d)]

    def on_return(self, stmt, d, value):
        pass

    def on_yield(self, stmt, d, value):
        pass

    def on_raise(self, stmt, d):
        pass

    def on_stmt(self, stmt, d):
        pass

    def for_target(self, stmt, d):
        """Bind the loop target for one more iteration."""
        self.assign(stmt.target, self.iter_value(stmt, d), d, stmt)

    def iter_value(self, stmt, d):
        self.eval(stmt.iter, d)
        return None

    def loop_may_skip(self, stmt, d):
        """May a for loop run zero times?"""
        return True

    def delete(self, stmt, d):
        pass


class Engine:
    def __init__(self, plugin):
        self.p = plugin
        try:
            plugin.engine = self
        except AttributeError:
            pass

    def run(self, stmts, states):
        return self.block(stmts, set(states))

    def block(self, stmts, states):
        fl = Flow()
        cur = set(states)
        for st in stmts:
            if not cur:
                break
            if len(cur) > MAX_STATES:
                raise AnalysisError("state explosion at line %s" %
                                    getattr(st, "lineno", "?"))
            f = self.stmt(st, cur)
            fl.absorb(f, normal=False)
            cur = f.normal
        fl.normal = cur
        return fl

    # ------------------------------------------------------------ conditions
    def cond(self, test, states):
        T, F = set(), set()
        if isinstance(test, ast.BoolOp):
            if isinstance(test.op, ast.And):
                cur = set(states)
                for v in test.values:
                    t, f = self.cond(v, cur)
                    F |= f
                    cur = t
                return cur, F
            cur = set(states)
            for v in test.values:
                t, f = self.cond(v, cur)
                T |= t
                cur = f
            return T, cur
        if isinstance(test, ast.UnaryOp) and isinstance(test.op, ast.Not):
            t, f = self.cond(test.operand, states)
            return f, t
        for st in states:
            t, f = self.p.refine(test, thaw(st))
            T |= {freeze(x) for x in t}
            F |= {freeze(x) for x in f}
        return T, F

    # ------------------------------------------------------------ statements
    def _each(self, states, fn):
        out = set()
        for x in states:
            d = thaw(x)
            r = fn(d)
            if r is None:
                out.add(freeze(d))
            else:
                for y in r:
                    out.add(freeze(y))
        return out

    def stmt(self, st, states):
        fl = Flow()
        p = self.p
        for x in states:
            pass
        hook = getattr(p, "on_stmt", None)
        if hook is not None and type(p).on_stmt is not Plugin.on_stmt:
            states = self._each(states, lambda d: hook(st, d))
        if isinstance(st, ast.If):
            T, F = self.cond(st.test, states)
            a = self.block(st.body, T)
            fl.absorb(a)
            if st.orelse:
                b = self.block(st.orelse, F)
                fl.absorb(b)
            else:
                fl.normal |= F
            return fl
        if isinstance(st, ast.While):
            seen = set()
            entry = set(states)
            out = set()
            while True:
                new = entry - seen
                if not new:
                    break
                seen |= new
                if len(seen) > MAX_STATES:
                    raise AnalysisError("state explosion in loop at line %s"
                                        % st.lineno)
                T, F = self.cond(st.test, new)
                out |= F
                b = self.block(st.body, T)
                fl.ret |= b.ret
                fl.exc |= b.exc
                fl.normal |= b.brk
                entry = b.normal | b.cont
            if st.orelse:
                e = self.block(st.orelse, out)
                fl.absorb(e)
            else:
                fl.normal |= out
            return fl
        if isinstance(st, ast.For):
            seen = set()
            entry = set(states)
            out = set()
            first = True
            while True:
                new = entry - seen
                if not new:
                    break
                seen |= new
                if len(seen) > MAX_STATES:
                    raise AnalysisError("state explosion in loop at line %s"
                                        % st.lineno)
                if first:
                    for x in new:
                        if p.loop_may_skip(st, thaw(x)):
                            out.add(x)
                    first = False
                else:
                    out |= new
                body_in = self._each(new, lambda d: p.for_target(st, d))
                b = self.block(st.body, body_in)
                fl.ret |= b.ret
                fl.exc |= b.exc
                fl.normal |= b.brk
                entry = b.normal | b.cont
                out |= entry     # iteration may stop after any pass
            if st.orelse:
                e = self.block(st.orelse, out)
                fl.absorb(e)
            else:
                fl.normal |= out
            return fl
        if isinstance(st, ast.Try):
            b = self.block(st.body, states)
            fl.ret |= b.ret
            fl.brk |= b.brk
            fl.cont |= b.cont
            # an exception may be raised anywhere in the body: handlers see
            # the entry states and the states at explicit raises
            hs = set(states) | b.exc | b.normal
            handled = False
            for h in st.handlers:
                handled = True
                hin = self._each(hs, lambda d, h=h: self._bind_exc(h, d))
                hb = self.block(h.body, hin)
                fl.absorb(hb)
            if not handled:
                fl.exc |= b.exc
            if st.orelse:
                e = self.block(st.orelse, b.normal)
                fl.absorb(e)
            else:
                fl.normal |= b.normal
            if st.finalbody:
                fb = self.block(st.finalbody, fl.normal)
                fl.normal = fb.normal
                fl.absorb(fb, normal=False)
            return fl
        if isinstance(st, ast.With):
            cur = self._each(states, lambda d: [
                p.eval(i.context_expr, d) for i in st.items] and None)
            return self.block(st.body, cur)
        if isinstance(st, ast.Return):
            for x in states:
                d = thaw(x)
                v = p.eval(st.value, d) if st.value is not None else \
                    p.eval(ast.Constant(value=None), d)
                p.on_return(st, d, v)
                d["$ret"] = v if _hashable(v) else repr(v)
                fl.ret.add(freeze(d))
            return fl
        if isinstance(st, ast.Raise):
            for x in states:
                d = thaw(x)
                if st.exc is not None:
                    p.eval(st.exc, d)
                p.on_raise(st, d)
                fl.exc.add(freeze(d))
            return fl
        ex = getattr(p, "exec_stmt", None)
        if ex is not None and isinstance(st, (ast.Assign, ast.AugAssign,
                                             ast.Expr, ast.AnnAssign)) and \
                not (isinstance(st, ast.Expr) and isinstance(
                    st.value, (ast.Yield, ast.YieldFrom))):
            # plugin-level execution of simple statements; may fork
            handled = True
            outs = set()
            for x in states:
                d = thaw(x)
                r = ex(st, d)
                if r is NotImplemented:
                    handled = False
                    break
                for y in (r if r is not None else [d]):
                    outs.add(freeze(y))
            if handled:
                fl.normal = outs
                return fl
        if isinstance(st, ast.Assign):
            def f(d):
                v = p.eval(st.value, d)
                for t in st.targets:
                    p.assign(t, v, d, st)
            fl.normal = self._each(states, f)
            return fl
        if isinstance(st, ast.AnnAssign):
            def f(d):
                if st.value is not None:
                    p.assign(st.target, p.eval(st.value, d), d, st)
            fl.normal = self._each(states, f)
            return fl
        if isinstance(st, ast.AugAssign):
            fl.normal = self._each(states, lambda d: p.augassign(st, d))
            return fl
        if isinstance(st, ast.Expr):
            if isinstance(st.value, (ast.Yield, ast.YieldFrom)):
                def f(d):
                    v = p.eval(st.value.value, d) \
                        if st.value.value is not None else None
                    p.on_yield(st, d, v)
                fl.normal = self._each(states, f)
                return fl
            fl.normal = self._each(states, lambda d: p.eval(st.value, d)
                                   and None)
            return fl
        if isinstance(st, ast.Break):
            fl.brk |= states
            return fl
        if isinstance(st, ast.Continue):
            fl.cont |= states
            return fl
        if isinstance(st, (ast.Pass, ast.Global, ast.Nonlocal, ast.Import,
                           ast.ImportFrom, ast.FunctionDef, ast.ClassDef)):
            fl.normal |= states
            return fl
        if isinstance(st, ast.Delete):
            fl.normal = self._each(states, lambda d: p.delete(st, d))
            return fl
        if isinstance(st, ast.Assert):
            T, F = self.cond(st.test, states)
            fl.normal = T
            fl.exc |= F
            return fl
        raise AnalysisError("fdai: unsupported statement %s at line %s" % (
            type(st).__name__, getattr(st, "lineno", "?")))

    def _bind_exc(self, handler, d):
        if handler.name:
            self.p.assign(ast.Name(id=handler.name, ctx=ast.Store()), None,
                          d, handler)
        return None


def _hashable(v):
    try:
        hash(v)
        return True
    except TypeError:
        return False
