#!/venv/bin/python
"""CLI of the static checker.

  check.py --property C15 [--tier quick|thorough]
  check.py --all                 (development: every property, one process)
  check.py --replay <file>
  check.py --self-check          (setup: compile + canaries)

Exit 0: every obligation of the property discharged (known findings are
printed as KNOWN-FINDING lines); exit 1: at least one unlisted finding, each
with a ``VIOLATION property=<id> replay=<path>`` line; exit 2:
ANALYSIS-ERROR (source did not parse, an anchor or idiom was not recognised,
self-validation failed, internal error).
"""
import argparse
import json
import os
import sys
import time
import traceback

HERE = os.path.dirname(os.path.abspath(__file__))
sys.path.insert(0, os.path.dirname(HERE))

from sa.ctx import Ctx                              # noqa: E402
from sa.model import AnalysisError, Model           # noqa: E402
from sa import props as P                           # noqa: E402
from sa import report as R                          # noqa: E402


def run_rules(ctx, rule_ids):
    """Run the rule functions (each once) and return the Report."""
    from sa.rules import ALL_RULES
    done = ctx.cache.setdefault("rules_done", set())
    for rid in rule_ids:
        if rid in done:
            continue
        done.add(rid)
        fn = ALL_RULES.get(rid)
        if fn is None:
            raise AnalysisError("rule %s is not implemented" % rid)
        try:
            fn(ctx)
        except AnalysisError as exc:
            ctx.rep.error(rid, str(exc))
    return ctx.rep


def _prefix(rule):
    p = rule.split(".")[0]
    return p[:3] if len(p) > 3 else p


def closure_of(ctx, pid):
    """Functions reachable from the entry points of a property."""
    key = "closure:" + pid
    if key not in ctx.cache:
        entries = [q for q in P.ENTRY_POINTS.get(pid, ())
                   if ctx.model.has_func(q)]
        clo = ctx.res.reachable(entries) if entries else set()
        # whatever computes with the Calendar singleton depends on the
        # function that fills it
        if clo and ctx.model.has_func("data.Calendar.set_mode") and any(
                q.startswith("data.") for q in clo):
            clo = set(clo) | {"data.Calendar.set_mode",
                              "data.Calendar.__init__"}
        ctx.cache[key] = clo
    return ctx.cache[key]


def _func_of_key(key):
    """module.py:Qualified.function:... -> module.Qualified.function"""
    parts = key.split(":")
    if len(parts) >= 2 and parts[0].endswith(".py"):
        return parts[0][:-3] + "." + parts[1]
    return None


def obs_for(ctx, pid):
    """Obligations of a property: those tagged with it, plus (dependency-
    based attribution, props.py) the obligations of the core rules whose
    construct lies in a function its operations reach."""
    rep = ctx.rep
    out = [o for o in rep.obs if pid in o.props]
    inh = getattr(P, "INHERIT_TAGS", {}).get(pid, ())
    if inh:
        have = {id(o) for o in out}
        for o in rep.obs:
            if id(o) in have or o.verdict == "note":
                continue
            r0 = o.rule.split(".")[0]
            if any(r0 == r and tag in o.props for r, tag in inh):
                out.append(o)
    if pid in P.ENTRY_POINTS:
        clo = closure_of(ctx, pid)
        core = set(P.CORE_RULES)
        have = {id(o) for o in out}
        for o in rep.obs:
            if id(o) in have or o.verdict == "note":
                continue
            r0 = o.rule.split(".")[0]
            if not (r0 in core or (r0 == "R13" and ("R13ab" in core))):
                continue
            fq = _func_of_key(o.key)
            if fq is not None and fq in clo:
                out.append(o)
    return out


def rules_for(pid):
    rules = list(P.PROPS[pid]["rules"])
    for r, _tag in getattr(P, "INHERIT_TAGS", {}).get(pid, ()):
        if r not in rules:
            rules.append(r)
    if pid in P.ENTRY_POINTS:
        rules += [r for r in P.CORE_RULES if r not in rules]
    return rules


def _problems(ctx_, pid, rules, known):
    """-> ({sub-rule: [violating obs]}, {rule prefix: [error text]})"""
    rep = ctx_.rep
    bad = {}
    for o in obs_for(ctx_, pid):
        if o.verdict == "violation" and R.match_known(o, pid, known) is None:
            bad.setdefault(o.rule, []).append(o)
    # analysis errors and missing anchors count for the properties that
    # list the rule themselves (every core rule is listed by at least one);
    # a property that only inherits a rule's obligations through the call
    # graph is not made undecidable by that rule's trouble elsewhere
    own = set(P.PROPS[pid]["rules"])
    errs = {}
    for r, t in rep.errors:
        if r in own or r.split(".")[0] in own:
            errs.setdefault(_prefix(r), []).append((r, t))
    for r, a in rep.missing_anchors(own):
        errs.setdefault(_prefix(r), []).append(
            (r, "anchor=%r matched nothing" % a))
    return bad, errs


def gather(ctx, pid):
    """Evaluate the rules of a property on the source as written and, for
    every sub-rule that does not hold there, on its canonical statement form
    (sa/canon.py).  Canonicalisation preserves behaviour, so a clause
    established on either form is established for the program; a finding is
    reported only when it stands on both.
    -> (obligations, [(rule, error text)], [sub-rules decided on the
    canonical form])"""
    spec = P.PROPS[pid]
    rules = rules_for(pid)
    known = R.load_known()
    rep = run_rules(ctx, rules)
    obs = obs_for(ctx, pid)
    bad, errs = _problems(ctx, pid, rules, known)
    if not (bad or errs) or ctx.model.canon:
        return obs, [e for v in errs.values() for e in v], []
    ctx2 = ctx.cache.get("canon_ctx")
    if ctx2 is None:
        try:
            ctx2 = Ctx(ctx.model.canonical())
        except (AnalysisError, RecursionError):
            return obs, [e for v in errs.values() for e in v], []
        ctx.cache["canon_ctx"] = ctx2
    rep2 = run_rules(ctx2, rules)
    obs2 = obs_for(ctx2, pid)
    bad2, errs2 = _problems(ctx2, pid, rules, known)
    cleared = []
    for pre in list(errs):
        mine = [o for o in obs2 if _prefix(o.rule) == pre]
        if pre not in errs2 and mine and not any(
                _prefix(r) == pre for r in bad2):
            del errs[pre]
            obs = [o for o in obs if _prefix(o.rule) != pre] + mine
            for r in [r for r in bad if _prefix(r) == pre]:
                del bad[r]
            cleared.append(pre)
    for sub in list(bad):
        mine = [o for o in obs2 if o.rule == sub]
        # (a finding of the same rule that only the canonical form shows
        # means the two forms disagree about more than spelling: then the
        # canonical form clears nothing of that rule)
        moved = any(r not in bad and _prefix(r) == _prefix(sub)
                    for r in bad2)
        if sub not in bad2 and mine and _prefix(sub) not in errs2 \
                and not moved:
            # every violated construct must have been looked at again: the
            # canonical form has an obligation of this sub-rule for the same
            # construct, or at least for the same function
            # - and found in order there: a construct the canonical form
            # leaves undecided is not cleared by it
            keys2 = {o.key for o in mine if o.verdict != "undecided"}
            und2 = {o.key for o in mine if o.verdict == "undecided"}
            funcs2 = {_func_of_key(o.key) for o in mine
                      if o.verdict != "undecided"}
            if not all(o.key not in und2 and (o.key in keys2 or (
                    _func_of_key(o.key) is not None and
                    _func_of_key(o.key) in funcs2)) for o in bad[sub]):
                continue
            del bad[sub]
            obs = [o for o in obs if o.rule != sub] + mine
            cleared.append(sub)
    return obs, [e for v in errs.values() for e in v], cleared


def decide(ctx, pid, tier, seed, t0, cmd, quiet=False, write=True):
    spec = P.PROPS[pid]
    obs, errors, canon_decided = gather(ctx, pid)
    rep = ctx.rep
    known = R.load_known()
    out = []
    violations = []
    known_reported = []
    for o in obs:
        if o.verdict != "violation":
            continue
        k = R.match_known(o, pid, known)
        if k is not None:
            line = "KNOWN-FINDING: property=%s %s [%s %s]" % (
                pid, k.get("what", o.detail), o.rule, o.key)
            if line not in out:
                out.append(line)
                known_reported.append({"rule": o.rule, "key": o.key,
                                       "what": k.get("what")})
        else:
            violations.append(o)
    missing = []
    status = 0
    for o in obs:
        if o.verdict == "undecided":
            out.append("NOTE: property=%s undecided %s [%s] %s: %s" % (
                pid, o.rule, o.key, o.site, o.detail))
    if violations:
        status = 1
        seen = set()
        n = 0
        for o in violations:
            if (o.rule, o.key) in seen:
                continue
            seen.add((o.rule, o.key))
            n += 1
            path = R.write_replay(pid, n, o, ctx.model.digest) if write \
                else "-"
            out.append("VIOLATION property=%s replay=%s" % (pid, path))
            out.append("  %s %s [%s]\n    %s" % (o.site, o.rule, o.key,
                                                 o.detail))
            if o.witness:
                out.append("    witness: " + " -> ".join(
                    str(w) for w in o.witness))
    elif errors or missing:
        status = 2
    for r, t in errors:
        out.append("ANALYSIS-ERROR property=%s rule=%s %s" % (pid, r, t))
    for r, a in missing:
        out.append("ANALYSIS-ERROR property=%s rule=%s anchor=%r matched "
                   "nothing" % (pid, r, a))
    if not obs and status == 0:
        status = 2
        out.append("ANALYSIS-ERROR property=%s no obligation was evaluated" %
                   pid)
    wall = time.time() - t0
    if write:
        extra = {"functions_analysed": len(ctx.model.functions),
                 "modules": sorted(ctx.model.modules),
                 "tree_digest": ctx.model.digest,
                 "tables": sorted(rep.tables),
                 "analysis_errors": [{"rule": r, "text": t}
                                     for r, t in errors],
                 "decided_on_canonical_form": canon_decided,
                 "exhaustive": False}
        if ctx._res is not None:
            extra.update(ctx.res.stats())
        extra.update(ctx.cache.get("extra:" + pid, {}))
        R.write_evidence(
            pid, tier, seed, spec["explanation"], obs, rep, extra, wall,
            len({(o.rule, o.key) for o in violations}), known_reported,
            spec.get("assumptions", []), spec.get("trusted", []), cmd)
    if not quiet:
        for line in out:
            print(line)
        print("%s: %s  (%d obligations, %d rules, %.2fs)" % (
            pid, {0: "HOLDS (all obligations discharged)" if not
                  known_reported else "HOLDS apart from %d listed known "
                  "finding(s)" % len(known_reported), 1: "VIOLATED",
                  2: "ANALYSIS-ERROR"}[status], len(obs),
            len(rules_for(pid)), wall))
    return status, out


def main(argv=None):
    ap = argparse.ArgumentParser()
    ap.add_argument("--property")
    ap.add_argument("--tier", default=os.environ.get("VERIF_TIER", "quick"))
    ap.add_argument("--all", action="store_true")
    ap.add_argument("--replay")
    ap.add_argument("--self-check", action="store_true")
    ap.add_argument("--no-canary", action="store_true")
    args = ap.parse_args(argv)
    if os.environ.get("VERIF_TIER"):
        args.tier = os.environ["VERIF_TIER"]
    if args.tier not in ("quick", "thorough"):
        args.tier = "quick"
    try:
        seed = int(os.environ.get("VERIF_SEED", "0"))
    except ValueError:
        seed = 0
    t0 = time.time()
    try:
        if args.self_check:
            from sa.selftest import run as st
            return st.self_check()
        if args.replay:
            with open(args.replay) as fh:
                rp = json.load(fh)
            ctx = Ctx()
            pid = rp["property"]
            status, out = decide(ctx, pid, "quick", seed, t0,
                                 "replay", quiet=True, write=False)
            hit = [o for o in ctx.rep.for_prop(pid)
                   if o.rule == rp["rule"] and o.key == rp["key"]]
            for o in hit:
                print("%s %s [%s]: %s\n  %s" % (o.site, o.rule, o.key,
                                                o.verdict.upper(), o.detail))
            if not hit:
                print("construct %s [%s] no longer exists in the tree" % (
                    rp["key"], rp["rule"]))
            bad = any(o.verdict == "violation" for o in hit)
            if bad:
                print("VIOLATION property=%s replay=%s" % (pid, args.replay))
            return 1 if bad else 0
        if args.all:
            ctx = Ctx()
            worst = 0
            for pid in sorted(P.PROPS):
                st_, _ = decide(ctx, pid, args.tier, seed, time.time(),
                                "sa/check.py --all")
                worst = max(worst, st_)
            return worst
        pid = args.property
        if pid not in P.PROPS:
            print("ANALYSIS-ERROR unknown or unclaimed property %r" % pid)
            return 2
        cmd = "/venv/bin/python sa/check.py --property %s --tier %s" % (
            pid, args.tier)
        ctx = Ctx()
        cst = 0
        if not args.no_canary:
            from sa.selftest import run as st
            cst, info = st.canaries(pid, args.tier)
            ctx.cache["extra:" + pid] = {"self_validation": info}
        status, out = decide(ctx, pid, args.tier, seed, t0, cmd)
        if cst != 0 and status == 0:
            for fl in info["failures"]:
                print("ANALYSIS-ERROR property=%s self-validation variant "
                      "%s: %s %s" % (pid, fl["id"], fl["status"],
                                     fl["info"][:300]))
            return 2
        return status
    except AnalysisError as exc:
        print("ANALYSIS-ERROR %s" % exc)
        return 2
    except Exception:
        print("ANALYSIS-ERROR internal error in the checker:")
        traceback.print_exc(file=sys.stdout)
        return 2


if __name__ == "__main__":
    sys.exit(main())
