"""E5 - constant folder over class and module bodies (partial evaluation of
constant expressions; nothing from /repo is executed)."""
import ast
import operator

from .model import AnalysisError, ClassInfo, Module, U


class NotConst(Exception):
    pass


class Regex:
    """A folded ``re.compile(pattern, flags)``."""

    def __init__(self, pattern, flags=0):
        self.pattern = pattern
        self.flags = flags

    def __repr__(self):
        return "Regex(%r, %r)" % (self.pattern, self.flags)

    def __eq__(self, other):
        return (isinstance(other, Regex) and
                (self.pattern, self.flags) == (other.pattern, other.flags))

    def __hash__(self):
        return hash((self.pattern, self.flags))


class Symbol:
    """A folded reference to a package function/class (kept by name)."""

    def __init__(self, qual):
        self.qual = qual

    def __repr__(self):
        return "Symbol(%s)" % self.qual

    def __eq__(self, other):
        return isinstance(other, Symbol) and self.qual == other.qual

    def __hash__(self):
        return hash(self.qual)


_BIN = {ast.Add: operator.add, ast.Sub: operator.sub, ast.Mult: operator.mul,
        ast.Mod: operator.mod, ast.FloorDiv: operator.floordiv,
        ast.Div: operator.truediv, ast.Pow: operator.pow}
_CMP = {ast.Eq: operator.eq, ast.NotEq: operator.ne, ast.Lt: operator.lt,
        ast.LtE: operator.le, ast.Gt: operator.gt, ast.GtE: operator.ge,
        ast.In: lambda a, b: a in b, ast.NotIn: lambda a, b: a not in b,
        ast.Is: operator.is_, ast.IsNot: operator.is_not}
_RE_FLAGS = {"X": 64, "VERBOSE": 64, "I": 2, "IGNORECASE": 2, "M": 8,
             "MULTILINE": 8, "S": 16, "DOTALL": 16}
_SAFE_CALLS = {"tuple": tuple, "list": list, "len": len, "sum": sum,
               "max": max, "min": min, "dict": dict, "sorted": sorted,
               "str": str, "int": int, "float": float, "abs": abs,
               "range": lambda *a: list(range(*a)),
               "reversed": lambda x: list(reversed(x)),
               "enumerate": lambda x, *a: list(enumerate(x, *a)),
               "set": set, "frozenset": frozenset, "bool": bool,
               "any": any, "all": all, "divmod": divmod, "round": round,
               "zip": lambda *a: list(zip(*a))}


class Folder:
    def __init__(self, model):
        self.model = model
        self._stack = set()
        self._cache = {}

    # ------------------------------------------------------------ public
    def module_const(self, module, name):
        m = self.model.modules[module] if isinstance(module, str) else module
        key = ("m", m.name, name)
        if key in self._cache:
            return self._cache[key]
        if name not in m.constants:
            raise NotConst("%s.%s is not a module constant" % (m.name, name))
        if key in self._stack:
            raise NotConst("cyclic constant %s" % name)
        self._stack.add(key)
        try:
            v = self.fold(m.constants[name], m, None, {})
        finally:
            self._stack.discard(key)
        self._cache[key] = v
        return v

    def class_const(self, cls, name):
        c = self.model.cls(cls) if isinstance(cls, str) else cls
        owner, node = c.find_attr(name)
        if owner is None:
            raise NotConst("%s.%s is not a class attribute" % (c.name, name))
        key = ("c", owner.qual, name)
        if key in self._cache:
            return self._cache[key]
        if key in self._stack:
            raise NotConst("cyclic constant %s" % name)
        self._stack.add(key)
        try:
            v = self.fold(node, owner.module, owner, {})
            if self._mutated_in_class_body(owner, name):
                v = self._exec_class_body(owner, name)
        finally:
            self._stack.discard(key)
        self._cache[key] = v
        return v

    @staticmethod
    def _mutated_in_class_body(owner, name):
        """Is the class attribute touched again by class-level statements
        (NAME.update(...), NAME[k] = v, NAME += ..., in a class-level loop)?"""
        n_assign = 0
        for st in owner.node.body:
            if isinstance(st, (ast.FunctionDef, ast.AsyncFunctionDef,
                               ast.ClassDef)):
                continue
            if isinstance(st, ast.Assign) and len(st.targets) == 1 and \
                    isinstance(st.targets[0], ast.Name) and \
                    st.targets[0].id == name:
                n_assign += 1
                if n_assign > 1:
                    return True
                continue
            if isinstance(st, (ast.For, ast.Expr, ast.AugAssign, ast.If,
                               ast.Assign)):
                for x in ast.walk(st):
                    if isinstance(x, ast.Name) and x.id == name and (
                            isinstance(st, (ast.For, ast.Expr,
                                            ast.AugAssign)) or
                            isinstance(x.ctx, ast.Store)):
                        par_is_value = isinstance(st, ast.Assign) and \
                            isinstance(x.ctx, ast.Load)
                        if not par_is_value:
                            return True
        return False

    def _exec_class_body(self, owner, name):
        """Partial evaluation of the class-level statements (no defs) up to
        the end of the class body; -> final value of `name`."""
        env = {}
        stmts = [st for st in owner.node.body if not isinstance(
            st, (ast.FunctionDef, ast.AsyncFunctionDef, ast.ClassDef)) and
            not (isinstance(st, ast.Expr) and isinstance(
                st.value, ast.Constant))]
        # only statements that can matter: up to the last one mentioning name
        last = max((i for i, st in enumerate(stmts) if any(
            isinstance(x, ast.Name) and x.id == name for x in ast.walk(st))),
            default=-1)
        exec_block(self, stmts[:last + 1], env, owner.module, None)
        if name not in env:
            raise NotConst("%s not bound by the class body" % name)
        return env[name]

    def need_module_const(self, module, name):
        try:
            return self.module_const(module, name)
        except NotConst as exc:
            raise AnalysisError("table %s.%s does not fold: %s" %
                                (module, name, exc))

    def need_class_const(self, cls, name):
        try:
            return self.class_const(cls, name)
        except NotConst as exc:
            raise AnalysisError("table %s.%s does not fold: %s" %
                                (cls, name, exc))

    # -------------------------------------------------------------- core
    def fold(self, e, module, cls=None, env=None):
        env = env if env is not None else {}
        f = lambda x: self.fold(x, module, cls, env)   # noqa: E731
        if isinstance(e, ast.Constant):
            return e.value
        if isinstance(e, ast.Tuple):
            return tuple(self._seq(e.elts, module, cls, env))
        if isinstance(e, ast.List):
            return list(self._seq(e.elts, module, cls, env))
        if isinstance(e, ast.Set):
            return set(self._seq(e.elts, module, cls, env))
        if isinstance(e, ast.Dict):
            out = {}
            for k, v in zip(e.keys, e.values):
                if k is None:
                    out.update(f(v))
                else:
                    out[f(k)] = f(v)
            return out
        if isinstance(e, ast.Name):
            return self._name(e.id, module, cls, env)
        if isinstance(e, ast.Attribute):
            return self._attr(e, module, cls, env)
        if isinstance(e, ast.BinOp):
            op = _BIN.get(type(e.op))
            if op is None:
                raise NotConst("operator %s" % type(e.op).__name__)
            try:
                return op(f(e.left), f(e.right))
            except NotConst:
                raise
            except Exception as exc:
                raise NotConst("fold error %s in %s" % (exc, U(e)))
        if isinstance(e, ast.UnaryOp):
            v = f(e.operand)
            if isinstance(e.op, ast.USub):
                return -v
            if isinstance(e.op, ast.UAdd):
                return +v
            if isinstance(e.op, ast.Not):
                return not v
            raise NotConst("unary")
        if isinstance(e, ast.BoolOp):
            vals = [f(v) for v in e.values]
            r = vals[0]
            for v in vals[1:]:
                r = (r and v) if isinstance(e.op, ast.And) else (r or v)
            return r
        if isinstance(e, ast.Compare):
            left = f(e.left)
            for op, c in zip(e.ops, e.comparators):
                right = f(c)
                if not _CMP[type(op)](left, right):
                    return False
                left = right
            return True
        if isinstance(e, ast.IfExp):
            return f(e.body) if f(e.test) else f(e.orelse)
        if isinstance(e, ast.Subscript):
            base = f(e.value)
            if isinstance(e.slice, ast.Slice):
                s = e.slice
                return base[slice(f(s.lower) if s.lower else None,
                                  f(s.upper) if s.upper else None,
                                  f(s.step) if s.step else None)]
            try:
                return base[f(e.slice)]
            except NotConst:
                raise
            except Exception as exc:
                raise NotConst("subscript %s: %s" % (U(e), exc))
        if isinstance(e, ast.JoinedStr):
            out = ""
            for v in e.values:
                if isinstance(v, ast.Constant):
                    out += str(v.value)
                elif isinstance(v, ast.FormattedValue):
                    val = f(v.value)
                    spec = f(v.format_spec) if v.format_spec else ""
                    out += format(val, spec)
            return out
        if isinstance(e, (ast.ListComp, ast.SetComp, ast.GeneratorExp,
                          ast.DictComp)):
            return self._comp(e, module, cls, env)
        if isinstance(e, ast.Call):
            return self._call(e, module, cls, env)
        if isinstance(e, ast.Starred):
            raise NotConst("starred outside sequence")
        raise NotConst("cannot fold %s" % type(e).__name__)

    def _seq(self, elts, module, cls, env):
        out = []
        for x in elts:
            if isinstance(x, ast.Starred):
                out.extend(self.fold(x.value, module, cls, env))
            else:
                out.append(self.fold(x, module, cls, env))
        return out

    def _name(self, n, module, cls, env):
        if n in env:
            return env[n]
        if cls is not None:
            owner, node = cls.find_attr(n)
            if owner is not None:
                return self.class_const(cls, n)
        if n in module.constants:
            return self.module_const(module, n)
        if n in ("True", "False", "None"):
            return {"True": True, "False": False, "None": None}[n]
        r = self.model.resolve_name_in_module(module, ast.Name(id=n))
        if isinstance(r, tuple) and r[0] == "const":
            return self.module_const(r[1], r[2])
        if isinstance(r, ClassInfo):
            return Symbol(r.qual)
        if r is not None and hasattr(r, "qual"):
            return Symbol(r.qual)
        if n in ("int", "float", "str", "bool", "list", "dict", "tuple",
                 "set", "len", "abs", "sum", "min", "max"):
            return Symbol("builtins." + n)
        raise NotConst("name %s" % n)

    def _attr(self, e, module, cls, env):
        # self.X / cls.X inside a class; Class.X ; module.X ; operator.eq
        if isinstance(e.value, ast.Name):
            b = e.value.id
            if b in ("self", "cls") and cls is not None:
                return self.class_const(cls, e.attr)
            if b in env and isinstance(env[b], dict) and e.attr in env[b]:
                return env[b][e.attr]
            if b == "operator":
                return Symbol("operator." + e.attr)
            if b == "re" and e.attr in _RE_FLAGS:
                return _RE_FLAGS[e.attr]
        r = self.model.resolve_name_in_module(module, e.value)
        if isinstance(r, ClassInfo):
            owner, node = r.find_attr(e.attr)
            if owner is not None:
                return self.class_const(r, e.attr)
            m = r.find_method(e.attr)
            if m is not None:
                return Symbol(m.qual)
        if isinstance(r, Module):
            if e.attr in r.constants:
                return self.module_const(r, e.attr)
            if e.attr in r.functions:
                return Symbol(r.functions[e.attr].qual)
            if e.attr in r.classes:
                return Symbol(r.classes[e.attr].qual)
        # attribute of a folded value (e.g. op.__name__ on Symbol)
        try:
            base = self.fold(e.value, module, cls, env)
        except NotConst:
            raise NotConst("attribute %s" % U(e))
        if isinstance(base, Symbol) and e.attr == "__name__":
            return base.qual.rsplit(".", 1)[-1]
        raise NotConst("attribute %s" % U(e))

    def _comp(self, e, module, cls, env):
        results = []

        def rec(gens, env2):
            if not gens:
                if isinstance(e, ast.DictComp):
                    results.append((self.fold(e.key, module, cls, env2),
                                    self.fold(e.value, module, cls, env2)))
                else:
                    results.append(self.fold(e.elt, module, cls, env2))
                return
            g = gens[0]
            it = self.fold(g.iter, module, cls, env2)
            if isinstance(it, dict):
                it = list(it)
            for item in it:
                env3 = dict(env2)
                self._bind(g.target, item, env3)
                if all(self.fold(c, module, cls, env3) for c in g.ifs):
                    rec(gens[1:], env3)
        rec(e.generators, dict(env))
        if isinstance(e, ast.DictComp):
            return dict(results)
        if isinstance(e, ast.SetComp):
            return set(results)
        return results

    def _bind(self, target, value, env):
        if isinstance(target, ast.Name):
            env[target.id] = value
        elif isinstance(target, (ast.Tuple, ast.List)):
            vals = list(value)
            if len(vals) != len(target.elts):
                raise NotConst("unpack arity")
            for t, v in zip(target.elts, vals):
                self._bind(t, v, env)
        else:
            raise NotConst("bind target")

    def _call(self, e, module, cls, env):
        fn = U(e.func)
        args = None
        if fn == "re.compile":
            args = [self.fold(a, module, cls, env) for a in e.args]
            flags = args[1] if len(args) > 1 else 0
            for k in e.keywords:
                if k.arg == "flags":
                    flags = self.fold(k.value, module, cls, env)
            return Regex(args[0], flags)
        if fn == "dict.fromkeys" and 1 <= len(e.args) <= 2 and \
                not e.keywords:
            args = [self.fold(a, module, cls, env) for a in e.args]
            return dict.fromkeys(*args)
        if isinstance(e.func, ast.Name) and e.func.id in _SAFE_CALLS \
                and e.func.id not in env:
            args = [self.fold(a, module, cls, env) for a in e.args]
            kw = {k.arg: self.fold(k.value, module, cls, env)
                  for k in e.keywords}
            try:
                return _SAFE_CALLS[e.func.id](*args, **kw)
            except Exception as exc:
                raise NotConst("call %s: %s" % (fn, exc))
        if isinstance(e.func, ast.Attribute):
            # methods of constant str/dict/list values that are pure
            meth = e.func.attr
            if meth in ("format", "join", "lower", "upper", "strip", "split",
                        "splitlines", "replace", "keys", "values", "items",
                        "get", "startswith", "endswith", "lstrip", "rstrip",
                        "copy", "count", "index"):
                try:
                    base = self.fold(e.func.value, module, cls, env)
                except NotConst:
                    raise
                if isinstance(base, (str, dict, list, tuple)):
                    args = [self.fold(a, module, cls, env) for a in e.args]
                    kw = {k.arg: self.fold(k.value, module, cls, env)
                          for k in e.keywords}
                    try:
                        r = getattr(base, meth)(*args, **kw)
                    except Exception as exc:
                        raise NotConst("call %s: %s" % (fn, exc))
                    if meth in ("keys", "values", "items"):
                        r = list(r)
                    return r
        if isinstance(e.func, ast.Name) and e.func.id not in env and \
                module is not None and e.func.id in getattr(
                    module, "functions", {}):
            # a helper of the same module applied to constants: evaluate
            # its body (pure table-building code; anything else is
            # NotConst)
            g = module.functions[e.func.id]
            depth = getattr(self, "_helper_depth", 0)
            if depth < 4 and not any(
                    isinstance(a, ast.Starred) for a in e.args) and \
                    not any(k.arg is None for k in e.keywords):
                args = [self.fold(a, module, cls, env) for a in e.args]
                kw = {k.arg: self.fold(k.value, module, cls, env)
                      for k in e.keywords}
                params = list(g.call_params)
                if len(args) <= len(params) and set(kw) <= set(params):
                    e2 = dict(zip(params, args))
                    e2.update(kw)
                    ok = True
                    for p_ in params:
                        if p_ not in e2:
                            d = g.defaults.get(p_)
                            if d is None:
                                ok = False
                                break
                            e2[p_] = self.fold(d, module, None, {})
                    if ok:
                        body = [st for st in g.node.body if not (
                            isinstance(st, ast.Expr) and isinstance(
                                st.value, ast.Constant))]
                        self._helper_depth = depth + 1
                        try:
                            exec_block(self, body, e2, module, None)
                        except _Return as r:
                            return r.value
                        finally:
                            self._helper_depth = depth
                        return None
        raise NotConst("call %s" % fn)


class _Return(Exception):
    def __init__(self, value):
        self.value = value


class _Break(Exception):
    pass


class _Continue(Exception):
    pass


class ObjEnv(dict):
    """Attribute store of an object under partial evaluation (``self``)."""


def exec_block(folder, stmts, env, module, cls=None, budget=None):
    """Partial evaluation of straight-line configuration code over constants
    (used for Calendar.set_mode with each key of the finite MODES table).
    Supports assignments (names, tuples, attributes of an ObjEnv), if, for
    over constant sequences, augmented assignment and expression statements
    without effect.  Anything else raises NotConst."""
    budget = budget if budget is not None else [20000]

    class F(Folder):
        pass

    def ev(e):
        return _fold_with_objs(folder, e, module, cls, env)

    def assign(t, v):
        if isinstance(t, ast.Name):
            env[t.id] = v
        elif isinstance(t, (ast.Tuple, ast.List)):
            vals = list(v)
            if len(vals) != len(t.elts):
                raise NotConst("unpack arity")
            for a, b in zip(t.elts, vals):
                assign(a, b)
        elif isinstance(t, ast.Attribute) and isinstance(t.value, ast.Name) \
                and isinstance(env.get(t.value.id), ObjEnv):
            env[t.value.id][t.attr] = v
        elif isinstance(t, ast.Subscript) and isinstance(t.value, ast.Name) \
                and isinstance(env.get(t.value.id), (dict, list)):
            env[t.value.id][ev(t.slice)] = v
        else:
            raise NotConst("assignment target %s" % U(t))

    for st in stmts:
        budget[0] -= 1
        if budget[0] < 0:
            raise NotConst("budget exhausted")
        if isinstance(st, ast.Expr):
            if isinstance(st.value, ast.Constant):
                continue
            v0 = st.value
            if isinstance(v0, ast.Call) and isinstance(
                    v0.func, ast.Name) and v0.func.id == "setattr" and \
                    len(v0.args) == 3 and isinstance(
                        v0.args[0], ast.Name) and isinstance(
                            env.get(v0.args[0].id), ObjEnv):
                # setattr(self, <folded name>, <folded value>)
                env[v0.args[0].id][ev(v0.args[1])] = ev(v0.args[2])
                continue
            if isinstance(v0, ast.Call) and isinstance(
                    v0.func, ast.Attribute) and isinstance(
                        v0.func.value, ast.Name) and isinstance(
                            env.get(v0.func.value.id),
                            (dict, list, set)) and v0.func.attr in (
                                "update", "append", "extend", "add",
                                "setdefault", "insert", "remove", "pop",
                                "clear", "sort", "reverse") and \
                    not v0.keywords:
                # a mutator of a local container: applied to the folded value
                args = [ev(a) for a in v0.args]
                getattr(env[v0.func.value.id], v0.func.attr)(*args)
                continue
            try:
                ev(st.value)
            except NotConst:
                # a call for effect on something outside the evaluated state
                # (a module-level logger, say) whose arguments hand over no
                # mutable local cannot change what is being folded
                v = st.value
                if not isinstance(v, ast.Call):
                    raise
                root = v.func
                while isinstance(root, (ast.Attribute, ast.Subscript)):
                    root = root.value
                if not isinstance(root, ast.Name) or root.id in env:
                    raise
                for a in list(v.args) + [k.value for k in v.keywords]:
                    for n in ast.walk(a):
                        if isinstance(n, ast.Name) and isinstance(
                                env.get(n.id), (list, dict, set, ObjEnv)):
                            raise
        elif isinstance(st, ast.Assign):
            v = ev(st.value)
            for t in st.targets:
                assign(t, v)
        elif isinstance(st, ast.AugAssign):
            cur = ev(st.target)
            v = ev(st.value)
            op = _BIN.get(type(st.op))
            if op is None:
                raise NotConst("augassign op")
            assign(st.target, op(cur, v))
        elif isinstance(st, ast.If):
            if ev(st.test):
                exec_block(folder, st.body, env, module, cls, budget)
            else:
                exec_block(folder, st.orelse, env, module, cls, budget)
        elif isinstance(st, ast.For):
            seq = ev(st.iter)
            if isinstance(seq, dict):
                seq = list(seq)
            broke = False
            for item in list(seq):
                assign(st.target, item)
                try:
                    exec_block(folder, st.body, env, module, cls, budget)
                except _Break:
                    broke = True
                    break
                except _Continue:
                    continue
            if not broke:
                exec_block(folder, st.orelse, env, module, cls, budget)
        elif isinstance(st, ast.Return):
            raise _Return(ev(st.value) if st.value is not None else None)
        elif isinstance(st, ast.Break):
            raise _Break()
        elif isinstance(st, ast.Continue):
            raise _Continue()
        elif isinstance(st, ast.Pass):
            continue
        elif isinstance(st, ast.Delete):
            for t in st.targets:
                for x in ast.walk(t):
                    if isinstance(x, ast.Name):
                        env.pop(x.id, None)
        else:
            raise NotConst("statement %s" % type(st).__name__)
    return env


def _fold_with_objs(folder, e, module, cls, env):
    """Folder.fold, with attribute reads on ObjEnv values resolved against
    the object's store first and the class constants second."""
    class Sub(Folder):
        def _attr(self, e2, module2, cls2, env2):
            if isinstance(e2.value, ast.Name) and isinstance(
                    env2.get(e2.value.id), ObjEnv):
                obj = env2[e2.value.id]
                if e2.attr in obj:
                    return obj[e2.attr]
                if cls2 is not None:
                    return self.class_const(cls2, e2.attr)
                raise NotConst("attribute %s unset" % U(e2))
            return Folder._attr(self, e2, module2, cls2, env2)
        def _call(self, e2, module2, cls2, env2):
            if isinstance(e2.func, ast.Name) and e2.func.id == "getattr" \
                    and len(e2.args) == 2 and isinstance(
                        e2.args[0], ast.Name) and isinstance(
                            env2.get(e2.args[0].id), ObjEnv):
                obj = env2[e2.args[0].id]
                nm = self.fold(e2.args[1], module2, cls2, env2)
                if nm in obj:
                    return obj[nm]
                if cls2 is not None:
                    return self.class_const(cls2, nm)
                raise NotConst("attribute %s unset" % nm)
            # a method of the object under evaluation, applied to folded
            # arguments: its body is evaluated on the same object
            if isinstance(e2.func, ast.Attribute) and isinstance(
                    e2.func.value, ast.Name) and isinstance(
                        env2.get(e2.func.value.id), ObjEnv) and \
                    cls2 is not None and e2.func.attr in getattr(
                        cls2, "methods", {}) and not any(
                            k.arg is None for k in e2.keywords):
                g = cls2.methods[e2.func.attr]
                depth = getattr(folder, "_method_depth", 0)
                if depth < 4 and g.self_name:
                    args = []
                    for a in e2.args:
                        if isinstance(a, ast.Starred):
                            args.extend(list(self.fold(
                                a.value, module2, cls2, env2)))
                        else:
                            args.append(self.fold(a, module2, cls2, env2))
                    kw = {k.arg: self.fold(k.value, module2, cls2, env2)
                          for k in e2.keywords}
                    params = list(g.call_params)
                    if len(args) <= len(params) and set(kw) <= set(params):
                        e3 = dict(zip(params, args))
                        e3.update(kw)
                        ok = True
                        for p_ in params:
                            if p_ not in e3:
                                d = g.defaults.get(p_)
                                if d is None:
                                    ok = False
                                    break
                                e3[p_] = self.fold(d, module2, cls2, {})
                        if ok:
                            e3[g.self_name] = env2[e2.func.value.id]
                            body = [st for st in g.node.body if not (
                                isinstance(st, ast.Expr) and isinstance(
                                    st.value, ast.Constant))]
                            folder._method_depth = depth + 1
                            try:
                                exec_block(folder, body, e3, module2, cls2)
                            except _Return as r:
                                return r.value
                            finally:
                                folder._method_depth = depth
                            return None
            return Folder._call(self, e2, module2, cls2, env2)
    sub = Sub(folder.model)
    sub._cache = folder._cache
    return sub.fold(e, module, cls, env)
