"""Analysis context shared by all rules of one run."""
import ast

from .fold import Folder
from .model import AnalysisError, Model, U, short_key, walk_no_nested
from .report import Report
from .resolve import Resolver


class Ctx:
    def __init__(self, model=None):
        self.model = model or Model.load()
        self.rep = Report()
        self.folder = Folder(self.model)
        self._res = None
        self.cache = {}
        self._tcache = {}
        self._ccache = {}
        self._keep = []     # keep synthetic nodes alive (ids are cache keys)

    @property
    def res(self):
        if self._res is None:
            self._res = Resolver(self.model)
        return self._res

    # ----------------------------------------------------------- helpers
    def fkey(self, f, node=None, inst=None):
        """Construct key module:qualified function:normalised text[:inst]."""
        parts = [f.module.name + ".py", f.qual.split(".", 1)[1]]
        if node is not None:
            parts.append(short_key(node))
        if inst is not None:
            parts.append(str(inst))
        return ":".join(parts)

    def mkey(self, module, text, inst=None):
        parts = [module + ".py", text]
        if inst is not None:
            parts.append(str(inst))
        return ":".join(parts)

    def func(self, qual):
        return self.model.func(qual)

    def try_func(self, qual):
        try:
            return self.model.func(qual)
        except AnalysisError:
            return None

    def in_func(self, f, node):
        """Set the resolver's current function (for ad-hoc type queries)."""
        r = self.res
        r._cur, r._curq, r._curmod, r._collect = f, f.qual, f.module, False
        return r

    def types_in(self, f, expr):
        k = (f.qual, id(expr))
        c = self._tcache
        r = c.get(k)
        if r is None:
            r = c[k] = frozenset(self.in_func(f, expr).types(expr))
            self._keep.append(expr)
        return r

    def resolve_call(self, f, call):
        k = (f.qual, id(call))
        c = self._ccache
        r = c.get(k)
        if r is None:
            self.in_func(f, call)
            r = c[k] = self.res._resolve_call(call)
            self._keep.append(call)
        return r
