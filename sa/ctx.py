"""Analysis context shared by all rules of one run."""
import ast

from .fold import Folder
from .model import AnalysisError, Model, U, short_key, walk_no_nested
from .report import Report
from .resolve import Resolver


class Ctx:
    def __init__(self, model=None):
        self.model = model or Model.load()
        self.rep = Report()
        self.folder = Folder(self.model)
        self._res = None
        self.cache = {}
        self._tcache = {}
        self._ccache = {}
        self._keep = []     # keep synthetic nodes alive (ids are cache keys)

    @property
    def res(self):
        if self._res is None:
            self._res = Resolver(self.model)
        return self._res

    # ----------------------------------------------------------- helpers
    def fkey(self, f, node=None, inst=None):
        """Construct key module:qualified function:normalised text[:inst]."""
        parts = [f.module.name + ".py", f.qual.split(".", 1)[1]]
        if node is not None:
            parts.append(short_key(node))
        if inst is not None:
            parts.append(str(inst))
        return ":".join(parts)

    def mkey(self, module, text, inst=None):
        parts = [module + ".py", text]
        if inst is not None:
            parts.append(str(inst))
        return ":".join(parts)

    def func(self, qual):
        return self.model.func(qual)

    def try_func(self, qual):
        try:
            return self.model.func(qual)
        except AnalysisError:
            return None

    def in_func(self, f, node):
        """Set the resolver's current function (for ad-hoc type queries)."""
        r = self.res
        r._cur, r._curq, r._curmod, r._collect = f, f.qual, f.module, False
        return r

    def types_in(self, f, expr):
        k = (f.qual, id(expr))
        c = self._tcache
        r = c.get(k)
        if r is None:
            r = c[k] = frozenset(self.in_func(f, expr).types(expr))
            self._keep.append(expr)
        return r

    def resolve_call(self, f, call):
        k = (f.qual, id(call))
        c = self._ccache
        r = c.get(k)
        if r is None:
            self.in_func(f, call)
            r = c[k] = self.res._resolve_call(call)
            self._keep.append(call)
        return r

    def bound_args(self, f, call):
        """Arguments of a call by the callee's parameter names, whether they
        were passed by position or by keyword: {param: expr}.  Positional
        arguments of an unresolved callee are keyed "#0", "#1", ..."""
        try:
            callees = list(self.resolve_call(f, call)[0])
        except Exception:
            callees = []
        params = None
        for c in callees:
            ps = list(c.call_params)
            if c.name == "__init__" or (c.cls is not None and
                                        c.name == "__new__"):
                ps = list(c.call_params)
            if params is None:
                params = ps
            elif params != ps:
                params = None
                break
        out = {}
        for i, a in enumerate(call.args):
            if isinstance(a, ast.Starred):
                return {k.arg: k.value for k in call.keywords if k.arg}
            if params is not None and i < len(params):
                out[params[i]] = a
            else:
                out["#%d" % i] = a
        for k in call.keywords:
            if k.arg is not None:
                out[k.arg] = k.value
        return out

    def first_arg(self, f, call):
        """The argument bound to the callee's first parameter."""
        if call.args:
            return call.args[0]
        b = self.bound_args(f, call)
        try:
            callees = list(self.resolve_call(f, call)[0])
        except Exception:
            callees = []
        for c in callees:
            if c.call_params and c.call_params[0] in b:
                return b[c.call_params[0]]
        return None

