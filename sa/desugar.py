"""Desugaring of declarative method definitions into plain ``def``s, applied
to the parsed sources before anything else looks at them.

  NAME = functools.partialmethod(METHOD, *args, **kwargs)     (class body)

becomes

  def NAME(self, <remaining parameters>):
      return self.METHOD(*args, <remaining parameters>, **kwargs)

when METHOD is a plain method defined earlier in the same class body whose
parameters are all positional-or-keyword (the usual case: a family of
dunders routed to one worker with a fixed mode argument).  The observable
behaviour is the same (modulo introspection of the function object), and
every rule then sees the method it looks for.
"""
import ast
import copy


def _is_partialmethod(call):
    if not isinstance(call, ast.Call) or not call.args:
        return False
    f = call.func
    name = f.id if isinstance(f, ast.Name) else (
        f.attr if isinstance(f, ast.Attribute) else None)
    return name == "partialmethod" and isinstance(call.args[0], ast.Name)


def desugar_tree(tree):
    n_done = 0
    for cls in [n for n in ast.walk(tree) if isinstance(n, ast.ClassDef)]:
        methods = {}
        new_body = []
        for st in cls.body:
            if isinstance(st, ast.FunctionDef):
                methods[st.name] = st
            if isinstance(st, ast.Assign) and len(st.targets) == 1 and \
                    isinstance(st.targets[0], ast.Name) and \
                    _is_partialmethod(st.value):
                worker = methods.get(st.value.args[0].id)
                d = _expand(st, worker) if worker is not None else None
                if d is not None:
                    methods[d.name] = d
                    new_body.append(d)
                    n_done += 1
                    continue
            new_body.append(st)
        cls.body = new_body
    if n_done:
        ast.fix_missing_locations(tree)
    return n_done


def _expand(st, worker):
    a = worker.args
    if a.vararg or a.kwarg or a.kwonlyargs or a.posonlyargs or \
            worker.decorator_list or not a.args:
        return None
    call = st.value
    if any(isinstance(x, ast.Starred) for x in call.args) or any(
            k.arg is None for k in call.keywords):
        return None
    params = [p.arg for p in a.args]
    selfn, rest = params[0], params[1:]
    fixed_pos = call.args[1:]
    fixed_kw = {k.arg: k.value for k in call.keywords}
    if len(fixed_pos) > len(rest) or not set(fixed_kw) <= set(rest):
        return None
    remaining = [p for p in rest[len(fixed_pos):] if p not in fixed_kw]
    # defaults of the remaining parameters are kept
    n_def = len(a.defaults)
    defaults_of = dict(zip(params[len(params) - n_def:], a.defaults))
    new_args = [ast.arg(arg=selfn)] + [ast.arg(arg=p) for p in remaining]
    new_defaults = []
    seen_default = False
    for p in remaining:
        if p in defaults_of:
            new_defaults.append(copy.deepcopy(defaults_of[p]))
            seen_default = True
        elif seen_default:
            return None
    body_call = ast.Call(
        func=ast.Attribute(value=ast.Name(id=selfn, ctx=ast.Load()),
                           attr=worker.name, ctx=ast.Load()),
        args=[copy.deepcopy(x) for x in fixed_pos],
        keywords=[ast.keyword(arg=p, value=ast.Name(id=p, ctx=ast.Load()))
                  for p in remaining] + [
            ast.keyword(arg=k, value=copy.deepcopy(v))
            for k, v in fixed_kw.items()])
    if not fixed_pos:
        # pass the remaining parameters by position, as a hand-written
        # delegating method would
        n_lead = 0
        for p in rest:
            if p in remaining:
                n_lead += 1
            else:
                break
        lead = remaining[:n_lead]
        body_call.args = [ast.Name(id=p, ctx=ast.Load()) for p in lead]
        body_call.keywords = [k for k in body_call.keywords
                              if k.arg not in lead]
    fn = ast.FunctionDef(
        name=st.targets[0].id,
        args=ast.arguments(posonlyargs=[], args=new_args, vararg=None,
                           kwonlyargs=[], kw_defaults=[], kwarg=None,
                           defaults=new_defaults),
        body=[ast.Return(value=body_call)], decorator_list=[], returns=None,
        type_comment=None)
    if hasattr(ast, "TypeVar"):
        fn.type_params = []
    return ast.copy_location(fn, st)
