"""Desugaring of declarative method definitions into plain ``def``s, applied
to the parsed sources before anything else looks at them.

  NAME = functools.partialmethod(METHOD, *args, **kwargs)     (class body)

becomes

  def NAME(self, <remaining parameters>):
      return self.METHOD(*args, <remaining parameters>, **kwargs)

when METHOD is a plain method defined earlier in the same class body whose
parameters are all positional-or-keyword (the usual case: a family of
dunders routed to one worker with a fixed mode argument).  The observable
behaviour is the same (modulo introspection of the function object), and
every rule then sees the method it looks for.

  NAME = factory(<constants>)                                  (class body)

where ``factory`` is a module-level function that defines one getter and
returns ``property(getter)`` becomes the ``@property def NAME`` it stands
for, with the factory's parameters replaced by the constants.

  x = ... (n := f()) ...   /   if (n := f()): ...

An assignment expression that is the first thing its statement evaluates
(only names and constants before it, not inside a short-circuit operand, a
branch of a conditional expression, a comprehension or a loop test) is
hoisted into an assignment statement of its own.
"""
import ast
import copy


def _is_partialmethod(call):
    if not isinstance(call, ast.Call) or not call.args:
        return False
    f = call.func
    name = f.id if isinstance(f, ast.Name) else (
        f.attr if isinstance(f, ast.Attribute) else None)
    return name == "partialmethod" and isinstance(call.args[0], ast.Name)


def _property_factories(tree):
    """Module-level functions of the form

        def factory(a, b):
            def getter(obj): ...
            return property(getter)

    -> {name: (factory def, getter def)}"""
    out = {}
    for st in tree.body:
        if not isinstance(st, ast.FunctionDef) or st.decorator_list:
            continue
        a = st.args
        if a.vararg or a.kwarg or a.kwonlyargs or a.posonlyargs or \
                a.defaults:
            continue
        body = [x for x in st.body if not (
            isinstance(x, ast.Expr) and isinstance(x.value, ast.Constant))]
        if len(body) == 2 and isinstance(body[0], ast.FunctionDef) and \
                isinstance(body[1], ast.Return) and isinstance(
                    body[1].value, ast.Call) and isinstance(
                        body[1].value.func, ast.Name) and \
                body[1].value.func.id == "property" and len(
                    body[1].value.args) == 1 and not \
                body[1].value.keywords and isinstance(
                    body[1].value.args[0], ast.Name) and \
                body[1].value.args[0].id == body[0].name and \
                len(body[0].args.args) == 1 and not body[0].decorator_list:
            out[st.name] = (st, body[0])
    return out


class _Subst(ast.NodeTransformer):
    def __init__(self, mapping):
        self.mapping = mapping

    def visit_Name(self, node):
        if isinstance(node.ctx, ast.Load) and node.id in self.mapping:
            return ast.copy_location(copy.deepcopy(self.mapping[node.id]),
                                     node)
        return node


def _expand_property(st, factory, getter):
    call = st.value
    params = [p.arg for p in factory.args.args]
    if call.keywords or len(call.args) != len(params) or not all(
            isinstance(x, ast.Constant) for x in call.args):
        return None
    # the getter must not re-bind the factory's parameters
    for n in ast.walk(getter):
        if isinstance(n, ast.Name) and isinstance(
                n.ctx, (ast.Store, ast.Del)) and n.id in params:
            return None
    if getter.args.args[0].arg in params:
        return None
    g = copy.deepcopy(getter)
    g.name = st.targets[0].id
    g.decorator_list = [ast.Name(id="property", ctx=ast.Load())]
    g.body = [_Subst(dict(zip(params, call.args))).visit(x) for x in g.body]
    return ast.copy_location(g, st)


def _pure(e):
    if isinstance(e, (ast.Name, ast.Constant)):
        return True
    if isinstance(e, ast.Attribute):
        return _pure(e.value)
    return False


def _replayable(e):
    """f(<names, fields, constants and arithmetic on them>) with f a plain
    name: an expression that can be evaluated a second time for the same
    value."""
    def simple(x):
        if _pure(x):
            return True
        if isinstance(x, ast.BinOp):
            return simple(x.left) and simple(x.right)
        if isinstance(x, ast.UnaryOp):
            return simple(x.operand)
        return False
    return isinstance(e, ast.Call) and isinstance(e.func, ast.Name) and \
        not e.keywords and all(simple(a) for a in e.args)


def _first_walrus(e):
    """The assignment expression that is evaluated first, unconditionally,
    when e is evaluated - with only names and constants evaluated before
    it - or None."""
    if isinstance(e, ast.NamedExpr):
        inner = _first_walrus(e.value)
        return inner if inner is not None else e
    if isinstance(e, ast.UnaryOp):
        return _first_walrus(e.operand)
    if isinstance(e, ast.BoolOp):
        return _first_walrus(e.values[0])
    if isinstance(e, ast.IfExp):
        return _first_walrus(e.test)
    if isinstance(e, (ast.Attribute, ast.Subscript, ast.Starred)):
        return _first_walrus(e.value)
    seq = None
    if isinstance(e, ast.Compare):
        seq = [e.left] + list(e.comparators)
    elif isinstance(e, ast.BinOp):
        seq = [e.left, e.right]
    elif isinstance(e, ast.Call):
        seq = [e.func] + list(e.args) + [k.value for k in e.keywords]
    elif isinstance(e, (ast.Tuple, ast.List, ast.Set)):
        seq = list(e.elts)
    if seq:
        for x in seq:
            w = _first_walrus(x)
            if w is not None:
                return w
            if not _pure(x):
                return None
    return None


class _ReplaceNode(ast.NodeTransformer):
    def __init__(self, old, new):
        self.old, self.new = old, new

    def visit(self, node):
        if node is self.old:
            return self.new
        return super().visit(node)


def _hoist_walrus(stmts):
    """x = (n := f()) ... / if (n := f()): ...  ->  n = f() first."""
    n_done = 0
    out = []
    for st in stmts:
        for field in ("body", "orelse", "finalbody"):
            sub = getattr(st, field, None)
            if isinstance(sub, list) and sub and isinstance(
                    sub[0], ast.stmt):
                k, new = _hoist_walrus(sub)
                n_done += k
                setattr(st, field, new)
        for h in getattr(st, "handlers", []) or []:
            k, new = _hoist_walrus(h.body)
            n_done += k
            h.body = new
        if isinstance(st, (ast.FunctionDef, ast.ClassDef)):
            out.append(st)
            continue
        if isinstance(st, ast.While):
            # while a > (v := f(x)): body   ->   while a > f(x): v = f(x); body
            # (f a plain function of names, fields and constants: evaluating
            # it again at the top of the body gives the value the test saw)
            for _ in range(4):
                w = _first_walrus(st.test)
                if w is None or not isinstance(w.target, ast.Name) or \
                        not _replayable(w.value):
                    break
                later = [n for x in stmts[stmts.index(st) + 1:]
                         for n in ast.walk(x) if isinstance(n, ast.Name)
                         and n.id == w.target.id]
                if later or st.orelse:
                    break
                _ReplaceNode(w, w.value).visit(st)
                pre = ast.copy_location(ast.Assign(
                    targets=[ast.Name(id=w.target.id, ctx=ast.Store())],
                    value=copy.deepcopy(w.value)), st)
                ast.fix_missing_locations(pre)
                st.body.insert(0, pre)
                n_done += 1
            out.append(st)
            continue
        for _ in range(8):
            e = None
            if isinstance(st, ast.If):
                e = st.test
            elif isinstance(st, (ast.Assign, ast.AugAssign, ast.Return,
                                 ast.Expr, ast.AnnAssign)):
                e = st.value
            w = _first_walrus(e) if e is not None else None
            if w is None or not isinstance(w.target, ast.Name):
                break
            pre = ast.copy_location(ast.Assign(
                targets=[ast.Name(id=w.target.id, ctx=ast.Store())],
                value=w.value), st)
            ast.fix_missing_locations(pre)
            out.append(pre)
            _ReplaceNode(w, ast.copy_location(ast.Name(
                id=w.target.id, ctx=ast.Load()), w)).visit(st)
            n_done += 1
        out.append(st)
    return n_done, out


class _DropLocalAnnotations(ast.NodeTransformer):
    """`x: int = e` inside a function is `x = e`; a bare `x: int` is
    nothing at run time (annotations of locals are not evaluated)."""

    def __init__(self):
        self.n = 0
        self.depth = 0

    def visit_FunctionDef(self, node):
        self.depth += 1
        self.generic_visit(node)
        self.depth -= 1
        return node
    visit_AsyncFunctionDef = visit_FunctionDef

    def visit_ClassDef(self, node):
        d, self.depth = self.depth, 0
        self.generic_visit(node)
        self.depth = d
        return node

    def visit_AnnAssign(self, node):
        if not self.depth or not isinstance(node.target, ast.Name):
            return node
        self.n += 1
        if node.value is None:
            return ast.copy_location(ast.Pass(), node)
        return ast.copy_location(ast.Assign(
            targets=[node.target], value=node.value, type_comment=None),
            node)


def desugar_tree(tree):
    n_done = 0
    ann = _DropLocalAnnotations()
    ann.visit(tree)
    n_done += ann.n
    for fn in [n for n in ast.walk(tree)
               if isinstance(n, (ast.FunctionDef, ast.AsyncFunctionDef))]:
        k, fn.body = _hoist_walrus(fn.body)
        n_done += k
    factories = _property_factories(tree)
    for cls in [n for n in ast.walk(tree) if isinstance(n, ast.ClassDef)]:
        methods = {}
        new_body = []
        for st in cls.body:
            if isinstance(st, ast.FunctionDef):
                methods[st.name] = st
            if isinstance(st, ast.Assign) and len(st.targets) == 1 and \
                    isinstance(st.targets[0], ast.Name) and isinstance(
                        st.value, ast.Call) and isinstance(
                            st.value.func, ast.Name) and \
                    st.value.func.id in factories:
                d = _expand_property(st, *factories[st.value.func.id])
                if d is not None:
                    methods[d.name] = d
                    new_body.append(d)
                    n_done += 1
                    continue
            if isinstance(st, ast.Assign) and len(st.targets) == 1 and \
                    isinstance(st.targets[0], ast.Name) and \
                    _is_partialmethod(st.value):
                worker = methods.get(st.value.args[0].id)
                d = _expand(st, worker) if worker is not None else None
                if d is not None:
                    methods[d.name] = d
                    new_body.append(d)
                    n_done += 1
                    continue
            new_body.append(st)
        cls.body = new_body
    if n_done:
        ast.fix_missing_locations(tree)
    return n_done


def _expand(st, worker):
    a = worker.args
    if a.vararg or a.kwarg or a.kwonlyargs or a.posonlyargs or \
            worker.decorator_list or not a.args:
        return None
    call = st.value
    if any(isinstance(x, ast.Starred) for x in call.args) or any(
            k.arg is None for k in call.keywords):
        return None
    params = [p.arg for p in a.args]
    selfn, rest = params[0], params[1:]
    fixed_pos = call.args[1:]
    fixed_kw = {k.arg: k.value for k in call.keywords}
    if len(fixed_pos) > len(rest) or not set(fixed_kw) <= set(rest):
        return None
    remaining = [p for p in rest[len(fixed_pos):] if p not in fixed_kw]
    # defaults of the remaining parameters are kept
    n_def = len(a.defaults)
    defaults_of = dict(zip(params[len(params) - n_def:], a.defaults))
    new_args = [ast.arg(arg=selfn)] + [ast.arg(arg=p) for p in remaining]
    new_defaults = []
    seen_default = False
    for p in remaining:
        if p in defaults_of:
            new_defaults.append(copy.deepcopy(defaults_of[p]))
            seen_default = True
        elif seen_default:
            return None
    body_call = ast.Call(
        func=ast.Attribute(value=ast.Name(id=selfn, ctx=ast.Load()),
                           attr=worker.name, ctx=ast.Load()),
        args=[copy.deepcopy(x) for x in fixed_pos],
        keywords=[ast.keyword(arg=p, value=ast.Name(id=p, ctx=ast.Load()))
                  for p in remaining] + [
            ast.keyword(arg=k, value=copy.deepcopy(v))
            for k, v in fixed_kw.items()])
    if not fixed_pos:
        # pass the remaining parameters by position, as a hand-written
        # delegating method would
        n_lead = 0
        for p in rest:
            if p in remaining:
                n_lead += 1
            else:
                break
        lead = remaining[:n_lead]
        body_call.args = [ast.Name(id=p, ctx=ast.Load()) for p in lead]
        body_call.keywords = [k for k in body_call.keywords
                              if k.arg not in lead]
    fn = ast.FunctionDef(
        name=st.targets[0].id,
        args=ast.arguments(posonlyargs=[], args=new_args, vararg=None,
                           kwonlyargs=[], kw_defaults=[], kwarg=None,
                           defaults=new_defaults),
        body=[ast.Return(value=body_call)], decorator_list=[], returns=None,
        type_comment=None)
    if hasattr(ast, "TypeVar"):
        fn.type_params = []
    return ast.copy_location(fn, st)
