"""Rules added after the first round of independently seeded changes:
R35 FRACTION-DIGITS (C08), R36 NONE-VS-ZERO (C07, C09), R37 SHARED-CONFIG
(C07, C16), R38 ZONE-SIGN-CONSUMERS (C06, C07)."""
import ast
import re

from ..model import npos, AnalysisError, U, walk_no_nested, parent, ancestors
from .tablerules import tables_of


# ------------------------------------------------------------------- R35
FIXED_FRAC = re.compile(r"%0?\.\d+f|\{[^}]*:\.?0?\.\d+f\}|%0\d+d")


def r35_fraction_digits(ctx):
    """The writer of decimal fractions renders a fixed number of digits
    after the decimal point *before* stripping trailing zeros, so that
    leading zeros of the fraction (0.05 -> '05') survive: the reader turns
    ',05' back into 0.05, while ',5' would be 0.5."""
    rep = ctx.rep
    rule = "R35.fraction-digits"
    rep.need_anchor(rule, "fraction writers")
    tp = ctx.model.cls("TimePoint")
    f = tp.methods.get("_decimal_string")
    if f is None:
        raise AnalysisError("TimePoint._decimal_string not found")
    rep.anchor(rule, "fraction writers")
    problems = []
    nonconst = [r for r in walk_no_nested(f.node) if isinstance(r, ast.Return)
                and not isinstance(r.value, ast.Constant)]
    fixed = False
    for n in walk_no_nested(f.node):
        if isinstance(n, ast.Constant) and isinstance(n.value, str) and \
                FIXED_FRAC.search(n.value):
            fixed = True
        if isinstance(n, ast.Call) and U(n.func) == "format" and \
                len(n.args) == 2 and isinstance(n.args[1], ast.Constant) and \
                re.fullmatch(r"\.?0?\.\d+f", str(n.args[1].value)):
            fixed = True
        if isinstance(n, ast.Call) and isinstance(n.func, ast.Attribute) and \
                n.func.attr == "zfill":
            fixed = True
        if isinstance(n, ast.JoinedStr):
            for v in n.values:
                if isinstance(v, ast.FormattedValue) and v.format_spec and \
                        re.search(r"\.\d+f|0\d+d", U(v.format_spec)):
                    fixed = True
    int_str = [n for n in walk_no_nested(f.node) if isinstance(n, ast.Call)
               and U(n.func) == "str" and n.args and isinstance(
                   n.args[0], ast.Call) and U(n.args[0].func) in (
                       "int", "round")]
    if nonconst and not fixed:
        problems.append("no fixed-precision format (%0.Nf / %0Nd / zfill) "
                        "pads the fraction")
    if int_str and not fixed:
        problems.append("the digits come from %s, which drops leading zeros"
                        % U(int_str[0])[:50])
    # no return path may yield an empty string
    from ..flow import path_conds

    def truthy_known(name, conds):
        for t, pol in conds:
            if isinstance(t, ast.Name) and t.id == name and pol:
                return True
            if isinstance(t, ast.UnaryOp) and isinstance(
                    t.op, ast.Not) and isinstance(
                        t.operand, ast.Name) and t.operand.id == name and \
                    not pol:
                return True
        return False
    for r in nonconst:
        leaves = []
        todo = [(r.value, path_conds(r))]
        while todo:
            v, conds = todo.pop()
            if isinstance(v, ast.IfExp):
                todo.append((v.body, [(v.test, True)] + conds))
                todo.append((v.orelse, [(v.test, False)] + conds))
            else:
                leaves.append((v, conds))
        guarded = True
        for v, conds in leaves:
            if isinstance(v, ast.Constant):
                if not v.value:
                    guarded = False
            elif isinstance(v, ast.Name):
                if not truthy_known(v.id, conds):
                    guarded = False
            elif isinstance(v, ast.BoolOp) and isinstance(v.op, ast.Or) and \
                    isinstance(v.values[-1], ast.Constant) and \
                    v.values[-1].value:
                pass
            else:
                guarded = False
        if not guarded:
            problems.append("a returned fraction string may be empty")
    rep.check(not problems, rule, ctx.fkey(f, None, "fixed-width"), f.loc(),
              "fractions are rendered with a fixed number of digits, then "
              "right-stripped, never empty",
              "TimePoint._decimal_string: %s (0.05 would be written as the "
              "digits of 0.5)" % "; ".join(problems), ("C08", "C07"))


# ------------------------------------------------------------------- R36
def _min_bounds(ctx):
    """slot -> minimal legal value read off the _bounds_checker calls."""
    out = {}
    for q in ("data.TimePoint._check_bounds", "data.TimeZone.__init__"):
        f = ctx.try_func(q)
        if f is None:
            continue
        for c in walk_no_nested(f.node):
            if isinstance(c, ast.Call) and U(c.func) == "_bounds_checker" \
                    and c.args:
                kw = {k.arg: k.value for k in c.keywords}
                mn = kw.get("min_val") or (c.args[2] if len(c.args) > 2
                                           else None)
                name = U(c.args[0]).split(".")[-1].lstrip("_")
                if isinstance(mn, ast.Constant):
                    out[name] = mn.value
                elif isinstance(mn, ast.UnaryOp):
                    out[name] = -1
                else:
                    out[name] = -1      # variable lower bound (zone minutes)
    return out


def r36_none_vs_zero(ctx):
    """A numeric constructor argument whose default is None and for which 0
    is a legal value must be tested with `is None`, never by truthiness:
    `not (hour or minute)` confuses 'not given' with 'zero' (+00:00)."""
    rep = ctx.rep
    rule = "R36.none-vs-zero"
    rep.need_anchor(rule, "nullable zero-valid arguments")
    mins = _min_bounds(ctx)
    for cname in ("TimePoint", "TimeZone"):
        c = ctx.model.cls(cname)
        f = c.methods.get("__init__")
        if f is None:
            continue
        nullable = []
        for p in f.call_params:
            d = f.defaults.get(p)
            if isinstance(d, ast.Constant) and (d.value is None or (
                    cname == "TimeZone" and d.value == 0 and p in (
                        "hours", "minutes"))):
                base = p
                if p.startswith("time_zone_"):
                    zero_ok = True
                elif p in ("hours", "minutes"):
                    zero_ok = True
                elif p.endswith("_decimal"):
                    zero_ok = True
                elif base in mins:
                    zero_ok = mins[base] <= 0
                elif p == "year":
                    zero_ok = True
                else:
                    continue
                if zero_ok:
                    nullable.append(p)
        slots = {"_" + p for p in nullable}
        for p in nullable:
            rep.anchor(rule, "nullable zero-valid arguments")
        bad = []

        def truthy_uses(e):
            """Names / self slots used directly in boolean context."""
            out = []
            if isinstance(e, ast.BoolOp):
                for v in e.values:
                    out.extend(truthy_uses(v))
            elif isinstance(e, ast.UnaryOp) and isinstance(e.op, ast.Not):
                out.extend(truthy_uses(e.operand))
            elif isinstance(e, ast.Name):
                out.append((e.id, e))
            elif isinstance(e, ast.Attribute) and isinstance(
                    e.value, ast.Name) and e.value.id == f.self_name:
                out.append((e.attr, e))
            elif isinstance(e, ast.Call) and U(e.func) == "bool" and e.args:
                out.extend(truthy_uses(e.args[0]))
            return out
        for n in walk_no_nested(f.node):
            tests = []
            if isinstance(n, (ast.If, ast.While, ast.IfExp)):
                tests.append(n.test)
            if isinstance(n, ast.BoolOp):
                tests.append(n)
            if isinstance(n, ast.UnaryOp) and isinstance(n.op, ast.Not):
                tests.append(n)
            if isinstance(n, ast.Call) and U(n.func) == "bool":
                tests.append(n)
            for t in tests:
                for name, node in truthy_uses(t):
                    if name in nullable or name in slots:
                        bad.append((name, node))
        seen = set()
        for name, node in bad:
            if (name, node.lineno) in seen:
                continue
            seen.add((name, node.lineno))
            rep.violation(
                rule, ctx.fkey(f, None, "truthiness:" + name), f.loc(node),
                "%s tests `%s` by truthiness; its default is None but 0 is a "
                "legal value, so 'zero' is taken for 'not given' (e.g. a "
                "+00:00 zone on a truncated point becomes an unknown zone)"
                % (f.qual, name), ("C07", "C09", "C20", "C08"))
        if not bad:
            rep.ok(rule, ctx.fkey(f, None, "is-none-tests"), f.loc(),
                   "%d nullable arguments for which zero is legal (%s) are "
                   "never tested by truthiness" % (len(nullable),
                                                   ", ".join(nullable)),
                   ("C07", "C09", "C20", "C08"))
    _r36_slot_truthiness(ctx, mins)
    _r36_year_truthiness(ctx)
    _r36_default_only_when_missing(ctx)


def _r36_slot_truthiness(ctx, mins):
    """Outside the constructors too: a stored field for which 0 is a legal
    value (hour 00, minute 00, second 00, year 0, a +00 zone component) is
    never read by truthiness in TimePoint / TimeZone code - neither by name
    nor through a computed getattr() over the slots."""
    rep = ctx.rep
    rule = "R36.none-vs-zero"
    zero_ok = {"_" + k for k, v in mins.items() if v <= 0} | {"_year"}
    zero_ok -= {"_truncated", "_unknown"}
    tp = ctx.model.cls("TimePoint")
    n_f = 0
    bad = []

    def tp_object(f, e):
        if isinstance(e, ast.Name) and e.id == f.self_name:
            return True
        return "TimePoint" in ctx.types_in(f, e)

    for name, f in sorted(tp.methods.items()):
        if name == "__init__":
            continue
        n_f += 1
        dyn = {}        # local name -> getattr call over a TimePoint object
        for n in walk_no_nested(f.node):
            if isinstance(n, ast.Assign) and len(n.targets) == 1 and \
                    isinstance(n.targets[0], ast.Name) and isinstance(
                        n.value, ast.Call) and U(n.value.func) == "getattr" \
                    and len(n.value.args) >= 2 and not isinstance(
                        n.value.args[1], ast.Constant) and tp_object(
                            f, n.value.args[0]):
                dyn[n.targets[0].id] = n.value

        def uses(e):
            out = []
            if isinstance(e, ast.BoolOp):
                for v in e.values:
                    out.extend(uses(v))
            elif isinstance(e, ast.UnaryOp) and isinstance(e.op, ast.Not):
                out.extend(uses(e.operand))
            elif isinstance(e, ast.Call) and U(e.func) == "bool" and e.args:
                out.extend(uses(e.args[0]))
            elif isinstance(e, ast.Attribute) and e.attr in zero_ok and \
                    tp_object(f, e.value):
                out.append((e, "the field %s" % U(e)))
            elif isinstance(e, ast.Name) and e.id in dyn:
                out.append((e, "`%s` (= %s, any stored field)" % (
                    e.id, U(dyn[e.id]))))
            elif isinstance(e, ast.Call) and U(e.func) == "getattr" and \
                    len(e.args) >= 2 and not isinstance(
                        e.args[1], ast.Constant) and tp_object(f, e.args[0]):
                out.append((e, "%s (any stored field)" % U(e)))
            return out
        for n in walk_no_nested(f.node):
            tests = []
            if isinstance(n, (ast.If, ast.While, ast.IfExp)):
                tests.append(n.test)
            elif isinstance(n, ast.BoolOp):
                tests.append(n)
            elif isinstance(n, ast.UnaryOp) and isinstance(n.op, ast.Not):
                tests.append(n)
            elif isinstance(n, ast.comprehension):
                tests.extend(n.ifs)
            for t in tests:
                for x, what in uses(t):
                    bad.append((f, x, what))
    seen = set()
    for f, x, what in bad:
        k = (f.qual, U(x))
        if k in seen:
            continue
        seen.add(k)
        rep.violation(
            rule, ctx.fkey(f, None, "field-truthiness:" + U(x)), f.loc(x),
            "%s tests %s by truthiness: 0 is a legal value there (hour 00, "
            "minute 00, second 00, year 0), so a field that is zero is taken "
            "for one that is absent" % (f.qual, what),
            ("C07", "C09", "C20", "C08", "C01"))
    if not bad:
        rep.ok(rule, "data.py:TimePoint:fields-never-truthy", "-",
               "no zero-legal stored field (%s) is read by truthiness in %d "
               "TimePoint methods" % (", ".join(sorted(zero_ok)), n_f),
               ("C07", "C09", "C20", "C08"))


def _r36_default_only_when_missing(ctx):
    """A constructor fills in a default only for a field that was not
    given: `if x is None: x = 1`.  Written as `if not x: x = 1` a given but
    impossible 0 (week 0, month 0, day 0) is silently replaced by the
    default instead of reaching the bounds check."""
    rep = ctx.rep
    rule = "R36.none-vs-zero"
    P = ("C09", "C07")
    bad = []
    n_defaults = 0
    for cname in ("TimePoint", "Duration", "TimeZone"):
        c = ctx.model.cls(cname)
        f = c.methods.get("__init__")
        if f is None:
            continue
        numeric = {p for p in f.call_params if not p.startswith((
            "dump_format", "truncated_dump", "truncated_property"))}
        for n in walk_no_nested(f.node):
            if not isinstance(n, ast.If):
                continue
            for st in n.body:
                if not (isinstance(st, ast.Assign) and len(
                        st.targets) == 1 and isinstance(
                            st.value, ast.Constant) and isinstance(
                                st.value.value, (int, float)) and
                        not isinstance(st.value.value, bool)):
                    continue
                t = st.targets[0]
                name = t.id if isinstance(t, ast.Name) else (
                    t.attr.lstrip("_") if isinstance(t, ast.Attribute)
                    else None)
                if name not in numeric:
                    continue
                tgt = U(t)
                # is the test about this very field?
                truthy = []

                def walk(e, neg):
                    if isinstance(e, ast.UnaryOp) and isinstance(
                            e.op, ast.Not):
                        walk(e.operand, not neg)
                    elif isinstance(e, ast.BoolOp):
                        for v in e.values:
                            walk(v, neg)
                    elif U(e) == tgt:
                        truthy.append(e)
                walk(n.test, False)
                n_defaults += 1
                if truthy:
                    bad.append((f, n, tgt, st))
    for f, n, tgt, st in bad:
        rep.violation(
            rule, ctx.fkey(f, n, "default-by-truthiness:" + tgt), f.loc(n),
            "%s fills in the default `%s` under the truthiness test `%s`: a "
            "value that was given as 0 is replaced as if it were missing, "
            "so an impossible 0 (week 0, day 0) is accepted as the default "
            "instead of being refused by the bounds check" % (
                f.qual, U(st), U(n.test)[:60]), P)
    if not bad:
        rep.ok(rule, "data.py:constructors:defaults-only-when-missing", "-",
               "no constructor default is filled in under a truthiness "
               "test of the field (%d defaulting statements looked at)" %
               n_defaults, P)


def _only_boolean(f, name):
    from ..flow import alternatives

    def boolish(e):
        if isinstance(e, ast.Compare):
            return True
        if isinstance(e, ast.UnaryOp) and isinstance(e.op, ast.Not):
            return True
        if isinstance(e, ast.BoolOp):
            return all(boolish(v) for v in e.values)
        if isinstance(e, ast.Constant) and isinstance(e.value, bool):
            return True
        if isinstance(e, ast.Call):
            fn = U(e.func).split(".")[-1]
            return fn.startswith(("get_is_", "is_", "has_")) or fn in (
                "isinstance", "bool", "any", "all", "startswith",
                "endswith", "search", "match")
        return False
    alts = alternatives(f.node, name)
    return bool(alts) and all(boolish(v) for v, _ in alts)


def _r36_year_truthiness(ctx):
    """Year 0 is a year (and a leap one): a year - a parameter or local
    called `year` / `*_year`, or a `_year` slot - is never tested by
    truthiness anywhere in the data model."""
    rep = ctx.rep
    rule = "R36.none-vs-zero"
    bad = []
    n_f = 0

    def is_year(e):
        if isinstance(e, ast.Name):
            # (`expanded_year` is the captured digit *string* of the
            # expanded-year field, not a year)
            return (e.id == "year" or e.id.endswith("_year")) and \
                "expanded" not in e.id
        if isinstance(e, ast.Attribute):
            return e.attr in ("_year", "year")
        return False

    def uses(e):
        out = []
        if isinstance(e, ast.BoolOp):
            for v in e.values:
                out.extend(uses(v))
        elif isinstance(e, ast.UnaryOp) and isinstance(e.op, ast.Not):
            out.extend(uses(e.operand))
        elif is_year(e):
            out.append(e)
        elif isinstance(e, ast.Call) and U(e.func) == "bool" and e.args:
            out.extend(uses(e.args[0]))
        return out
    for f in ctx.model.all_functions():
        if f.module.name not in ("data", "parsers", "dumpers"):
            continue
        n_f += 1
        for n in walk_no_nested(f.node):
            tests = []
            if isinstance(n, (ast.If, ast.While, ast.IfExp)):
                tests.append(n.test)
            elif isinstance(n, ast.BoolOp):
                tests.append(n)
            elif isinstance(n, ast.UnaryOp) and isinstance(n.op, ast.Not):
                tests.append(n)
            for t in tests:
                for x in uses(t):
                    # flags like is_leap_year / has_year are booleans
                    if isinstance(x, ast.Name) and x.id.startswith(
                            ("is_", "has_")):
                        continue
                    # ... and so is any local that is only ever bound to
                    # a test (a comparison, and/or/not, a predicate call)
                    if isinstance(x, ast.Name) and _only_boolean(f, x.id):
                        continue
                    bad.append((f, x))
    seen = set()
    for f, x in bad:
        k = (f.qual, U(x))
        if k in seen:
            continue
        seen.add(k)
        rep.violation(
            rule, ctx.fkey(f, None, "year-truthiness:" + U(x)), f.loc(x),
            "%s tests the year `%s` by truthiness: year 0 (a leap year of "
            "the proleptic calendar) is taken for 'no year'" % (
                f.qual, U(x)), ("C03", "C09", "C01", "C05", "C07"))
    if not bad:
        rep.ok(rule, "data.py:years:never-truthy", "-",
               "no year value is tested by truthiness (%d functions)" % n_f,
               ("C03", "C09"))


# ------------------------------------------------------------------- R37
def r37_shared_config(ctx):
    """Parser / dumper / operator instances carry their own configuration:
    no class-level mutable container is written at run time (a cache shared
    between instances would have to be keyed on the whole configuration),
    and configuration attributes are written only in __init__."""
    rep = ctx.rep
    rule = "R37.shared-config"
    rep.need_anchor(rule, "configurable classes")
    for cname in ("TimePointParser", "DurationParser",
                  "TimeRecurrenceParser", "TimePointDumper",
                  "DateTimeOperator"):
        if not ctx.model.has_cls(cname):
            rep.error("R37", "class %s not found" % cname)
            continue
        c = ctx.model.cls(cname)
        rep.anchor(rule, "configurable classes")
        mutable_attrs = {a for a, v in c.attrs.items()
                         if isinstance(v, (ast.Dict, ast.List, ast.Set)) or (
                             isinstance(v, ast.Call) and U(v.func) in (
                                 "dict", "list", "set", "defaultdict"))}
        init = c.methods.get("__init__")
        config = set()
        if init is not None:
            for n in walk_no_nested(init.node):
                if isinstance(n, ast.Assign) and isinstance(
                        n.targets[0], ast.Attribute) and isinstance(
                            n.value, ast.Name) and \
                        n.value.id in init.params and \
                        U(n.targets[0].value) == init.self_name:
                    config.add(n.targets[0].attr)
        problems = []
        for name, f in c.methods.items():
            selfn = f.self_name or (f.params[0] if f.params else None)
            for n in walk_no_nested(f.node):
                tg = []
                if isinstance(n, ast.Assign):
                    tg = n.targets
                elif isinstance(n, ast.AugAssign):
                    tg = [n.target]
                for t in tg:
                    base = t.value if isinstance(t, ast.Subscript) else None
                    if base is not None and isinstance(
                            base, ast.Attribute) and \
                            base.attr in mutable_attrs:
                        problems.append(
                            (f, n, "writes the class-level container %s, "
                             "shared by every %s instance whatever its "
                             "configuration (%s)" % (
                                 base.attr, cname, ", ".join(sorted(config))
                                 or "-")))
                    if isinstance(t, ast.Attribute) and isinstance(
                            t.value, ast.Name) and t.value.id == selfn and \
                            t.attr in config and name != "__init__":
                        problems.append(
                            (f, n, "rewrites the configuration attribute "
                             "%s outside __init__" % t.attr))
                if isinstance(n, ast.Call) and isinstance(
                        n.func, ast.Attribute) and n.func.attr in (
                            "append", "update", "setdefault", "extend",
                            "add", "clear", "pop") and isinstance(
                                n.func.value, ast.Attribute) and \
                        n.func.value.attr in mutable_attrs:
                    problems.append(
                        (f, n, "mutates the class-level container %s" %
                         n.func.value.attr))
        for f, n, why in problems:
            rep.violation(rule, ctx.fkey(f, n, "shared-state"), f.loc(n),
                          "%s %s: a parser built with one configuration "
                          "changes what another one accepts" % (f.qual, why),
                          ("C07", "C16", "C08"))
        if not problems:
            rep.ok(rule, ctx.mkey(c.module.name, cname + ":own-config"),
                   c.module.loc(c.node),
                   "%s holds no class-level mutable state; configuration "
                   "(%s) is written in __init__ only" % (
                       cname, ", ".join(sorted(config)) or "none"),
                   ("C07", "C16", "C08"), nontrivial=False)


# ------------------------------------------------------------------- R38
def r38_zone_sign_consumers(ctx):
    """Every function that turns a zone-regex match into (hour, minute)
    numbers either routes it through process_time_zone_info (verified by
    R26.sign-parse) or, under the '-' sign, negates *both* numbers in the
    same branch - never the minutes under a test of the hour's value, which
    loses the sign of -00:mm."""
    rep = ctx.rep
    rule = "R38.zone-sign-consumer"
    rep.need_anchor(rule, "zone-match consumers")
    ptz = ctx.func("parsers.TimePointParser.process_time_zone_info")
    for f in ctx.model.all_functions():
        if f is ptz:
            continue
        reads = [n for n in walk_no_nested(f.node)
                 if isinstance(n, ast.Constant) and n.value in (
                     "time_zone_hour", "time_zone_minute") and isinstance(
                         parent(n), (ast.Call, ast.Subscript)) and not (
                             isinstance(parent(parent(n)), ast.Assign) and
                             parent(n) in parent(parent(n)).targets)]
        gets_match = any(isinstance(n, ast.Call) and isinstance(
            n.func, ast.Attribute) and n.func.attr == "get_time_zone_info"
            for n in walk_no_nested(f.node))
        if not reads or not gets_match:
            continue
        rep.anchor(rule, "zone-match consumers")
        routed = any(isinstance(n, ast.Call) and isinstance(
            n.func, ast.Attribute) and n.func.attr == "process_time_zone_info"
            for n in walk_no_nested(f.node))
        # the routing call must precede the reads
        if routed:
            call_line = min(npos(n) for n in walk_no_nested(f.node)
                            if isinstance(n, ast.Call) and isinstance(
                                n.func, ast.Attribute) and n.func.attr ==
                            "process_time_zone_info")
            routed = all(npos(r) > call_line for r in reads
                         if isinstance(parent(r), ast.Call) and
                         U(parent(r).func).endswith(".get"))
        own = False
        why = "the match is read without process_time_zone_info"
        for n in walk_no_nested(f.node):
            if isinstance(n, ast.If) and "time_zone_sign" in U(n.test) and \
                    "'-'" in U(n.test):
                negs = [s for s in n.body if isinstance(s, ast.Assign) and
                        isinstance(s.value, ast.UnaryOp) and isinstance(
                            s.value.op, ast.USub)]
                own = len(negs) >= 2
                why = "under the '-' sign only %s is negated in that " \
                    "branch" % [U(s.targets[0]) for s in negs]
        props = ("C06", "C07", "C08")
        rep.check(routed or own, rule, ctx.fkey(f, None, "sign-applied"),
                  f.loc(), "the zone match is signed by "
                  "process_time_zone_info before hour/minute are read"
                  if routed else "both numbers are negated under '-'",
                  "%s converts a zone match to numbers itself: %s; a "
                  "negative zone with zero hours (-00:30) keeps positive "
                  "minutes" % (f.qual, why), props)


def _r38_minutes_signed_by_hours(ctx, rep):
    """The sign of an offset is a property of the pair: -00:30 has zero
    hours and negative minutes.  Nowhere is the sign of a minute number
    decided by testing the *value* of the hour number."""
    from ..flow import zero_relation
    rule = "R38.zone-sign-consumer"
    for f in ctx.model.all_functions():
        for n in walk_no_nested(f.node):
            if not isinstance(n, (ast.If, ast.IfExp)):
                continue
            t = n.test
            pol = True
            if isinstance(t, ast.UnaryOp) and isinstance(t.op, ast.Not):
                t, pol = t.operand, False
            r = zero_relation(t, pol)
            if r is None or "hour" not in r[0].lower() or r[1] not in (
                    "<", ">", "<=", ">="):
                continue
            if isinstance(n, ast.IfExp):
                continue
            hits = []
            for st in list(n.body) + list(n.orelse):
                for a in ast.walk(st):
                    tgt = val = None
                    if isinstance(a, ast.Assign) and len(a.targets) == 1:
                        tgt, val = a.targets[0], a.value
                    elif isinstance(a, ast.AugAssign) and isinstance(
                            a.op, ast.Mult):
                        tgt, val = a.target, a.value
                    if tgt is None or "minute" not in U(tgt).lower():
                        continue
                    signs = any(
                        (isinstance(x, ast.UnaryOp) and isinstance(
                            x.op, ast.USub) and not isinstance(
                                x.operand, ast.Constant)) or
                        (isinstance(x, ast.Call) and U(x.func) == "abs")
                        for x in ast.walk(val)) or (
                            isinstance(a, ast.AugAssign) and U(val) in (
                                "-1", "(-1)"))
                    if signs:
                        hits.append(U(a)[:50])
            if hits:
                rep.violation(
                    rule, ctx.fkey(f, n, "minutes-by-hour-value"),
                    f.loc(n),
                    "%s gives the minutes their sign (%s) under a test of "
                    "the hour number's value (`%s`): an offset with zero "
                    "hours and negative minutes (-00:30) has no negative "
                    "hour to test, so its minutes come out positive" % (
                        f.qual, "; ".join(hits), U(n.test)[:50]),
                    ("C06", "C07", "C08", "C18"))


_r38_orig = r38_zone_sign_consumers


def r38_zone_sign_consumers(ctx):      # noqa: F811
    _r38_orig(ctx)
    _r38_minutes_signed_by_hours(ctx, ctx.rep)


RULES = {"R35": r35_fraction_digits, "R36": r36_none_vs_zero,
         "R37": r37_shared_config, "R38": r38_zone_sign_consumers}


# ------------------------------------------------------------------- R39
MAGIC = {7, 12, 24, 28, 29, 30, 31, 52, 53, 60, 360, 365, 366, 1440, 3600,
         86400}


def r39_no_magic_lengths(ctx):
    """Calendar computations take month/year/week lengths and radices from
    the Calendar singleton (so that they follow the active mode), never from
    literals: a literal 31 or 12 is right for one calendar only."""
    rep = ctx.rep
    rule = "R39.no-magic-lengths"
    rep.need_anchor(rule, "calendar functions")
    m = ctx.model.modules["data"]
    n_funcs = 0
    for f in ctx.model.all_functions():
        if f.module is not m:
            continue
        if f.cls is not None and f.cls.name == "Calendar":
            continue
        n_funcs += 1
        hits = []
        for n in walk_no_nested(f.node):
            if isinstance(n, ast.Constant) and isinstance(n.value, int) and \
                    not isinstance(n.value, bool) and n.value in MAGIC:
                p = parent(n)
                # keyword defaults / docstrings are not computations
                if isinstance(p, ast.keyword) and p.arg in ("maxsize",):
                    continue
                hits.append(n)
        for n in hits:
            rep.violation(
                rule, ctx.fkey(f, None, "literal:%s" % n.value), f.loc(n),
                "%s computes with the literal %d; month, year and week "
                "lengths and the time radices must come from the Calendar "
                "singleton so that they follow the active calendar mode "
                "(a December of 31 days or a year of 12x31... is right for "
                "one calendar only)" % (f.qual, n.value),
                ("C03", "C15", "C01"))
    # the number of weeks of a week-year is *counted* from the year lengths
    # of the active calendar (the distance between two week-year starts): a
    # constant, or the count pushed through min()/max(), is one calendar's
    # answer given to all of them (a 360-day year has 51 weeks more often
    # than not)
    g = ctx.try_func("data._get_weeks_in_year")
    if g is not None:
        from ..flow import expand_values

        def contributors(e):
            names = {n.id for n in ast.walk(e) if isinstance(n, ast.Name)}
            calls = {U(n.func) for n in ast.walk(e)
                     if isinstance(n, ast.Call)}
            seen = set()
            while names - seen:
                nm = (names - seen).pop()
                seen.add(nm)
                for st in walk_no_nested(g.node):
                    tg = None
                    if isinstance(st, ast.Assign):
                        tg = st.targets
                    elif isinstance(st, ast.AugAssign):
                        tg = [st.target]
                    elif isinstance(st, ast.For):
                        if any(isinstance(x, ast.Name) and x.id == nm
                               for x in ast.walk(st.target)):
                            names |= {n.id for n in ast.walk(st.iter)
                                      if isinstance(n, ast.Name)}
                            calls |= {U(n.func) for n in ast.walk(st.iter)
                                      if isinstance(n, ast.Call)}
                        continue
                    if tg and any(isinstance(x, ast.Name) and x.id == nm
                                  for t in tg for x in ast.walk(t)):
                        names |= {n.id for n in ast.walk(st.value)
                                  if isinstance(n, ast.Name)}
                        calls |= {U(n.func) for n in ast.walk(st.value)
                                  if isinstance(n, ast.Call)}
            return calls
        for r in walk_no_nested(g.node):
            if not (isinstance(r, ast.Return) and r.value is not None):
                continue
            for leaf, _c in expand_values(g.node, r.value):
                own_calls = {U(n.func) for n in ast.walk(leaf)
                             if isinstance(n, ast.Call)}
                calls = contributors(leaf)
                counted = any(c == "get_days_in_year" or
                              "week_date_start" in c or
                              c == "get_days_in_year_range" for c in calls)
                clamped = own_calls & {"min", "max"}
                rep.check(counted and not clamped, rule,
                          ctx.fkey(g, r, "week-count"), g.loc(r),
                          "the week count returned is counted from the "
                          "active calendar's year lengths",
                          "_get_weeks_in_year returns `%s`, which %s: the "
                          "number of weeks of a week-year is the distance "
                          "between two week-year starts in the active "
                          "calendar (51 for most years of the 360-day "
                          "calendar), whatever ISO 8601 says about "
                          "Gregorian years" % (
                              U(leaf)[:60],
                              "is clamped by %s" % sorted(clamped)
                              if clamped else "does not depend on "
                              "get_days_in_year or the week-year starts"),
                          ("C03", "C15", "C01", "C02", "C20", "C07"))
    # the common-year constant is not "the length of a year": a function
    # that reads CALENDAR.DAYS_IN_YEAR without also reading
    # DAYS_IN_YEAR_LEAP measures every year with the common year's length
    # (a year-at-a-time fast path that compares with 365 and consumes
    # get_days_in_year(y) jumps over 31 December of a leap year)
    for f in ctx.model.all_functions():
        if f.module is not m or (f.cls is not None and
                                 f.cls.name == "Calendar"):
            continue
        reads = {}
        for n in walk_no_nested(f.node):
            if isinstance(n, ast.Attribute) and n.attr in (
                    "DAYS_IN_YEAR", "DAYS_IN_YEAR_LEAP") and isinstance(
                        n.ctx, ast.Load):
                reads.setdefault(n.attr, n)
        if "DAYS_IN_YEAR" in reads and "DAYS_IN_YEAR_LEAP" not in reads:
            n = reads["DAYS_IN_YEAR"]
            rep.violation(
                rule, ctx.fkey(f, None, "common-year-only"), f.loc(n),
                "%s measures with CALENDAR.DAYS_IN_YEAR alone (`%s`): that "
                "is the length of a common year; the length of year y is "
                "get_days_in_year(y), and a test against the one with a "
                "step by the other skips or repeats a day in leap years" % (
                    f.qual, U(parent(n))[:60]),
                ("C03", "C15", "C01", "C18", "C17", "C05", "C12"))
    rep.anchor(rule, "calendar functions", n_funcs)
    rep.ok(rule, "data.py:no-magic-lengths", "-",
           "%d functions of data.py compute with no literal month/year/week "
           "length or time radix" % n_funcs, ("C03", "C15", "C01"))


# ------------------------------------------------------------------- R40
from ..fdai import Engine, Plugin, freeze, thaw    # noqa: E402

UNIT_ONLY = ("_years", "_months", "_days", "_hours", "_minutes", "_seconds")


class _FormPlugin(Plugin):
    """Duration form typestate for `self`: W0 (week form, zero weeks), W+
    (week form, non-zero), U (unit form).  In week form every unit slot is
    None; in unit form _weeks is None."""

    is_exact_shape = False

    def __init__(self, f):
        self.f = f
        self.selfn = f.self_name
        self.bad = []

    def _form(self, d):
        return d.get("$form")

    def eval(self, e, d):
        if e is None:
            return None
        form = self._form(d)

        def nodes(x):
            """the sub-expressions evaluated in this form: a conditional
            expression contributes only the branch its test selects"""
            if isinstance(x, ast.IfExp):
                yes, no = self.refine(x.test, d)
                if yes:
                    yield from nodes(x.body)
                if no:
                    yield from nodes(x.orelse)
                return
            yield x
            for c in ast.iter_child_nodes(x):
                yield from nodes(c)
        for n in nodes(e):
            if isinstance(n, ast.Attribute) and isinstance(
                    n.value, ast.Name) and n.value.id == self.selfn and \
                    isinstance(n.ctx, ast.Load):
                p = parent(n)
                # presence tests are fine
                if isinstance(p, ast.Compare) and any(
                        isinstance(o, (ast.Is, ast.IsNot)) for o in p.ops):
                    continue
                arith = isinstance(p, (ast.BinOp, ast.Tuple, ast.AugAssign,
                                       ast.Starred)) or (
                    isinstance(p, ast.Compare))
                if not arith:
                    continue
                if form in ("W0", "W+") and n.attr in UNIT_ONLY:
                    self.bad.append((n, form))
                if form == "U" and n.attr == "_weeks":
                    self.bad.append((n, form))
        return None

    def refine(self, test, d):
        form = self._form(d)
        t = U(test)
        s = self.selfn
        if t in ("%s.get_is_in_weeks()" % s, "%s._weeks is not None" % s):
            return ([d], []) if form in ("W0", "W+") else ([], [d])
        if t == "%s._weeks is None" % s:
            return ([d], []) if form == "U" else ([], [d])
        if t == "%s._weeks" % s:
            return ([d], []) if form == "W+" else ([], [d])
        if t == "%s.is_exact()" % s:
            # is_exact() is `not (years or months)` (shape verified by the
            # rule): in week form both are None, so it is always true there
            if form in ("W0", "W+") and self.is_exact_shape:
                return [d], []
            return [d], [dict(d)]
        self.eval(test, d)
        return [d], [dict(d)]


def _r40_days_normalised(ctx, rep, rule, dur):
    """Unit form means every unit slot is a number.  The constructor folds
    weeks into days; with a weeks argument that is a number (0 by default)
    the day slot must come out as a number even when `days=None` was passed:
    the raw `days` argument may survive in the slot only on paths that have
    established `weeks is None` or `days is not None`."""
    from ..dtable import explore
    init = dur.methods.get("__init__")
    if init is None or "days" not in init.call_params or \
            "weeks" not in init.call_params:
        return
    sn = init.self_name
    # (the part of the constructor before the optional standardisation,
    # which only moves whole multiples between slots that are numbers)
    prefix = []
    for st in init.node.body:
        if isinstance(st, ast.If) and U(st.test) == "standardize":
            break
        prefix.append(st)
    bad = []
    n_paths = 0
    try:
        paths = explore(prefix)
    except AnalysisError:
        rep.undecided(rule, ctx.fkey(init, None, "days-normalised"),
                      init.loc(), "Duration.__init__ has too many paths for "
                      "the decision table", ("C11", "C10"))
        return
    for p in paths:
        if p.outcome == "return":
            continue
        n_paths += 1
        v = p.env.get("@%s._days" % sn)
        if v is None or U(v) != "days":
            continue
        weeks_none = p.decisions.get("weeks is None")
        days_none = p.decisions.get("days is None")
        if weeks_none is not True and days_none is not False:
            bad.append(p.when()[:80] or "unconditionally")
    if n_paths:
        rep.check(not bad, rule, ctx.fkey(init, None, "days-normalised"),
                  init.loc(),
                  "with a numeric weeks argument the day slot is always a "
                  "number (%d paths)" % n_paths,
                  "Duration.__init__ leaves the raw `days` argument in the "
                  "day slot on a path (%s) that has neither a missing weeks "
                  "argument nor a given days: Duration(..., days=None) - the "
                  "date-time-like spelling P0004-03 - keeps None there, and "
                  "every comparison or total of that duration raises "
                  "TypeError" % "; ".join(sorted(set(bad))[:2]),
                  ("C11", "C10"))


def _is_exact_shape(ie):
    """is_exact() answers False exactly when years or months is truthy -
    read off its decision table, however it is spelled."""
    from ..dtable import explore
    from ..model import clone

    class _Boolify(ast.NodeTransformer):
        def visit_Return(self, node):
            if node.value is None or isinstance(node.value, ast.Constant):
                return node
            return ast.copy_location(ast.If(
                test=node.value,
                body=[ast.Return(value=ast.Constant(value=True))],
                orelse=[ast.Return(value=ast.Constant(value=False))]), node)
    body = [ast.fix_missing_locations(_Boolify().visit(clone(st)))
            for st in ie.node.body]
    try:
        paths = explore(body)
    except AnalysisError:
        return False
    sn = ie.self_name
    atoms = {sn + "._years", sn + "._months"}
    seen = 0
    for p in paths:
        if p.outcome != "return" or not isinstance(p.value, ast.Constant):
            return False
        if set(p.decisions) - atoms:
            return False
        anyset = any(p.decisions.get(a) for a in atoms)
        allclear = all(p.decisions.get(a) is False for a in atoms)
        if p.value.value is False and not anyset:
            return False
        if p.value.value is True and not allclear:
            return False
        seen += 1
    return seen >= 2


def r40_duration_form(ctx):
    rep = ctx.rep
    rule = "R40.duration-form"
    dur = ctx.model.cls("Duration")
    rep.need_anchor(rule, "form-dispatching methods")
    _r40_days_normalised(ctx, rep, rule, dur)
    ie = dur.methods.get("is_exact")
    if ie is not None:
        _FormPlugin.is_exact_shape = _is_exact_shape(ie)
    for name in ("__hash__", "__eq__", "get_days_and_seconds",
                 "_get_non_nominal_seconds", "get_seconds", "to_days",
                 "to_weeks", "__floordiv__"):
        f = dur.methods.get(name)
        if f is None:
            continue
        rep.anchor(rule, "form-dispatching methods")
        found = {}
        for form in ("W0", "W+", "U"):
            p = _FormPlugin(f)
            Engine(p).run(f.node.body, {freeze({"$form": form})})
            for n, fm in p.bad:
                found.setdefault((n.attr, n.lineno), set()).add(fm)
        props = ("C11",) if name not in ("to_days", "get_seconds") else (
            "C11", "C01")
        if not found:
            rep.ok(rule, ctx.fkey(f, None, "form-safe"), f.loc(),
                   "%s reads week-form and unit-form slots only in the form "
                   "that defines them (zero weeks included)" % name, props)
        for (attr, line), forms in sorted(found.items()):
            rep.violation(
                rule, ctx.fkey(f, None, "none-slot:%s" % attr),
                "%s:%s" % (f.module.relpath.split("/")[-1], line),
                "Duration.%s computes with self.%s in the %s form, where "
                "that slot is None: the week-form test must be "
                "`get_is_in_weeks()` / `_weeks is not None` (a truthiness "
                "test takes zero weeks, e.g. P1W - P1W, for the unit form "
                "and then hashes/compares None fields)" % (
                    name, attr, "/".join(sorted(
                        {"W0": "zero-week", "W+": "week",
                         "U": "unit"}[x] for x in forms))), props)


# ------------------------------------------------------------------- R41
def r41_mixed_rounding(ctx):
    """Splitting a quantity into (whole units, remainder) must use one
    rounding: divmod / `//` with `%` (floor).  `int(x / k)` (truncation)
    next to `x % k` (floor) disagrees for negative x."""
    rep = ctx.rep
    rule = "R41.mixed-rounding"
    rep.need_anchor(rule, "functions")
    n_f = 0
    for f in ctx.model.all_functions():
        n_f += 1
        truncs, mods = [], []
        for n in walk_no_nested(f.node):
            if isinstance(n, ast.Call) and U(n.func) == "int" and n.args and \
                    isinstance(n.args[0], ast.BinOp) and isinstance(
                        n.args[0].op, ast.Div):
                truncs.append((U(n.args[0].left), U(n.args[0].right), n))
            if isinstance(n, ast.BinOp) and isinstance(n.op, ast.Mod) and \
                    not isinstance(n.left, ast.Constant):
                mods.append((U(n.left), U(n.right), n))
            if isinstance(n, ast.AugAssign) and isinstance(n.op, ast.Mod):
                mods.append((U(n.target), U(n.value), n))
        for a, k, n1 in truncs:
            for b, k2, n2 in mods:
                if a == b and k == k2:
                    rep.violation(
                        rule, ctx.fkey(f, None, "trunc-vs-floor:%s" % a),
                        f.loc(n1),
                        "%s splits `%s` into int(%s / %s) (truncation "
                        "towards zero) and %s %% %s (floor): for negative "
                        "values the two parts belong to different quotients "
                        "(e.g. one second before the epoch lands a day "
                        "late)" % (f.qual, a, a, k, b, k2),
                        ("C18", "C11", "C01", "C04", "C17"))
    rep.anchor(rule, "functions", n_f)
    rep.ok(rule, "package:rounding", "-",
           "no function pairs int(x / k) with x % k", ("C18", "C11", "C17"))


# ------------------------------------------------------------------- R42
def r42_dst_condition(ctx):
    """The daylight offset (time.altzone) is used only when daylight saving
    is both defined for the zone (time.daylight) and in effect now
    (localtime().tm_isdst)."""
    rep = ctx.rep
    rule = "R42.dst-condition"
    f = ctx.func("timezone.get_local_time_zone")
    rep.need_anchor(rule, "altzone reads")
    reads = [n for n in walk_no_nested(f.node)
             if isinstance(n, ast.Attribute) and n.attr == "altzone"]
    if not reads:
        rep.error("R42", "get_local_time_zone: no read of time.altzone")
        return
    from ..flow import path_conds, cond_text
    from .round5 import _atoms_of
    for n in reads:
        rep.anchor(rule, "altzone reads")
        conds = path_conds(n)
        atoms = _atoms_of(conds)
        # both facts hold on the path, as conjuncts (a disjunction of the
        # two lets a zone that merely *has* DST rules use the summer offset
        # all year)
        ok = atoms is not None and any(
            pol and "tm_isdst" in U(t) for t, pol in atoms) and any(
                pol and "daylight" in U(t) for t, pol in atoms)
        txt = cond_text(conds)
        rep.check(ok, rule, ctx.fkey(f, None, "altzone-guard"), f.loc(n),
                  "time.altzone is used only under `tm_isdst == 1 and "
                  "time.daylight`",
                  "time.altzone is used under the condition `%s`: the "
                  "daylight offset must apply only when daylight saving is "
                  "defined for the zone *and* currently in effect (a zone "
                  "with DST rules reports its summer offset in winter)" %
                  (txt or "always"), ("C18", "C06", "C07"))
    also = [n for n in walk_no_nested(f.node)
            if isinstance(n, ast.Attribute) and n.attr == "timezone" and
            U(n.value) == "time"]
    rep.check(bool(also), rule, ctx.fkey(f, None, "standard-offset"),
              f.loc(), "the standard offset is time.timezone",
              "get_local_time_zone no longer reads time.timezone",
              ("C18", "C06"),
              nontrivial=False)


RULES.update({"R39": r39_no_magic_lengths, "R40": r40_duration_form,
              "R41": r41_mixed_rounding, "R42": r42_dst_condition})


# ------------------------------------------------------------------- R43
from .zone import derivation, KEY_GETTERS    # noqa: E402


def r43_zone_aligned_fields(ctx):
    """Date/time fields of two different time points are compared or
    subtracted only after one was re-expressed in the other's UTC offset (or
    both in UTC): `a.get_second_of_day() != b.get_second_of_day()` says
    nothing about instants when the offsets differ."""
    rep = ctx.rep
    rule = "R43.zone-aligned-fields"
    rep.need_anchor(rule, "functions scanned")
    n_f = n_pairs = 0

    def getter_of(f, e, depth=0):
        """(receiver expr, getter name) if e is (a local bound once to) a
        key-getter call."""
        if isinstance(e, ast.Subscript):
            e = e.value
        if isinstance(e, ast.Call) and isinstance(e.func, ast.Attribute) \
                and e.func.attr in KEY_GETTERS:
            return e.func.value, e.func.attr
        if isinstance(e, ast.Name) and depth < 3:
            ds = [n for n in walk_no_nested(f.node)
                  if isinstance(n, ast.Assign) and any(
                      U(t) == e.id for t in n.targets)]
            if len(ds) == 1:
                return getter_of(f, ds[0].value, depth + 1)
        return None
    for f in ctx.model.all_functions():
        if f.module.name not in ("data", "datetimeoper", "dumpers"):
            continue
        n_f += 1
        for n in walk_no_nested(f.node):
            pairs = []
            if isinstance(n, ast.Compare) and len(n.ops) == 1:
                pairs.append((n.left, n.comparators[0]))
            elif isinstance(n, ast.BinOp) and isinstance(n.op, ast.Sub):
                pairs.append((n.left, n.right))
            for a, b in pairs:
                ga, gb = getter_of(f, a), getter_of(f, b)
                if not ga or not gb:
                    continue
                ra, ma, ca = derivation(f, ga[0])
                rb, mb, cb = derivation(f, gb[0])
                if U(ga[0]) == U(gb[0]):
                    continue
                n_pairs += 1
                aligned = ("to_utc" in ma and "to_utc" in mb)
                for meths, calls, other in ((ma, ca, gb[0]), (mb, cb, ga[0])):
                    for m_, c_ in zip(meths, calls):
                        if m_ == "to_time_zone" and c_.args and U(
                                c_.args[0]).endswith("._time_zone"):
                            aligned = True
                rep.check(
                    aligned, rule, ctx.fkey(f, n, "aligned"), f.loc(n),
                    "fields of two points are compared after zone alignment",
                    "%s compares/subtracts %s() of `%s` and `%s`, two "
                    "different time points, without first re-expressing one "
                    "in the other's UTC offset: equal instants written in "
                    "different offsets give different fields" % (
                        f.qual, ga[1], U(ga[0]), U(gb[0])),
                    ("C13", "C02", "C06"))
    rep.anchor(rule, "functions scanned", n_f)
    rep.ok(rule, "package:zone-aligned-fields", "-",
           "%d functions scanned, %d direct field comparisons between two "
           "points, all zone-aligned" % (n_f, n_pairs), ("C13", "C02", "C06"))


RULES["R43"] = r43_zone_aligned_fields


# ------------------------------------------------------------------- R44
def r44_epoch_delegation(ctx):
    """Unix time is defined through the verified point arithmetic: the
    property reads `(self - <epoch point>)` and the inverse adds a
    Duration(seconds=n) to the epoch point; neither counts days itself."""
    rep = ctx.rep
    rule = "R44.epoch-delegation"
    rep.need_anchor(rule, "epoch conversions")
    res = ctx.res
    tp = ctx.model.cls("TimePoint")
    f = tp.methods.get("seconds_since_unix_epoch")
    g = ctx.try_func("data.get_timepoint_from_seconds_since_unix_epoch")
    if f is None or g is None:
        raise AnalysisError("epoch conversion functions not found")
    day_counters = {"get_days_since_1_ad", "get_days_in_year_range",
                    "get_days_in_year", "get_ordinal_date", "iter_months_days",
                    "get_calendar_date", "get_second_of_day"}
    for fn, need, what in (
            (f, {"data.TimePoint.__sub__", "data.TimePoint.__init__"},
             "`self - TimePoint(**UNIX_EPOCH_DATE_TIME_REFERENCE_PROPERTIES)`"),
            (g, {"data.TimePoint.__add__", "data.TimePoint.__init__",
                 "data.Duration.__init__"},
             "`epoch_point + Duration(seconds=n)`")):
        rep.anchor(rule, "epoch conversions")
        callees = res.callees(fn.qual)
        short = {c.split(".")[-1] for c in callees}
        own = sorted(short & day_counters)
        uses_epoch = "UNIX_EPOCH_DATE_TIME_REFERENCE_PROPERTIES" in U(fn.node)
        rep.check(need <= callees and not own and uses_epoch, rule,
                  ctx.fkey(fn, None, "delegates"), fn.loc(),
                  "%s is computed as %s" % (fn.name, what),
                  "%s no longer delegates to %s (calls %s%s): it counts "
                  "days itself, outside the arithmetic the other properties "
                  "verify (year 0 / negative years are the usual casualty)"
                  % (fn.qual, what, sorted(short)[:8],
                     ", own day counting via %s" % own if own else ""),
                  ("C18", "C17"))
    # what the property prints is the whole difference: 86400 * days +
    # seconds of (self - epoch), through int() and str() and nothing else
    # (no correction term on any path)
    from ..dtable import explore as _explore44
    from ..linear import lin as _lin44, Lin as _Lin44, same as _same44
    parts = None
    for n in walk_no_nested(f.node):
        if isinstance(n, ast.Assign) and isinstance(
                n.targets[0], ast.Tuple) and len(
                    n.targets[0].elts) == 2 and isinstance(
                        n.value, ast.Call) and U(n.value.func).endswith(
                            "get_days_and_seconds"):
            parts = [U(x) for x in n.targets[0].elts]
    key44 = ctx.fkey(f, None, "whole-difference")
    if parts is None:
        rep.undecided(rule, key44, f.loc(), "seconds_since_unix_epoch does "
                      "not take (days, seconds) from get_days_and_seconds()",
                      ("C18", "C17"))
    else:
        try:
            paths44 = _explore44(f.node.body)
        except AnalysisError as exc:
            paths44 = None
            rep.undecided(rule, key44, f.loc(), "not tabulated: %s" % exc,
                          ("C18", "C17"))
        if paths44 is not None:
            want = _Lin44({parts[0]: 86400, parts[1]: 1})
            bad44, n44 = [], 0
            for p_ in paths44:
                if p_.outcome != "return" or p_.value is None:
                    continue
                v = p_.value
                while isinstance(v, ast.Call) and U(v.func) in (
                        "str", "int") and len(v.args) == 1:
                    v = v.args[0]
                n44 += 1
                got = _lin44(v, {})
                e0, e1 = p_.env.get(parts[0]), p_.env.get(parts[1])
                if isinstance(e0, ast.AST) and isinstance(e1, ast.AST):
                    want = _lin44(e0, {}).scale(86400).add(_lin44(e1, {}))
                if not _same44(got, want):
                    bad44.append("%s when %s" % (got.text()[:60],
                                                 p_.when()[:60] or "always"))
            rep.check(n44 > 0 and not bad44, rule, key44, f.loc(),
                      "the count printed is int(86400 * days + seconds) of "
                      "the difference to the epoch on every path",
                      "TimePoint.seconds_since_unix_epoch prints %s instead "
                      "of 86400 * %s + %s: a correction term shifts every "
                      "instant it applies to (1969-12-31T23:59:59Z is -1, "
                      "not -2)" % (bad44[:2], parts[0], parts[1]),
                      ("C18", "C17"))
    # the Duration added by the inverse carries the count in seconds only
    for n in walk_no_nested(g.node):
        if isinstance(n, ast.Call) and U(n.func) == "Duration":
            kws = {k.arg for k in n.keywords}
            rep.check(kws == {"seconds"}, rule,
                      ctx.fkey(g, None, "seconds-only"), g.loc(n),
                      "the count is added as Duration(seconds=n)",
                      "the second count is split into %s before it is added "
                      "(the split must then be exact for negative and "
                      "fractional counts)" % sorted(kws), ("C18",))
            # ... and unrounded: the count may be fractional
            from ..flow import single_def
            pname = g.params[0] if g.params else None
            for k in n.keywords:
                if k.arg != "seconds" or pname is None:
                    continue

                def narrowing(e, depth=0):
                    out = []
                    for x in ast.walk(e):
                        if isinstance(x, ast.Call) and U(x.func).split(
                                ".")[-1] in ("int", "round", "floor",
                                             "trunc", "ceil", "abs"):
                            out.append(U(x)[:40])
                        elif isinstance(x, ast.BinOp) and isinstance(
                                x.op, (ast.FloorDiv, ast.Mod)):
                            out.append(U(x)[:40])
                        elif isinstance(x, ast.Name) and x.id != pname \
                                and depth < 3:
                            v = single_def(g.node, x.id)
                            if v is not None:
                                out += narrowing(v, depth + 1)
                    return out
                nar = narrowing(k.value)
                rep.check(not nar, rule, ctx.fkey(g, None, "unrounded"),
                          g.loc(n), "the count reaches Duration(seconds=) "
                          "without being rounded",
                          "get_timepoint_from_seconds_since_unix_epoch "
                          "passes its count through %s before adding it: a "
                          "fractional Unix time (time.time(), 1234567890.5, "
                          "the string '0.5' from strptime %%s) loses its "
                          "fraction or is refused" % nar, ("C18", "C17"))


# ------------------------------------------------------------------- R45
def r45_strptime_partition(ctx):
    """_parse_from_custom_regex sorts the captured *group names* into date /
    time / zone information by comparing them with names taken from the
    translate tables.  A table may be used for that (through its property
    column) only if, for every group a strptime directive can capture from
    it, the property name equals the group name."""
    rep = ctx.rep
    rule = "R45.strptime-partition"
    T = tables_of(ctx)
    f = ctx.func("parsers.TimePointParser._parse_from_custom_regex")
    rep.need_anchor(rule, "key lists")
    strf = T.const("STRFTIME_TRANSLATE_INFO")
    used_props = set()
    for v in strf.values():
        if isinstance(v, list):
            used_props |= {x for x in v if re.fullmatch(r"[a-z_]+", x)}
    tables = {"get_date_translate_info": T.date_info(2),
              "get_time_translate_info": T.time_info(),
              "get_time_zone_translate_info": T.zone_info()}
    loops = []      # (node for the report, iterated call, scope, target)
    for n in walk_no_nested(f.node):
        if isinstance(n, ast.For) and isinstance(n.iter, ast.Call):
            loops.append((n, n.iter, n, n.target))
        elif isinstance(n, (ast.ListComp, ast.SetComp, ast.GeneratorExp)):
            for g in n.generators:
                if isinstance(g.iter, ast.Call):
                    loops.append((n, g.iter, n, g.target))
    for n, it, scope, target in loops:
        getter = U(it.func).split(".")[-1]
        if getter not in tables:
            continue
        cols = {x.slice.value for x in ast.walk(scope)
                if isinstance(x, ast.Subscript) and isinstance(
                    x.slice, ast.Constant) and isinstance(
                        x.slice.value, int)}
        if not cols and isinstance(target, ast.Tuple):
            # the row is unpacked: the column is the position of the
            # unpacked name that is used
            used = {x.id for part in (
                [scope.elt] if hasattr(scope, "elt") else scope.body)
                for x in ast.walk(part) if isinstance(x, ast.Name) and
                isinstance(x.ctx, ast.Load)}
            cols = {i for i, t in enumerate(target.elts)
                    if isinstance(t, ast.Name) and t.id in used}
        if not cols:
            continue
        rep.anchor(rule, "key lists")
        col = sorted(cols)[0]
        bad = []
        for row in tables[getter]:
            if row[3] not in used_props:
                continue
            groups = re.findall(r"\(\?P<(\w+)>", row[1])
            names = {row[col]} if col != 1 else set(groups)
            for gname in groups:
                if gname not in names:
                    bad.append((gname, row[col]))
        rep.check(not bad, rule, ctx.fkey(f, None, "keys:" + getter),
                  f.loc(n),
                  "%s column %d names the groups strptime can capture" % (
                      getter, col),
                  "_parse_from_custom_regex classifies captured groups with "
                  "column %d of %s, but the directives capture %s under "
                  "names that differ from that column %s: those keys are "
                  "put into the wrong bucket (a %%z offset skips the zone "
                  "processing)" % (col, getter, sorted({b[0] for b in bad}),
                                   sorted({b[1] for b in bad})),
                  ("C17",))
    # whatever is in no list must end up in the zone bucket (so that the
    # zone processing sees time_zone_hour/minute/sign)
    zone_else = False
    for n in walk_no_nested(f.node):
        if isinstance(n, ast.If) and n.orelse:
            last = n
            while len(last.orelse) == 1 and isinstance(last.orelse[0],
                                                      ast.If):
                last = last.orelse[0]
            tail = last.orelse
            if tail and "time_zone" in U(tail[0]) and isinstance(
                    tail[0], ast.Assign):
                zone_else = True
    lists = [U(it.func).split(".")[-1] for _, it, _, _ in loops]
    if "get_time_zone_translate_info" not in lists:
        rep.check(zone_else, rule, ctx.fkey(f, None, "zone-bucket"), f.loc(),
                  "keys in neither the date nor the time list go to the "
                  "zone bucket",
                  "_parse_from_custom_regex no longer sends the remaining "
                  "keys to the zone information that "
                  "process_time_zone_info signs and defaults", ("C17",))


RULES.update({"R44": r44_epoch_delegation, "R45": r45_strptime_partition})


# ------------------------------------------------------------------- R47
def r47_one_based_guards(ctx):
    """1-based cyclic fields (day-of-month/-year/-week, week, month) are
    in range for 1 <= f <= length: a carry is taken for `f > length`, a
    borrow for `f < 1`, and the modular normalisation of the weekday works
    on f - 1 and adds the 1 back."""
    rep = ctx.rep
    rule = "R47.one-based-guards"
    rep.need_anchor(rule, "range guards")
    tp = ctx.model.cls("TimePoint")
    ONE_BASED = {"_day_of_month", "_day_of_year", "_day_of_week",
                 "_week_of_year", "_month_of_year"}
    for name in ("_tick_over", "_tick_over_day_of_month", "add_months"):
        f = tp.methods.get(name)
        if f is None:
            continue
        props = {"_tick_over": ("C01", "C06", "C20", "C02", "C04"),
                 "_tick_over_day_of_month": ("C01", "C05", "C06"),
                 "add_months": ("C05",)}[name]
        for n in walk_no_nested(f.node):
            if not isinstance(n, (ast.While, ast.If)):
                continue
            t = n.test
            if not (isinstance(t, ast.Compare) and len(t.ops) == 1):
                continue
            a, b, op = t.left, t.comparators[0], type(t.ops[0])
            if isinstance(b, ast.Attribute) and b.attr in ONE_BASED and not (
                    isinstance(a, ast.Attribute) and a.attr in ONE_BASED):
                a, b = b, a
                op = {ast.Lt: ast.Gt, ast.Gt: ast.Lt, ast.LtE: ast.GtE,
                      ast.GtE: ast.LtE}.get(op, op)
            if not (isinstance(a, ast.Attribute) and a.attr in ONE_BASED):
                continue
            if op not in (ast.Lt, ast.LtE, ast.Gt, ast.GtE):
                continue
            # is it a range guard (adjusts the same field in its body)?
            adjusts = any(isinstance(x, (ast.AugAssign, ast.Assign)) and U(
                x.target if isinstance(x, ast.AugAssign) else x.targets[0])
                == U(a) for st in n.body for x in ast.walk(st)) or \
                name == "_tick_over_day_of_month"
            if not adjusts:
                continue
            rep.anchor(rule, "range guards")
            lower = isinstance(b, ast.Constant)
            if lower:
                ok = (op is ast.Lt and b.value == 1) or (
                    op is ast.LtE and b.value == 0)
                want = "%s < 1" % U(a)
            else:
                # clamp `if f > L: f = L` may equally be written f >= L
                is_clamp = isinstance(n, ast.If) and len(n.body) == 1 and \
                    isinstance(n.body[0], ast.Assign) and \
                    U(n.body[0].value) == U(b)
                ok = op is ast.Gt or (is_clamp and op is ast.GtE)
                want = "%s > %s" % (U(a), U(b))
            rep.check(ok, rule, ctx.fkey(f, None, "guard:%s:%s" % (
                a.attr, "low" if lower else "high")), f.loc(n),
                "range guard `%s` of the 1-based field %s" % (U(t), a.attr),
                "%s guards the 1-based field %s with `%s`; the field is in "
                "range for 1..length, so the guard must be `%s` (an "
                "off-by-one here turns the last day/week/month of a period "
                "into the 0th of the next)" % (f.qual, a.attr, U(t), want),
                props)
    # weekday normalisation: divmod(dow - 1, DAYS_IN_WEEK) ... + 1
    f = tp.methods.get("_tick_over")
    ok, why = False, "no modulo normalisation of the weekday found"
    from ..dtable import explore
    selfn = f.self_name
    for n in walk_no_nested(f.node):
        if not (isinstance(n, ast.If) and any(
                isinstance(x, ast.Attribute) and x.attr == "_day_of_week" and
                isinstance(x.ctx, ast.Store) for st in n.body
                for x in ast.walk(st)) and any(
                    (isinstance(x, ast.BinOp) and isinstance(x.op, ast.Mod))
                    or (isinstance(x, ast.AugAssign) and isinstance(
                        x.op, ast.Mod))
                    or (isinstance(x, ast.Call) and U(x.func) == "divmod")
                    for st in n.body for x in ast.walk(st))
                and "_day_of_week" in U(n.test)):
            continue
        finals = set()
        for p in explore(n.body):
            v = p.env.get("@%s._day_of_week" % selfn)
            if v is not None:
                finals.add(U(v).replace(" ", ""))
        dow = "%s._day_of_week" % selfn
        K = "CALENDAR.DAYS_IN_WEEK"
        good = {"divmod(%s-1,%s)[1]+1" % (dow, K),
                "1+divmod(%s-1,%s)[1]" % (dow, K),
                "(%s-1)%%%s+1" % (dow, K), "1+(%s-1)%%%s" % (dow, K)}
        ok = bool(finals) and finals <= good
        why = "the weekday is left as %s" % sorted(finals)
    _r47_time_fields(ctx, rep, rule, f)
    rep.check(ok, rule, ctx.fkey(f, None, "weekday-modulo"), f.loc(),
              "the 1-based weekday is normalised as divmod(d - 1, 7) + 1",
              "weekday normalisation: %s; a 1-based field must be shifted "
              "to 0-based for the modulo and back (Sunday = 7 would become "
              "0 of the next week)" % why, ("C01", "C06", "C20"))


def _r47_time_fields(ctx, rep, rule, f):
    """The three radix fields of the time of day are left, after their carry
    block of _tick_over, as exactly the remainder of the division by their
    radix: nothing (rounding, clamping, an offset) is applied to the
    remainder, which could put it back at or beyond the radix."""
    from ..dtable import explore
    selfn = f.self_name
    for fld, K in (("_second_of_minute", "CALENDAR.SECONDS_IN_MINUTE"),
                   ("_minute_of_hour", "CALENDAR.MINUTES_IN_HOUR"),
                   ("_hour_of_day", "CALENDAR.HOURS_IN_DAY")):
        blocks = []
        for n in walk_no_nested(f.node):
            if isinstance(n, ast.If) and fld in U(n.test) and \
                    "is not None" in U(n.test) and any(
                        (isinstance(x, ast.BinOp) and isinstance(
                            x.op, ast.Mod)) or
                        (isinstance(x, ast.AugAssign) and isinstance(
                            x.op, ast.Mod)) or
                        (isinstance(x, ast.Call) and U(x.func) == "divmod")
                        for st in n.body for x in ast.walk(st)
                        if K in U(x)):
                blocks.append(n)
        if not blocks:
            continue
        me = "%s.%s" % (selfn, fld)
        finals = set()
        for n in blocks:
            for p in explore(n.body):
                v = p.env.get("@" + me)
                if v is not None:
                    finals.add(U(v).replace(" ", ""))
        good = {"divmod(%s,%s)[1]" % (me, K), "%s%%%s" % (me, K)}
        if not finals:
            continue
        rep.check(finals <= good, rule,
                  ctx.fkey(f, None, "remainder:" + fld), f.loc(blocks[0]),
                  "%s is left as its remainder modulo %s" % (fld, K),
                  "after its carry %s is set to %s instead of the plain "
                  "remainder modulo %s: whatever is applied to the "
                  "remainder (rounding up to the radix, say) is not carried "
                  "any more, so the field can reach its radix (second 60, "
                  "minute 60, hour 24)" % (fld, sorted(finals - good), K),
                  ("C01", "C06", "C02", "C04", "C20"))


# ------------------------------------------------------------------- R48
def r48_year_parts(ctx):
    """The year is split into expanded digits / century / year-of-century /
    year-of-decade with the radices their digit widths imply, on both
    sides: the reader multiplies century by 10**width(YY) and the expanded
    digits by 10**(width(CC)+width(YY)); the writer takes the matching
    quotients and remainders."""
    rep = ctx.rep
    rule = "R48.year-parts"
    T = tables_of(ctx)
    widths = {}
    for row in T.date_info(2):
        m = re.search(r"\(\?P<(\w+)>((?:\[0-9\])+)\)", row[1])
        if m:
            widths[m.group(1)] = m.group(2).count("[0-9]")
    w_yy = widths.get("year_of_century")
    w_cc = widths.get("century")
    if not w_yy or not w_cc:
        rep.error("R48", "digit widths of century / year_of_century not "
                  "found in the date table")
        return
    want_cc = 10 ** w_yy
    want_x = 10 ** (w_yy + w_cc)
    rep.need_anchor(rule, "year decompositions")
    from .signtables import year_assembly, _sum_terms
    f, stored, complete = year_assembly(ctx)
    got = {}
    conflict = False
    for p_, v in stored:
        if isinstance(v, ast.UnaryOp) and isinstance(v.op, ast.USub):
            v = v.operand
        elif isinstance(v, ast.BinOp) and isinstance(v.op, ast.Mult) and \
                U(v.right) in ("-1", "(-1)"):
            v = v.left
        elif isinstance(v, ast.BinOp) and isinstance(v.op, ast.Mult) and \
                U(v.left) in ("-1", "(-1)"):
            v = v.right
        for t in _sum_terms(v):
            k = 1
            body = t
            if isinstance(t, ast.BinOp) and isinstance(t.op, ast.Mult):
                if isinstance(t.left, ast.Constant):
                    k, body = t.left.value, t.right
                elif isinstance(t.right, ast.Constant):
                    k, body = t.right.value, t.left
            txt = U(body)
            for part in ("century", "expanded_year"):
                if "'%s'" % part in txt:
                    if got.setdefault(part, k) != k:
                        conflict = True
    if not complete:
        rep.anchor(rule, "year decompositions")
        rep.undecided(rule, ctx.fkey(f, None, "reader-radices"), f.loc(),
                      "the assembly of the stored year is not tabulated",
                      ("C07", "C08"))
        got = None
    rep.anchor(rule, "year decompositions")
    if got is not None:
      rep.check(got.get("century") == want_cc and not conflict and
              got.get("expanded_year") == want_x, rule,
              ctx.fkey(f, None, "reader-radices"), f.loc(),
              "the reader assembles year = YY + %d*CC + %d*X" % (want_cc,
                                                                want_x),
              "the reader multiplies century by %s and the expanded digits "
              "by %s; the digit widths of the date table imply %d and %d" % (
                  got.get("century"), got.get("expanded_year"), want_cc,
                  want_x), ("C07", "C08"))
    tp = ctx.model.cls("TimePoint")
    # a year part is a digit field of |year|: (divisor, modulus) meaning
    # (|year| // divisor) % modulus; modulus None = all higher digits
    exp = {"century": (want_cc, want_x // want_cc),
           "year_of_century": (1, want_cc),
           "year_of_decade": (1, 10),
           "expanded_year_digits": (want_x, None)}
    for pname, want_field in exp.items():
        g = tp.methods.get(pname)
        if g is None:
            continue
        rep.anchor(rule, "year decompositions")
        rets = [n.value for n in walk_no_nested(g.node)
                if isinstance(n, ast.Return) and n.value is not None]
        fields = [_digit_field(r, g.self_name) for r in rets]
        shown = [U(r) for r in rets]
        if len(rets) == 1 and fields[0] is None:
            rep.undecided(rule, ctx.fkey(g, None, "writer-radix"), g.loc(),
                          "TimePoint.%s returns %s, which is not a "
                          "quotient/remainder of abs(year) this rule reads" %
                          (pname, shown), ("C07", "C08", "C17"))
            continue
        rep.check(len(rets) == 1 and fields[0] == want_field, rule,
                  ctx.fkey(g, None, "writer-radix"), g.loc(),
                  "%s is the digit field (|year| // %s) %% %s" % (
                      (pname,) + want_field),
                  "TimePoint.%s returns %s = digit field %s of |year|; with "
                  "%d-digit century and %d-digit year-of-century fields it "
                  "must be (|year| // %s) %% %s" % (
                      (pname, shown, fields, w_cc, w_yy) + want_field),
                  ("C07", "C08", "C17"))


def _digit_field(e, selfn):
    """(divisor, modulus) such that e == (abs(self._year) // divisor) %
    modulus, for expressions built from abs(year), //, / under abs/int and
    %; None if e is not of that family."""
    def is_absyear(x):
        return isinstance(x, ast.Call) and U(x.func) == "abs" and len(
            x.args) == 1 and U(x.args[0]) == "%s._year" % selfn

    def k(x):
        if isinstance(x, ast.Constant) and isinstance(x.value, int) and \
                not isinstance(x.value, bool) and x.value > 0:
            return x.value
        return None
    if is_absyear(e):
        return (1, None)
    # abs(year / K), abs(year // K), int(abs(year) / K)
    if isinstance(e, ast.Call) and U(e.func) in ("abs", "int") and len(
            e.args) == 1 and isinstance(e.args[0], ast.BinOp) and isinstance(
                e.args[0].op, (ast.Div, ast.FloorDiv)):
        inner = e.args[0]
        d = k(inner.right)
        base = inner.left
        if d and (U(base) == "%s._year" % selfn or is_absyear(base)):
            return (d, None)
        return None
    if isinstance(e, ast.BinOp) and isinstance(e.op, ast.FloorDiv):
        d = k(e.right)
        inner = _digit_field(e.left, selfn)
        if d and inner is not None:
            dv, md = inner
            if md is None:
                return (dv * d, None)
            if md % d == 0:
                # ((y // dv) % md) // d == (y // (dv*d)) % (md // d)
                return (dv * d, md // d)
        return None
    if isinstance(e, ast.BinOp) and isinstance(e.op, ast.Mod):
        m = k(e.right)
        inner = _digit_field(e.left, selfn)
        if m and inner is not None:
            dv, md = inner
            if md is None or md % m == 0:
                return (dv, m)
            if m % md == 0:
                return (dv, md)
        return None
    return None


RULES.update({"R47": r47_one_based_guards, "R48": r48_year_parts})


# ------------------------------------------------------------------- R49
def r49_week_year_span(ctx):
    """A week-date year starts up to three days before 1 January and ends up
    to three days after 31 December: its days lie in three calendar years.
    The week->calendar conversion must therefore be able to return a date in
    the start year of the week-year, in the week-year's own calendar year and
    in the following one; the calendar->week conversion must be able to
    return the previous, the same and the next week-year."""
    rep = ctx.rep
    rule = "R49.week-year-span"
    P = ("C03",)
    from ..flow import alternatives, single_def
    rep.need_anchor(rule, "week conversions")

    def offset(e, param, fnode, depth=0):
        """-1/0/+1 for param-1 / param / param+1, "start" for a year taken
        from the week-year start date, None if not of these forms."""
        if isinstance(e, ast.Name):
            if e.id == param:
                return 0
            if depth < 3:
                for n in walk_no_nested(fnode):
                    if isinstance(n, ast.Assign) and isinstance(
                            n.targets[0], ast.Tuple) and n.targets[0].elts \
                            and isinstance(n.targets[0].elts[0], ast.Name) \
                            and n.targets[0].elts[0].id == e.id and \
                            "week_date_start" in U(n.value):
                        return "start"
                v = single_def(fnode, e.id)
                if v is not None:
                    return offset(v, param, fnode, depth + 1)
            return None
        if isinstance(e, ast.BinOp) and isinstance(e.op, (ast.Add, ast.Sub)) \
                and isinstance(e.right, ast.Constant) and isinstance(
                    e.right.value, int):
            base = offset(e.left, param, fnode, depth + 1)
            k = e.right.value if isinstance(e.op, ast.Add) else -e.right.value
            if base == "start":
                return "start%+d" % k
            if isinstance(base, int):
                return base + k
        return None

    f = ctx.try_func("data.get_calendar_date_from_week_date")
    if f is not None and f.params:
        rep.anchor(rule, "week conversions")
        yp = f.params[0]
        offs = set()
        unknown = []
        # what is returned: literal triples, or the items of a local
        # generator the function walks (its yields)
        local_gens = {d.name: d for d in f.node.body
                      if isinstance(d, ast.FunctionDef) and any(
                          isinstance(y, ast.Yield) for y in ast.walk(d))}
        triples = []
        for n in walk_no_nested(f.node):
            if not (isinstance(n, ast.Return) and n.value is not None):
                continue
            v = n.value
            if isinstance(v, ast.Tuple) and len(v.elts) == 3:
                triples.append(v)
                continue
            src = None
            if isinstance(v, ast.Name):
                for lp in walk_no_nested(f.node):
                    if isinstance(lp, ast.For) and isinstance(
                            lp.target, ast.Name) and lp.target.id == v.id \
                            and isinstance(lp.iter, ast.Call) and isinstance(
                                lp.iter.func, ast.Name) and \
                            lp.iter.func.id in local_gens:
                        src = local_gens[lp.iter.func.id]
            if src is None:
                unknown.append(U(v))
                continue
            for y in ast.walk(src):
                if isinstance(y, ast.Yield):
                    if isinstance(y.value, ast.Tuple) and len(
                            y.value.elts) == 3:
                        triples.append(y.value)
                    else:
                        unknown.append(U(y))
        # the year returned with the month and day of a walk is the year
        # that was walked
        for lp in walk_no_nested(f.node):
            if not (isinstance(lp, ast.For) and isinstance(
                    lp.iter, ast.Call) and U(lp.iter.func) ==
                    "iter_months_days" and lp.iter.args and isinstance(
                        lp.target, ast.Tuple) and len(
                            lp.target.elts) == 2):
                continue
            walked = U(lp.iter.args[0])
            tnames = [U(x) for x in lp.target.elts]
            for r in ast.walk(lp):
                if isinstance(r, ast.Return) and isinstance(
                        r.value, ast.Tuple) and len(r.value.elts) == 3 and \
                        [U(x) for x in r.value.elts[1:]] == tnames:
                    rep.check(
                        U(r.value.elts[0]) == walked, rule,
                        ctx.fkey(f, r, "year-of-walk"), f.loc(r),
                        "the month and day of the walk over %s are returned "
                        "with that year" % walked,
                        "get_calendar_date_from_week_date returns `%s` for a "
                        "month and day found while walking the days of %s: "
                        "the days of a week-year that fall before 1 January "
                        "(2020-W01-2 = 2019-12-31) get the wrong year" % (
                            U(r.value), walked), P + ("C17", "C08"))
        for v in triples:
            o = offset(v.elts[0], yp, f.node)
            if o is None:
                unknown.append(U(v.elts[0]))
            else:
                offs.add(o)
        if unknown or not offs:
            rep.note(rule, "get_calendar_date_from_week_date returns years "
                     "%s in a form this rule does not read: span not decided"
                     % unknown, P)
            rep.ok(rule, ctx.fkey(f, None, "span"), f.loc(),
                   "year expressions not of the year/start form: not decided",
                   P, nontrivial=False)
        else:
            need = {"start", 0, 1}
            rep.check(need <= offs, rule, ctx.fkey(f, None, "span"), f.loc(),
                      "a week date can be resolved into the calendar year "
                      "its week-year starts in, the week-year's own "
                      "calendar year and the following one",
                      "get_calendar_date_from_week_date can only return "
                      "dates in the years %s relative to the week-year: a "
                      "week-year runs from its start (late December of the "
                      "year before, at the earliest) into early January of "
                      "the year after, so dates in %s are unreachable (valid "
                      "week dates such as W53-5 raise ValueError or resolve "
                      "to the wrong year)" % (
                          sorted(map(str, offs)),
                          sorted(map(str, need - offs))), P)
    g = ctx.try_func("data.get_week_date_from_calendar_date")
    if g is not None and g.params:
        rep.anchor(rule, "week conversions")
        yp = g.params[0]
        offs = set()
        unknown = []
        for n in walk_no_nested(g.node):
            if isinstance(n, ast.Return) and isinstance(
                    n.value, ast.Tuple) and len(n.value.elts) == 3:
                e = n.value.elts[0]
                vals = [e]
                if isinstance(e, ast.Name):
                    alts = alternatives(g.node, e.id)
                    if alts:
                        vals = [v for v, _ in alts]
                for v in vals:
                    o = offset(v, yp, g.node)
                    if isinstance(o, int):
                        offs.add(o)
                    else:
                        unknown.append(U(v))
        if unknown or not offs:
            rep.ok(rule, ctx.fkey(g, None, "span"), g.loc(),
                   "week-year expressions %s not of the year+-1 form: not "
                   "decided" % unknown, P, nontrivial=False)
        else:
            rep.check({-1, 0, 1} <= offs, rule, ctx.fkey(g, None, "span"),
                      g.loc(),
                      "a calendar date can fall into the previous, the same "
                      "or the next week-year",
                      "get_week_date_from_calendar_date can only return the "
                      "week-years %s relative to the calendar year: the first "
                      "days of January can belong to the previous week-year "
                      "and the last days of December to the next" %
                      sorted(offs), P)
    _r49_years_walked(ctx, rep, rule, P + ("C15",))
    _r49_match_names_year(ctx, rep, rule, P + ("C15", "C17"))
    _r49_same_year_is_bounded(ctx, rep, rule, P + ("C17",))


def _r49_same_year_is_bounded(ctx, rep, rule, P):
    """A date belongs to week-year Y iff start(Y) <= date < start(Y + 1).
    Where a conversion to a week date answers with the calendar year it was
    given (computed directly, not by delegating to another conversion), the
    path has compared the date with the start of week-year Y + 1: the last
    days of December belong to the next week-year more often than not."""
    from ..flow import path_conds, alternatives
    for q in ("data.get_week_date_from_ordinal_date",
              "data.get_week_date_from_calendar_date"):
        g = ctx.try_func(q)
        if g is None or not g.params:
            continue
        yp = g.params[0]

        def is_next_start(c):
            """a call of a *_week_date_start helper for year + 1 (first
            positional argument or a keyword)"""
            if not (isinstance(c, ast.Call) and "week_date_start" in U(
                    c.func)):
                return False
            vals = list(c.args[:1]) + [k.value for k in c.keywords]
            return any(U(v).replace("(", "").replace(")", "") in (
                "%s + 1" % yp, "1 + %s" % yp) for v in vals)

        def next_start_names():
            out = set()
            for n in walk_no_nested(g.node):
                if not isinstance(n, ast.Assign):
                    continue
                hit = any(is_next_start(c) for c in ast.walk(n.value))
                if hit:
                    for t in n.targets:
                        out |= {x.id for x in ast.walk(t)
                                if isinstance(x, ast.Name)}
            # names computed from those
            changed = True
            while changed:
                changed = False
                for n in walk_no_nested(g.node):
                    if isinstance(n, ast.Assign) and any(
                            isinstance(x, ast.Name) and x.id in out
                            for x in ast.walk(n.value)):
                        for t in n.targets:
                            for x in ast.walk(t):
                                if isinstance(x, ast.Name) and \
                                        x.id not in out:
                                    out.add(x.id)
                                    changed = True
            return out
        nxt = next_start_names()
        for r in walk_no_nested(g.node):
            if not (isinstance(r, ast.Return) and isinstance(
                    r.value, ast.Tuple) and len(r.value.elts) == 3):
                continue
            e = r.value.elts[0]
            cands = [(e, [])]
            if isinstance(e, ast.Name) and e.id != yp:
                cands = alternatives(g.node, e.id) or [(e, [])]
            for v, conds in cands:
                if U(v) != yp:
                    continue
                allc = list(conds) + list(path_conds(r))
                names = {x.id for t, _p in allc for x in ast.walk(t)
                         if isinstance(x, ast.Name)}
                calls = any(is_next_start(c)
                            for t, _p in allc for c in ast.walk(t))
                rep.check(bool(names & nxt) or calls, rule,
                          ctx.fkey(g, r, "same-year-bounded"), g.loc(r),
                          "the week-year %s is answered only below the "
                          "start of week-year %s + 1" % (yp, yp),
                          "%s answers week-year `%s` on a path that never "
                          "compares the date with the start of week-year "
                          "%s + 1: 29-31 December of a year whose successor "
                          "starts in December (2018-365, 2024-366) belong "
                          "to week 1 of the next week-year, not to week 53 "
                          "of this one" % (g.qual, yp, yp), P)


def _r49_match_names_year(ctx, rep, rule, P):
    """Where the calendar->week conversion finds the date by walking the
    days of calendar year Y and comparing month and day, the match also
    says that Y is the date's year: the walk over the start year passes the
    same month and day again a year later (or earlier)."""
    from ..flow import path_conds, single_def
    g = ctx.try_func("data.get_week_date_from_calendar_date")
    if g is None or len(g.params) < 3:
        return
    py, pm, pd = g.params[:3]

    def pairs(conds):
        """{(a, b)} for every conjunct a == b, tuples taken apart"""
        out = set()

        def eq(a, b, depth=0):
            for x in (a, b):
                if isinstance(x, ast.Name) and depth < 2:
                    v = single_def(g.node, x.id)
                    if isinstance(v, ast.Tuple):
                        other = b if x is a else a
                        return eq(v, other, depth + 1)
            if isinstance(a, ast.Tuple) and isinstance(b, ast.Tuple) and \
                    len(a.elts) == len(b.elts):
                for x, y in zip(a.elts, b.elts):
                    eq(x, y, depth)
                return
            out.add((U(a), U(b)))
            out.add((U(b), U(a)))

        def add(t, pol):
            if isinstance(t, ast.UnaryOp) and isinstance(t.op, ast.Not):
                return add(t.operand, not pol)
            if isinstance(t, ast.BoolOp) and isinstance(t.op, ast.And) \
                    and pol:
                for v in t.values:
                    add(v, pol)
                return
            if isinstance(t, ast.Compare) and pol and all(
                    isinstance(o, ast.Eq) for o in t.ops):
                seq = [t.left] + list(t.comparators)
                for a, b in zip(seq, seq[1:]):
                    eq(a, b)
        for t, pol in conds:
            add(t, pol)
        return out
    for lp in walk_no_nested(g.node):
        if not (isinstance(lp, ast.For) and isinstance(
                lp.iter, ast.Call) and U(lp.iter.func) ==
                "iter_months_days" and lp.iter.args and isinstance(
                    lp.target, ast.Tuple) and len(lp.target.elts) == 2):
            continue
        walked = U(lp.iter.args[0])
        im, idd = [U(x) for x in lp.target.elts]
        for r in ast.walk(lp):
            if not isinstance(r, ast.Return):
                continue
            eqs = pairs(path_conds(r))
            if (im, pm) not in eqs or (idd, pd) not in eqs:
                continue
            rep.check(
                (walked, py) in eqs, rule,
                ctx.fkey(g, r, "match-names-year:%s" % walked), g.loc(r),
                "a month-and-day match in the walk over %s also requires "
                "%s == %s" % (walked, walked, py),
                "get_week_date_from_calendar_date takes the first day of "
                "the walk over %s whose month and day equal the date's, "
                "without requiring %s == %s: a week-year that starts in "
                "late December of the year before passes e.g. 30 December "
                "twice, so 2020-12-30 (2020-W53-3) is found a year early, "
                "as day 1 of the week-year (W01-1)" % (walked, walked, py),
                P)


def _r49_years_walked(ctx, rep, rule, P):
    """Where the calendar->week conversion counts days by walking
    iter_months_days year after year from the week-year's start, it walks
    the start year and the two that follow (a week-year reaches into a
    third calendar year)."""
    g = ctx.try_func("data.get_week_date_from_calendar_date")
    if g is None:
        return
    starts = set()
    for n in walk_no_nested(g.node):
        if isinstance(n, ast.Assign) and isinstance(
                n.targets[0], ast.Tuple) and n.targets[0].elts and \
                isinstance(n.targets[0].elts[0], ast.Name):
            starts.add(n.targets[0].elts[0].id)

    def offs_of(e, loopvars):
        """offsets relative to a start-year name"""
        if isinstance(e, ast.Name):
            if e.id in starts:
                return {0}
            return loopvars.get(e.id)
        if isinstance(e, ast.BinOp) and isinstance(
                e.op, (ast.Add, ast.Sub)) and isinstance(
                    e.right, ast.Constant) and isinstance(
                        e.right.value, int):
            base = offs_of(e.left, loopvars)
            if base is None:
                return None
            k = e.right.value if isinstance(e.op, ast.Add) else \
                -e.right.value
            return {b + k for b in base}
        return None
    loopvars = {}
    walked = set()
    unknown = False
    n_loops = 0
    for n in walk_no_nested(g.node):
        if isinstance(n, ast.For) and isinstance(n.target, ast.Name):
            it = n.iter
            vals = None
            if isinstance(it, (ast.List, ast.Tuple)):
                vals = set()
                for e in it.elts:
                    o = offs_of(e, loopvars)
                    if o is None:
                        vals = None
                        break
                    vals |= o
            elif isinstance(it, ast.Call) and U(it.func) == "range" and \
                    len(it.args) == 2:
                a, b = offs_of(it.args[0], loopvars), offs_of(
                    it.args[1], loopvars)
                if a is not None and b is not None and len(a) == 1 and \
                        len(b) == 1:
                    vals = set(range(min(a), min(b)))
            if vals is not None:
                loopvars[n.target.id] = vals
    for n in walk_no_nested(g.node):
        if isinstance(n, ast.For) and isinstance(
                n.iter, ast.Call) and U(n.iter.func) == "iter_months_days" \
                and n.iter.args:
            n_loops += 1
            o = offs_of(n.iter.args[0], loopvars)
            if o is None:
                unknown = True
            else:
                walked |= o
    if not n_loops:
        return
    key = ctx.fkey(g, None, "years-walked")
    if unknown:
        rep.undecided(rule, key, g.loc(), "the years whose days are walked "
                      "are not of the start_year + k form", P)
        return
    rep.check({0, 1, 2} <= walked, rule, key, g.loc(),
              "the day walk covers the start year of the week-year and the "
              "two calendar years after it",
              "get_week_date_from_calendar_date walks the days of the years "
              "start+%s only: a week-year that began in the last days of "
              "December reaches into the first days of January two calendar "
              "years later (2021-01-01 is 2020-W53-5, begun 2019-12-30), "
              "which then raise 'Bad calendar date'" % sorted(walked), P)


RULES["R49"] = r49_week_year_span


# ------------------------------------------------------------------- R50
def r50_length_needs_its_year(ctx):
    """The length of a month depends on the year.  The helper that returns
    it offers a default for callers that do not know the year
    (`year="leap"`: the longest the month can be, used to bound a day whose
    year is missing).  Code that works on a definite date - any TimePoint
    method - may rely on that default only where the object's year is
    tested to be None; everywhere else the year of the same object must be
    passed."""
    rep = ctx.rep
    rule = "R50.length-needs-year"
    from ..flow import path_conds
    rep.need_anchor(rule, "month-length calls")
    target = ctx.try_func("data.get_days_in_month")
    if target is None:
        raise AnalysisError("data.get_days_in_month not found")
    params = target.call_params
    defaults = target.node.args.defaults
    ypar = None
    if defaults and len(params) >= 2:
        ypar = params[len(params) - len(defaults):][0] \
            if "year" not in params else "year"
    if ypar is None:
        rep.anchor(rule, "month-length calls")
        rep.ok(rule, ctx.mkey("data", "get_days_in_month:no-default"), "-",
               "get_days_in_month has no defaulted year parameter", ("C01",),
               nontrivial=False)
        return
    for f in ctx.model.all_functions():
        if f.module.name != "data" or f is target:
            continue
        for c in walk_no_nested(f.node):
            if not (isinstance(c, ast.Call) and isinstance(
                    c.func, ast.Name) and c.func.id == "get_days_in_month"):
                continue
            rep.anchor(rule, "month-length calls")
            b = ctx.bound_args(f, c)
            yv = b.get(ypar)
            props = ("C01", "C05", "C06", "C02", "C09") \
                if "_check_bounds" not in f.qual else ("C09",)
            key = ctx.fkey(f, c, "year-argument")
            unknown_year = any(
                pol and re.search(r"\._year is None$", U(t)) or
                (not pol and re.search(r"\._year is not None$", U(t)))
                for t, pol in path_conds(c))
            if yv is None or (isinstance(yv, ast.Constant) and
                              isinstance(yv.value, str)):
                rep.check(
                    unknown_year, rule, key, f.loc(c),
                    "the longest-possible month length is used only where "
                    "the year is known to be missing",
                    "%s asks for the length of a month without its year "
                    "(%s): the helper then answers for a leap year, so in a "
                    "common year February is taken to have 29 days although "
                    "the year of the date is at hand" % (
                        f.qual, "default" if yv is None else U(yv)), props)
            else:
                rep.ok(rule, key, f.loc(c),
                       "month length asked for year %s" % U(yv), props)


RULES["R50"] = r50_length_needs_its_year


# ------------------------------------------------------------------- R52
def r52_zone_default_precedence(ctx):
    """A text without a zone gets, in this order of precedence: the assumed
    offset the parser was given; no zone at all if it was told to default to
    an unknown zone; otherwise the system's local offset.  Decision table of
    process_time_zone_info: whenever it hands back *no* zone information the
    path has established that no assumed offset was given, and the local
    offset is consulted only on paths where neither option applies."""
    rep = ctx.rep
    rule = "R52.zone-default-precedence"
    P = ("C07",)
    from ..dtable import explore
    f = ctx.try_func("parsers.TimePointParser.process_time_zone_info")
    rep.need_anchor(rule, "zone defaults")
    if f is None:
        raise AnalysisError("TimePointParser.process_time_zone_info not found")
    rep.anchor(rule, "zone defaults")
    sn = f.self_name
    a_none = "%s.assumed_time_zone is None" % sn
    d_unk = "%s.default_to_unknown_time_zone" % sn
    problems = []
    n_paths = 0
    for p in explore(f.node.body):
        if p.outcome != "return" or p.value is None:
            continue
        n_paths += 1
        txt = U(p.value)
        empty = isinstance(p.value, ast.Dict) and not p.value.keys
        raw = p.stmt.value if p.stmt is not None else None
        if empty and isinstance(raw, ast.Name) and any(
                k.startswith("@%s[" % raw.id) for k in p.env):
            empty = False       # items were stored into the returned dict
        uses_local = any("get_local_time_zone" in U(v)
                         for k, v in p.env.items())
        if empty and p.decisions.get(a_none) is not True:
            problems.append(
                "no zone information is returned on a path that has not "
                "established that no assumed offset was given (%s)" %
                (p.when()[:80] or "unconditionally"))
        if uses_local and "time_zone_hour" in " ".join(p.env) and (
                p.decisions.get(a_none) is not True or
                p.decisions.get(d_unk) is not False):
            problems.append(
                "the local offset is used on a path where %s" % (
                    "an assumed offset may have been given"
                    if p.decisions.get(a_none) is not True else
                    "an unknown zone may have been asked for"))
    if not n_paths:
        rep.error("R52", "process_time_zone_info: no returning path read")
        return
    # an *empty* mapping (a strptime format without %z) is "no zone given"
    # just as None is: the assumed offset is applied on a path where the
    # argument was a mapping
    prm = f.call_params[0] if f.call_params else None
    if prm:
        applied_for_mapping = False
        for p in explore(f.node.body):
            if p.outcome != "return":
                continue
            if p.decisions.get("%s is None" % prm) is False and any(
                    "assumed_time_zone" in U(v) for k, v in p.env.items()
                    if k.startswith("@")):
                applied_for_mapping = True
        rep.check(applied_for_mapping, rule,
                  ctx.fkey(f, None, "empty-mapping"), f.loc(),
                  "an empty zone mapping receives the defaults like None",
                  "process_time_zone_info applies the assumed/local offset "
                  "only when its argument is None: an empty mapping (what "
                  "strptime passes for a format without %%z) is returned "
                  "unchanged and the point silently becomes UTC",
                  ("C17", "C07"))
    rep.check(not problems, rule, ctx.fkey(f, None, "precedence"), f.loc(),
              "assumed offset, then unknown zone, then local offset (%d "
              "paths)" % n_paths,
              "process_time_zone_info: %s - an assumed offset must win over "
              "default_to_unknown_time_zone, which must win over the local "
              "offset" % "; ".join(sorted(set(problems))), P)


RULES["R52"] = r52_zone_default_precedence
