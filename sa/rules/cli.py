"""R30 CLI-FLOW (C19, C15) and R13d YEAR-KIND (C17)."""
import ast
import re

from ..fdai import Engine, freeze, thaw
from ..fold import NotConst
from ..model import AnalysisError, U, walk_no_nested, parent, ancestors, npos
from .typestate import TPPlugin, TPEngine, to_rep_table, _istp


def _argparse_specs(ctx, f):
    """[(flags, kwargs dict of folded values)] from the option table of
    parse_args."""
    specs = []
    for n in walk_no_nested(f.node):
        if isinstance(n, ast.For) and isinstance(
                n.iter, (ast.List, ast.Tuple)) and \
                isinstance(n.target, ast.Tuple) and len(n.target.elts) == 2:
            try:
                table = ctx.folder.fold(n.iter, f.module, None, {})
            except NotConst as exc:
                raise AnalysisError("parse_args: option table does not "
                                    "fold: %s" % exc)
            for flags, kw in table:
                specs.append((list(flags), dict(kw)))
    if not specs:
        raise AnalysisError("parse_args: option table not found")
    return specs


def _dest(flags, kw):
    if "dest" in kw:
        return kw["dest"]
    longs = [x for x in flags if x.startswith("--")]
    name = (longs[0] if longs else flags[0]).lstrip("-")
    return name.replace("-", "_").rstrip("=")


def r30_cli_flow(ctx):
    rep = ctx.rep
    P = ("C19",)
    main = ctx.func("main.main")
    pa = ctx.func("main.parse_args")
    oper = ctx.model.cls("DateTimeOperator")
    # (a) dispatch inside try/except ValueError -> sys.exit ----------------------
    rule = "R30.handler"
    rep.need_anchor(rule, "dispatch calls")
    tries = [n for n in walk_no_nested(main.node) if isinstance(n, ast.Try)]
    consumer_names = ("diff_time_point_strs", "iter_recurrence_str",
                      "format_duration_str", "process_time_point_str")
    calls = [n for n in walk_no_nested(main.node) if isinstance(n, ast.Call)
             and isinstance(n.func, ast.Attribute) and
             n.func.attr in consumer_names]
    seen = set()
    for c in calls:
        rep.anchor(rule, "dispatch calls")
        seen.add(c.func.attr)
        t = next((a for a in ancestors(c) if isinstance(a, ast.Try)), None)
        inside = t is not None and any(c is x for st in t.body
                                       for x in ast.walk(st))
        good_handler = False
        if inside:
            for h in t.handlers:
                tn = U(h.type) if h.type is not None else "<bare>"
                catches = tn in ("ValueError", "Exception", "<bare>",
                                 "BaseException") or (
                                     isinstance(h.type, ast.Tuple) and
                                     "ValueError" in [U(x) for x in
                                                      h.type.elts])
                exits = any(isinstance(x, ast.Call) and U(x.func) ==
                            "sys.exit" and x.args and
                            U(x.args[0]) == (h.name or "")
                            for x in ast.walk(h))
                if catches and exits:
                    good_handler = True
        # for the recurrence generator the *loop* must be inside
        loop_ok = True
        if c.func.attr == "iter_recurrence_str":
            lp = next((a for a in ancestors(c) if isinstance(a, ast.For)),
                      None)
            loop_ok = lp is not None and t is not None and any(
                lp is x for st in t.body for x in ast.walk(st))
            if lp is None and isinstance(parent(c), ast.Call) and \
                    c in parent(c).args:
                # consumed by the expression it is an argument of
                # ('\n'.join(islice(gen, n))): that statement is in the try
                loop_ok = inside
        rep.check(inside and good_handler and loop_ok, rule,
                  ctx.fkey(main, None, "in-try:" + c.func.attr), main.loc(c),
                  "%s runs inside `try ... except ValueError: sys.exit(exc)`"
                  % c.func.attr,
                  "main calls %s %s: a library error for a bad argument "
                  "escapes as a traceback instead of `sys.exit(message)`" % (
                      c.func.attr, "outside the try block" if not inside else
                      ("under a handler that does not catch ValueError and "
                       "exit with the exception" if not good_handler else
                       "but iterates its generator outside the try")), P)
    missing = set(consumer_names) - seen
    rep.check(not missing, rule, ctx.fkey(main, None, "dispatch-complete"),
              main.loc(), "all four dispatch targets are called",
              "main no longer dispatches to %s" % sorted(missing), P)
    for t in tries:
        def prints(stmts):
            return any(isinstance(x, ast.Call) and U(x.func) == "print"
                       for st in stmts for x in ast.walk(st))

        def handler_leaves(h):
            last = h.body[-1] if h.body else None
            return isinstance(last, (ast.Raise, ast.Return)) or (
                isinstance(last, ast.Expr) and isinstance(
                    last.value, ast.Call) and U(last.value.func) in (
                        "sys.exit", "exit", "os._exit"))
        from ..flow import block_of
        _o, _f, blk = block_of(t)
        after = blk[blk.index(t) + 1:] if blk and t in blk else []
        printed_in_else = prints(t.orelse) or (
            prints(after) and all(handler_leaves(h) for h in t.handlers))
        rep.check(printed_in_else, rule, ctx.fkey(main, None, "print-else"),
                  main.loc(t), "the result is printed in the else branch",
                  "main does not print the result in the try's else "
                  "branch", P, nontrivial=False)
    # (b) options reach the operator --------------------------------------------
    rule = "R30.plumbing"
    specs = _argparse_specs(ctx, pa)
    dests = {_dest(fl, kw): (fl, kw) for fl, kw in specs}
    rep.need_anchor(rule, "options")
    reads = set()
    argsv = "args"
    for n in walk_no_nested(main.node):
        if isinstance(n, ast.Assign) and isinstance(n.value, ast.Call) and \
                U(n.value.func) == "parse_args" and isinstance(
                    n.targets[0], ast.Name):
            argsv = n.targets[0].id
    for n in walk_no_nested(main.node):
        if isinstance(n, ast.Attribute) and isinstance(n.value, ast.Name) \
                and n.value.id == argsv:
            reads.add(n.attr)
    for d in sorted(dests):
        rep.anchor(rule, "options")
        rep.check(d in reads, rule, ctx.fkey(main, None, "reads:" + d),
                  main.loc(), "option %s is consumed by main" % d,
                  "option %s (%s) is parsed but never read by main: it "
                  "selects nothing" % (d, dests[d][0]), P)
    ctor = [n for n in walk_no_nested(main.node) if isinstance(n, ast.Call)
            and U(n.func) == "DateTimeOperator"]
    want = {"parse_format": "args.parse_format", "utc_mode": "args.utc_mode",
            "calendar_mode": "args.calendar",
            "ref_point_str": "args.ref_point_str"}
    got = {k: U(v).replace(argsv + ".", "args.")
           for k, v in ctx.bound_args(main, ctor[0]).items()} if ctor else {}
    rep.check(got == want, rule, ctx.fkey(main, None, "operator-keywords"),
              main.loc(), "--parse-format, --utc, --calendar and --ref reach "
              "the operator keyword of the same meaning",
              "DateTimeOperator is built with %s; expected %s" % (got, want),
              P + ("C15",))
    # positional wiring of the dispatch calls
    wiring = {
        "diff_time_point_strs": ["item:0", "item:1",
                                 "opt:offsets1", "opt:offsets2",
                                 "opt:print_format",
                                 "opt:duration_print_format"],
        "iter_recurrence_str": ["item:0", "opt:print_format"],
        "format_duration_str": ["item:0",
                                "opt:duration_print_format"],
        "process_time_point_str": ["item:0", "opt:offsets1",
                                   "opt:print_format"]}
    from ..flow import expand_values as _ev

    def _is_items(e, depth=0):
        """the positional items (as parsed, or re-read from stdin)"""
        if U(e) == argsv + ".items":
            return True
        if isinstance(e, ast.Call) and U(e.func) in ("list", "tuple") and \
                e.args:
            return _is_items(e.args[0], depth)
        if isinstance(e, ast.Name) and depth < 3:
            lv = _ev(main.node, e, ())
            return bool(lv) and not (len(lv) == 1 and lv[0][0] is e) and all(
                _is_items(v, depth + 1) or "stdin" in U(v) for v, _ in lv)
        return False

    def _origin(e):
        """where an argument comes from: opt:<dest> / item:<i> (None, the
        absent first item, is left out)"""
        out = set()
        for v, _c in _ev(main.node, e, ()):
            if isinstance(v, ast.Constant) and v.value is None:
                continue
            if isinstance(v, ast.Attribute) and U(v.value) == argsv:
                out.add("opt:" + v.attr)
            elif isinstance(v, ast.Subscript) and isinstance(
                    v.slice, ast.Constant) and isinstance(
                        v.slice.value, int) and _is_items(v.value):
                out.add("item:%d" % v.slice.value)
            else:
                out.add("?" + U(v)[:40])
        return "|".join(sorted(out))
    # (a method called at several places - one call per case, e.g. with
    # None where there is no item - is wired by all its calls together)
    by_method = {}
    for c in calls:
        by_method.setdefault(c.func.attr, []).append(c)
    for mname, cs in by_method.items():
        f = oper.methods.get(mname)
        if f is None:
            continue
        c = cs[0]
        params = f.call_params
        bound = {}
        for c_ in cs:
            for k_, v_ in ctx.bound_args(main, c_).items():
                o_ = _origin(v_)
                if o_:
                    prev_ = bound.get(k_)
                    bound[k_] = o_ if not prev_ or prev_ == o_ else \
                        "|".join(sorted(set(prev_.split("|")) |
                                        set(o_.split("|"))))
                else:
                    bound.setdefault(k_, "")
        exp = dict(zip(params, wiring[c.func.attr]))
        rep.check(bound == exp, rule,
                  ctx.fkey(main, None, "wiring:" + c.func.attr), main.loc(c),
                  "%s receives %s" % (c.func.attr, exp),
                  "%s is called with %s; expected %s" % (c.func.attr, bound,
                                                         exp), P)
    # (c) choices valid downstream -----------------------------------------------
    rule = "R30.choices"
    modes = ctx.folder.need_class_const(ctx.model.cls("Calendar"), "MODES")
    cal_choices = dests.get("calendar", ([], {}))[1].get("choices", [])
    rep.check(bool(cal_choices) and set(cal_choices) <= set(modes), rule,
              ctx.fkey(pa, None, "calendar-choices"), pa.loc(),
              "--calendar choices %s are keys of Calendar.MODES" %
              cal_choices,
              "--calendar offers %s which Calendar.MODES does not know (a "
              "KeyError outside the error handler)" % sorted(
                  set(cal_choices) - set(modes)), P + ("C15",))
    fd = oper.methods["format_duration_str"]
    opt_keys = None
    opt_dict = None
    for n in walk_no_nested(fd.node):
        if isinstance(n, ast.Assign) and isinstance(n.value, ast.Dict) and \
                {k.value for k in n.value.keys
                 if isinstance(k, ast.Constant)} >= {"S", "M", "H"}:
            opt_dict = n
            opt_keys = {k.value for k in n.value.keys
                        if isinstance(k, ast.Constant)}
    tot = dests.get("duration_print_format", ([], {}))[1].get("choices", [])
    rep.check(opt_keys is not None and {c.upper() for c in tot} <= opt_keys
              and bool(tot), rule, ctx.fkey(pa, None, "as-total-choices"),
              pa.loc(), "--as-total choices map onto the units of "
              "format_duration_str", "--as-total offers %s, "
              "format_duration_str knows %s" % (tot, opt_keys), P)
    # --as-total scales
    if opt_keys is not None:
        scales = {}
        secs = None
        for n in walk_no_nested(fd.node):
            if isinstance(n, ast.Assign) and isinstance(
                    n.value, ast.Call) and U(n.value.func).endswith(
                        ".get_seconds"):
                secs = U(n.targets[0])
        for k, v in zip(opt_dict.value.keys, opt_dict.value.values):
            scales[k.value] = U(v).replace(secs or "time", "time")
        rep.check(scales == {"S": "time", "M": "time / 60",
                             "H": "time / 3600"}, rule,
                  ctx.fkey(fd, None, "total-units"), fd.loc(),
                  "totals are seconds, seconds/60, seconds/3600",
                  "--as-total units are computed as %s" % scales, P)
    # (d) calendar mode set on every path, before parsers ------------------------
    rule = "R30.calendar"
    init = oper.methods["__init__"]
    body = init.node.body
    from ..flow import expand_values, is_absent_test, path_conds
    set_call = None
    first_parser = None
    for n in walk_no_nested(init.node):
        if isinstance(n, ast.Call) and U(n.func).endswith(
                "set_calendar_mode") and set_call is None:
            set_call = n
        if isinstance(n, ast.Call) and U(n.func) in (
                "TimePointParser", "TimePointDumper") and (
                    first_parser is None or npos(n) < npos(first_parser)):
            first_parser = n
    params = set(init.call_params)
    uncond = set_call is not None and not path_conds(set_call)
    before = set_call is not None and first_parser is not None and \
        npos(set_call) < npos(first_parser)
    env_ok = False
    if set_call is not None and (set_call.args or set_call.keywords):
        arg = set_call.args[0] if set_call.args else \
            set_call.keywords[0].value
        leaves_ = expand_values(init.node, arg, ())
        opt = [(v, c) for v, c in leaves_ if isinstance(v, ast.Name) and
               v.id in params]
        env = [(v, c) for v, c in leaves_ if "getenv" in U(v) and
               "ENV_CALENDAR_MODE" in U(v)]
        env_ok = bool(opt) and bool(env) and len(opt) + len(env) == len(
            leaves_) and all(is_absent_test(c, opt[0][0].id)
                             for _v, c in env)
    rep.check(uncond and before and env_ok, rule,
              ctx.fkey(init, None, "set-mode-first"), init.loc(),
              "the operator sets the calendar mode unconditionally (option, "
              "else environment variable) before any parser is built",
              "DateTimeOperator.__init__ does not call set_calendar_mode "
              "unconditionally before building its parsers (unconditional: "
              "%s, before the parsers: %s, option else environment: %s)" % (
                  uncond, before, env_ok), P + ("C15",))
    # explicit options win over the environment variables
    rule_env = "R30.env-precedence"
    for n in walk_no_nested(init.node):
        if not (isinstance(n, ast.Call) and U(n.func) in ("os.getenv",
                                                          "os.environ.get")):
            continue
        dflt = [U(a) for a in n.args[1:]] + [U(k.value) for k in n.keywords]
        conds_ = path_conds(n)
        guarded = any(is_absent_test(conds_, p_) for p_ in params)
        bad_default = [d for d in dflt if d in params]
        rep.check(guarded and not bad_default, rule_env,
                  ctx.fkey(init, None, "getenv:" + U(n.args[0])),
                  init.loc(n),
                  "%s is consulted only when the corresponding option was "
                  "not given" % U(n.args[0]),
                  "DateTimeOperator.__init__ reads %s %s: the environment "
                  "variable then overrides an explicitly given option" % (
                      U(n.args[0]), "with the option as mere default (%s)" %
                      bad_default if bad_default else "unconditionally"),
                  P + ("C15",))
    # ... and the command line must leave such an option empty when it is
    # not given: an argparse default would make the fallback unreachable
    env_params = set()
    for n in walk_no_nested(init.node):
        if isinstance(n, ast.Call) and U(n.func) in ("os.getenv",
                                                     "os.environ.get"):
            for t_, _pol in path_conds(n):
                for w in re.findall(r"\w+", U(t_)):
                    if w in init.call_params:
                        env_params.add(w)
    ctor = [c for c in walk_no_nested(main.node) if isinstance(c, ast.Call)
            and U(c.func).endswith("DateTimeOperator")]
    if ctor and env_params:
        b = ctx.bound_args(main, ctor[0])
        for prm in sorted(env_params):
            v = b.get(prm)
            if not (isinstance(v, ast.Attribute) and isinstance(
                    v.value, ast.Name)):
                continue
            dest = v.attr
            spec = dests.get(dest)
            if spec is None:
                continue
            dflt_ = spec[1].get("default")
            rep.check(not dflt_, rule_env,
                      ctx.fkey(pa, None, "no-default:" + dest), pa.loc(),
                      "option %s has no default, so the operator's "
                      "environment fallback for %s stays reachable" % (
                          dest, prm),
                      "option %s is given the default %r, so `%s` is never "
                      "empty and the environment variable the operator "
                      "falls back to when it is empty can no longer take "
                      "effect from the command" % (dest, dflt_, prm),
                      P + ("C15",))
    sm = oper.methods["set_calendar_mode"]
    rep.check("data.Calendar.set_mode" in ctx.res.callees(sm.qual), rule,
              ctx.fkey(sm, None, "reaches-set-mode"), sm.loc(),
              "set_calendar_mode reaches Calendar.set_mode",
              "set_calendar_mode no longer calls Calendar.set_mode",
              P + ("C15",))
    # the zone the parser assumes: (0, 0) exactly under utc_mode
    utc = False
    for n in walk_no_nested(init.node):
        if isinstance(n, ast.Call) and U(n.func) == "TimePointParser":
            az = ctx.bound_args(init, n).get("assumed_time_zone")
            if az is None:
                continue
            lv = expand_values(init.node, az, ())
            zero = [c for v, c in lv if U(v) == "(0, 0)"]
            rest = [c for v, c in lv if U(v) != "(0, 0)"]
            def _utc(c, want):
                for t_, pol in c:
                    while isinstance(t_, ast.UnaryOp) and isinstance(
                            t_.op, ast.Not):
                        t_, pol = t_.operand, not pol
                    if isinstance(t_, (ast.Name, ast.Attribute)) and \
                            U(t_).endswith("utc_mode") and pol == want:
                        return True
                return False
            utc = bool(zero) and bool(rest) and all(
                _utc(c, True) for c in zero) and all(
                    _utc(c, False) for c in rest)
    dp = oper.methods["date_parse"]
    # the conversion stands on every path to the returned pair: its
    # statement is a preceding sibling of (an ancestor of) every such return
    from ..flow import block_of
    conv = [n for n in walk_no_nested(dp.node) if isinstance(n, ast.If) and
            U(n.test) == "self.utc_mode" and "to_utc()" in U(n)]
    rets2 = [n for n in walk_no_nested(dp.node) if isinstance(n, ast.Return)
             and isinstance(n.value, ast.Tuple) and len(n.value.elts) == 2]
    utc2 = bool(conv) and bool(rets2)
    for r in rets2:
        covered = False
        for cv in conv:
            _o, _f, blk = block_of(cv)
            chain = [r] + list(ancestors(r))
            for a in chain:
                if blk is not None and a in blk and blk.index(cv) < \
                        blk.index(a):
                    covered = True
        utc2 = utc2 and covered
    rep.check(utc and utc2, rule, ctx.fkey(init, None, "utc-mode"),
              init.loc(), "--utc assumes zone (0, 0) and converts results "
              "to UTC", "--utc no longer selects the assumed zone (0, 0) "
              "and the final to_utc()", P)
    # (e) escape pairing ---------------------------------------------------------
    rule = "R30.escape"
    esc = any(isinstance(n, ast.ListComp) and "startswith('-P')" in U(n)
              for n in walk_no_nested(pa.node))
    strips = {}
    pargs = "args"
    for n in walk_no_nested(pa.node):
        if isinstance(n, ast.Assign) and isinstance(n.value, ast.Call) and \
                "parse_" in U(n.value.func) and "_args" in U(n.value.func) \
                and isinstance(n.targets[0], ast.Name):
            pargs = n.targets[0].id
    cross = []
    for n in walk_no_nested(pa.node):
        if isinstance(n, ast.Assign) and "replace('\\\\', '')" in U(n.value):
            tgt = U(n.targets[0])
            # the list that is unescaped is the list that is assigned
            srcs = set()
            for x in ast.walk(n.value):
                for g in getattr(x, "generators", ()):
                    it = g.iter
                    if isinstance(it, ast.Name):
                        # a temporary: what it was last bound to before
                        prev = [a for a in walk_no_nested(pa.node)
                                if isinstance(a, ast.Assign) and any(
                                    isinstance(t_, ast.Name) and
                                    t_.id == it.id for t_ in a.targets) and
                                npos(a) < npos(n)]
                        if prev:
                            it = max(prev, key=npos).value
                    srcs.add(U(it))
            if srcs and tgt not in srcs:
                cross.append("%s from %s" % (tgt, sorted(srcs)))
                continue
            strips[tgt.replace(pargs + ".", "args.")] = True
    rep.check(not cross, rule, ctx.fkey(pa, None, "escape-same-list"),
              pa.loc(), "each offset list is unescaped from itself",
              "parse_args rebuilds %s: the offsets of one date-time are "
              "replaced by those of the other" % "; ".join(cross), P)
    # an argument is handed to the library whole: the command line does
    # not take it apart at a character the ISO 8601 notations use themselves
    # (the decimal comma of PT1,5H, the ':' and '-' of a date-time)
    for g_ in ctx.model.all_functions():
        if g_.module.name != "main":
            continue
        for n in walk_no_nested(g_.node):
            if isinstance(n, ast.Call) and isinstance(
                    n.func, ast.Attribute) and n.func.attr in (
                        "split", "rsplit", "partition", "rpartition") and \
                    n.args and isinstance(n.args[0], ast.Constant) and \
                    isinstance(n.args[0].value, str) and n.args[0].value \
                    and all(ch in ",.:-+/TPWZ" for ch in n.args[0].value):
                rep.violation(
                    rule, ctx.fkey(g_, n, "split-argument"), g_.loc(n),
                    "%s takes an argument apart at %r (`%s`): that "
                    "character belongs to the ISO 8601 notations (PT1,5H, "
                    "-PT0,25H - also what the command prints itself), so "
                    "such an argument is cut in two and refused or "
                    "misread" % (g_.qual, n.args[0].value, U(n)[:50]), P)
    strip_fd = any("replace('\\\\', '')" in U(n)
                   for n in walk_no_nested(fd.node))
    rep.check(esc and strips.get("args.offsets1") and
              strips.get("args.offsets2") and strip_fd, rule,
              ctx.fkey(pa, None, "escape-pairing"), pa.loc(),
              "-P... arguments are escaped before argparse and the "
              "backslash is stripped at both offset lists and in "
              "format_duration_str",
              "escape/strip pairing broken: escaped=%s, stripped at %s, "
              "format_duration_str strips=%s" % (esc, sorted(strips),
                                                 strip_fd), P)
    # (f) print in the notation parsed -----------------------------------------
    rule = "R30.notation"
    # date_parse: the ISO 8601 branch parses with dump_as_parsed=True and
    # returns (point, point.dump_format)
    okf = False
    # date_parse itself or a private helper of the operator it hands the
    # default-format case to
    cands = [dp] + [m_ for nm, m_ in oper.methods.items()
                    if nm.startswith("_") and not nm.startswith("__") and
                    any(isinstance(c, ast.Call) and isinstance(
                        c.func, ast.Attribute) and c.func.attr == nm
                        for c in walk_no_nested(dp.node))]
    for g in cands:
        parsed_vars = {
            U(n.targets[0]) for n in walk_no_nested(g.node)
            if isinstance(n, ast.Assign) and isinstance(n.value, ast.Call)
            and U(n.value.func).endswith("time_point_parser.parse") and any(
                k.arg == "dump_as_parsed" and U(k.value) == "True"
                for k in n.value.keywords)}
        for n in walk_no_nested(g.node):
            if not (isinstance(n, ast.Return) and isinstance(
                    n.value, ast.Tuple) and len(n.value.elts) == 2):
                continue
            ptv, fmv = U(n.value.elts[0]), U(n.value.elts[1])
            if ptv not in parsed_vars:
                continue
            direct = fmv == ptv + ".dump_format"
            kept = any(isinstance(x, ast.Assign) and U(x.targets[0]) == fmv
                       and U(x.value) == ptv + ".dump_format"
                       for x in walk_no_nested(g.node))
            if direct or kept:
                okf = True
    pts = oper.methods["process_time_point_str"]
    okp = False
    for n in walk_no_nested(pts.node):
        if isinstance(n, ast.Assign) and isinstance(
                n.targets[0], ast.Tuple) and isinstance(
                    n.value, ast.Call) and U(n.value.func).endswith(
                        ".date_parse"):
            tpv, fmv = [U(e) for e in n.targets[0].elts]
            pf = pts.call_params[2] if len(pts.call_params) > 2 else \
                "print_format"
            from ..flow import path_conds
            for x in walk_no_nested(pts.node):
                if isinstance(x, ast.Return) and isinstance(
                        x.value, ast.Call) and U(x.value.func).endswith(
                            ".date_format") and \
                        [U(a) for a in x.value.args] == [fmv, tpv]:
                    conds = [(U(t), pol) for t, pol in path_conds(x)]
                    if (pf, False) in conds:
                        okp = True
    rep.check(okf and okp, rule, ctx.fkey(dp, None, "as-parsed"), dp.loc(),
              "an ISO 8601 argument is re-printed with the expression it "
              "was parsed with unless --print-format is given",
              "date_parse/process_time_point_str no longer carry the "
              "parsed expression through as the print format", P)
    # the print format is the caller's: a method of the operator that
    # takes a `print_format` formats with that - a missing one means "as the
    # library writes it" (str(point) / the notation parsed) and is not
    # replaced by a format of the operator's choosing
    for g_ in ctx.model.all_functions():
        if g_.module.name != "datetimeoper" or "print_format" not in (
                list(g_.params) + list(g_.kwonly)):
            continue
        for n in walk_no_nested(g_.node):
            tgts = []
            if isinstance(n, ast.Assign):
                tgts = n.targets
            elif isinstance(n, (ast.AugAssign, ast.AnnAssign)):
                tgts = [n.target]
            for t in tgts:
                for x in ast.walk(t):
                    if isinstance(x, ast.Name) and x.id == "print_format" \
                            and isinstance(getattr(n, "value", None),
                                           ast.AST) and not any(
                                isinstance(y, ast.Name) and
                                y.id in g_.params and y.id not in (
                                    "print_format", g_.self_name)
                                for y in ast.walk(n.value)):
                        rep.violation(
                            "R30.notation",
                            ctx.fkey(g_, n, "format-rebound"), g_.loc(n),
                            "%s replaces the caller's print format by "
                            "`%s`: without a format the command prints what "
                            "the library writes for the point (its own "
                            "notation, offset and precision), not a format "
                            "the operator picks" % (g_.qual,
                                                    U(n.value)[:50]), P)
    # recurrence output: first N in order
    rule = "R30.recurrence-output"
    lp = [n for n in walk_no_nested(main.node) if isinstance(n, ast.For) and
          "iter_recurrence_str" in U(n.iter)]
    ok = False
    if not lp:
        # '\n'.join(islice(<iteration>, <... max_results ...>))
        for n in walk_no_nested(main.node):
            if isinstance(n, ast.Call) and U(n.func) == "'\\n'.join" and \
                    len(n.args) == 1 and isinstance(n.args[0], ast.Call) and \
                    len(n.args[0].args) == 2 and \
                    "iter_recurrence_str" in U(n.args[0].args[0]) and \
                    ("%s.max_results" % argsv) in U(n.args[0].args[1]):
                taker = U(n.args[0].func).split(".")[-1]
                if taker == "islice":
                    ok = True
                else:
                    # a generator of this module that stops at its count
                    g = ctx.try_func("main." + taker)
                    if g is not None and len(g.params) == 2 and any(
                            isinstance(x, (ast.Yield, ast.YieldFrom))
                            for x in ast.walk(g.node)) and any(
                                isinstance(x, ast.Compare) and
                                g.params[1] in U(x)
                                for x in ast.walk(g.node)):
                        ok = True
    if lp:
        body = lp[0].body
        from ..flow import single_def as _sd30

        def _is_max(e):
            if U(e) == "%s.max_results" % argsv:
                return True
            if isinstance(e, ast.Name):
                v_ = _sd30(main.node, e.id)
                return v_ is not None and U(v_) == "%s.max_results" % argsv
            return False

        def _stops_at_max(t):
            """len(<collected>) >= max_results, written either way round"""
            if not (isinstance(t, ast.Compare) and len(t.ops) == 1):
                return False
            a, op, b = t.left, t.ops[0], t.comparators[0]
            if isinstance(op, ast.LtE):
                a, b, op = b, a, ast.GtE()
            counted = (isinstance(a, ast.Call) and U(a.func) == "len") or \
                isinstance(a, ast.Name)      # len(collected) or a counter
            return isinstance(op, ast.GtE) and counted and _is_max(b)
        ok = len(body) == 2 and isinstance(body[0], ast.Expr) and \
            ".append(" in U(body[0]) and isinstance(body[1], ast.If) and \
            _stops_at_max(body[1].test) and isinstance(
                body[1].body[0], ast.Break)
        ok = ok and any("'\\n'.join(" in U(n) for n in walk_no_nested(
            main.node) if isinstance(n, ast.Assign))
    rep.check(ok, rule, ctx.fkey(main, None, "first-n"), main.loc(),
              "recurrence output is the first max_results items of "
              "iteration, in order, one per line",
              "recurrence output loop no longer appends then stops at "
              "max_results and joins with newlines", P)


# ------------------------------------------------------------------- R13d
class _DumpPlugin(TPPlugin):
    """TPPlugin + abstraction of `"x" in properties` tests by two booleans."""
    WEEK = {"week_of_year", "day_of_week"}
    CAL = {"month_of_year", "day_of_month", "day_of_year"}

    def __init__(self, ctx, f, summaries, to_rep, hw, hc):
        super().__init__(ctx, f, summaries, to_rep)
        self.hw, self.hc = hw, hc
        self.reads = []

    def refine(self, test, d):
        if isinstance(test, ast.Compare) and len(test.ops) == 1 and \
                isinstance(test.ops[0], (ast.In, ast.NotIn)) and isinstance(
                    test.left, ast.Constant) and isinstance(
                        test.left.value, str):
            v = test.left.value
            if v in self.WEEK:
                r = self.hw
            elif v in self.CAL:
                r = self.hc
            else:
                return [d], [dict(d)]
            if isinstance(test.ops[0], ast.NotIn):
                r = not r
            if r is None:
                return [d], [dict(d)]
            return ([d], []) if r else ([], [d])
        if isinstance(test, ast.Attribute) and test.attr == "truncated":
            return [], [d]           # non-truncated scope
        if isinstance(test, ast.Compare) and "custom_time_zone" in U(test):
            return [d], [dict(d)]
        return super().refine(test, d)

    def eval_multi(self, e, d):
        if isinstance(e, ast.Call) and U(e.func) == "getattr" and e.args \
                and isinstance(e.args[0], ast.Name):
            cur = d.get(e.args[0].id)
            if _istp(cur):
                self.reads.append((e, cur[2]))
        if isinstance(e, ast.Attribute) and isinstance(e.value, ast.Name) \
                and e.attr in ("year", "century", "year_of_century"):
            cur = d.get(e.value.id)
            if _istp(cur):
                self.reads.append((e, cur[2]))
        return super().eval_multi(e, d)


def r13d_year_kind(ctx):
    rep = ctx.rep
    rule = "R13.year-kind"
    P = ("C17",)
    from .typestate import tp_analysis
    summaries, runs, rounds = tp_analysis(ctx)
    to_rep = to_rep_table(ctx)
    sf = ctx.func("dumpers.TimePointDumper.strftime")
    df = ctx.func("dumpers.TimePointDumper._dump_expression_with_properties")
    rep.need_anchor(rule, "strftime receivers")
    tpn = sf.call_params[0]
    for r0 in ("cal", "ord", "week"):
        rep.anchor(rule, "strftime receivers")
        # 1. representation handed to the dump routine by strftime
        p = _DumpPlugin(ctx, sf, summaries, to_rep, None, None)
        handed = set()

        class P1(_DumpPlugin):
            def eval_multi(s, e, d):
                if isinstance(e, ast.Call) and U(e.func).endswith(
                        "._dump_expression_with_properties") and e.args \
                        and isinstance(e.args[0], ast.Name):
                    cur = d.get(e.args[0].id)
                    if _istp(cur):
                        handed.add(cur[2])
                return _DumpPlugin.eval_multi(s, e, d)
        p = P1(ctx, sf, summaries, to_rep, None, None)
        d = {tpn: ("tp", "param:" + tpn, r0, frozenset())}
        TPEngine(p).run(sf.node.body, {freeze(d)})
        if not handed:
            rep.error("R13", "strftime: call of _dump_expression_with_"
                      "properties not found")
            continue
        # 2. inside the dump routine with no week directive (the strftime
        # table has none: R29)
        final = set()
        for r1 in handed:
            for hc in (True, False):
                p2 = _DumpPlugin(ctx, df, summaries, to_rep, False, hc)
                d2 = {df.call_params[0]: ("tp", "param", r1, frozenset())}
                TPEngine(p2).run(df.node.body, {freeze(d2)})
                final |= {rr for _, rr in p2.reads}
        rep.check(
            "week" not in final and bool(final), rule,
            ctx.fkey(sf, None, "receiver:" + r0), sf.loc(),
            "for a %s-date point strftime reads its properties from a %s "
            "form: %%Y is the calendar year" % (r0, "/".join(sorted(final))),
            "strftime on a week-date point reads the year properties from "
            "the week-date form (week-year): for dates such as 2008-W01-1 "
            "(2007-12-31) %%Y prints the ISO week-year, not the civil year",
            P)


RULES = {"R30": r30_cli_flow, "R13d": r13d_year_kind}


# ------------------------------------------------------------------- R51
def r51_offsets_one_by_one(ctx):
    """Offsets given on the command line are durations that may mix nominal
    (month, year) and exact units; adding a point to a sum of durations is
    not the same as adding the durations one after the other (days are
    applied before months within one addition, and each month/year step is
    clamped).  In the operator layer, durations parsed from offsets are
    therefore applied to the point individually: no Duration is ever added
    to (or accumulated into) another Duration there."""
    rep = ctx.rep
    rule = "R51.offsets-one-by-one"
    P = ("C19",)
    oper = ctx.model.cls("DateTimeOperator")
    rep.need_anchor(rule, "operator methods")
    bad = []
    # value origin: what holds a parsed duration (or a list of them)
    dur_methods = set()

    def taint(f):
        """-> ({names holding a duration}, {names holding a list of them},
        is_dur(expr), is_list(expr))"""
        durs, lists = set(), set()

        def is_dur(e):
            if isinstance(e, ast.Name):
                return e.id in durs
            if isinstance(e, ast.Call):
                fn = U(e.func)
                if fn.endswith("duration_parser.parse"):
                    return True
                if isinstance(e.func, ast.Attribute) and isinstance(
                        e.func.value, ast.Name) and e.func.value.id == \
                        f.self_name and e.func.attr in dur_methods:
                    return True
                return False
            if isinstance(e, ast.Subscript):
                return is_list(e.value) and not isinstance(e.slice, ast.Slice)
            if isinstance(e, ast.BinOp):
                # point + duration is a point; duration * n a duration
                if isinstance(e.op, (ast.Add, ast.Sub)):
                    return is_dur(e.left) and is_dur(e.right)
                return is_dur(e.left) or is_dur(e.right)
            if isinstance(e, ast.UnaryOp):
                return is_dur(e.operand)
            if isinstance(e, ast.IfExp):
                return is_dur(e.body) or is_dur(e.orelse)
            return False

        def is_list(e):
            if isinstance(e, ast.Name):
                return e.id in lists
            if isinstance(e, (ast.ListComp, ast.GeneratorExp)):
                bind(e)
                return is_dur(e.elt)
            if isinstance(e, (ast.List, ast.Tuple)):
                return any(is_dur(x) for x in e.elts)
            if isinstance(e, ast.Subscript) and isinstance(e.slice,
                                                           ast.Slice):
                return is_list(e.value)
            if isinstance(e, ast.Call) and U(e.func) in ("list", "tuple",
                                                          "iter") and e.args:
                return is_list(e.args[0])
            return False

        def bind(comp):
            for g in comp.generators:
                if is_list(g.iter) and isinstance(g.target, ast.Name):
                    durs.add(g.target.id)
        for _ in range(4):
            for n in walk_no_nested(f.node):
                if isinstance(n, ast.Assign):
                    for t in n.targets:
                        if isinstance(t, ast.Name):
                            if is_dur(n.value):
                                durs.add(t.id)
                            if is_list(n.value):
                                lists.add(t.id)
                elif isinstance(n, ast.For) and isinstance(
                        n.target, ast.Name) and is_list(n.iter):
                    durs.add(n.target.id)
                elif isinstance(n, ast.AugAssign) and isinstance(
                        n.target, ast.Name) and is_dur(n.value) and \
                        isinstance(n.op, ast.Mult):
                    durs.add(n.target.id)
        return durs, lists, is_dur, is_list
    for _ in range(3):
        for name, f in oper.methods.items():
            durs, lists, is_dur, is_list = taint(f)
            if any(isinstance(n, ast.Return) and n.value is not None and
                   is_dur(n.value) for n in walk_no_nested(f.node)):
                dur_methods.add(name)
    for name, f in sorted(oper.methods.items()):
        rep.anchor(rule, "operator methods")
        durs, lists, is_dur, is_list = taint(f)
        for n in walk_no_nested(f.node):
            pair = None
            if isinstance(n, ast.BinOp) and isinstance(n.op, (ast.Add,
                                                              ast.Sub)):
                pair = (n.left, n.right)
            elif isinstance(n, ast.AugAssign) and isinstance(
                    n.op, (ast.Add, ast.Sub)):
                pair = (n.target, n.value)
            if pair is None:
                continue
            if is_dur(pair[0]) and is_dur(pair[1]):
                bad.append((f, n))
                continue
            ts = []
            for x in pair:
                try:
                    ts.append(set(ctx.types_in(f, x)))
                except Exception:
                    ts.append(set())
            dur = {"Duration", "TimeZone"}
            if ts[0] and ts[1] and ts[0] <= dur and ts[1] <= dur:
                bad.append((f, n))
    for f, n in bad:
        rep.violation(rule, ctx.fkey(f, n, "duration-sum"), f.loc(n),
                      "%s adds two durations (%s): offsets must be applied "
                      "to the time point one after the other - a point plus "
                      "a sum of durations differs from successive additions "
                      "when month/year units meet days at a month end "
                      "(2019-01-30 +P1M +P1D)" % (f.qual, U(n)[:60]), P)
    if not bad:
        rep.ok(rule, ctx.mkey("datetimeoper", "no-duration-sums"),
               "datetimeoper.py", "no Duration is added to another Duration "
               "in the operator layer (%d methods)" % len(oper.methods), P)


def r55_sign_on_every_path(ctx):
    """date_diff hands its result over as (|difference|, sign); whatever
    date_diff_format returns starts with that sign, with or without a print
    format (decision table: the leftmost operand of every returned
    concatenation is the sign parameter)."""
    rep = ctx.rep
    rule = "R55.sign-prefix"
    P = ("C19",)
    from ..dtable import explore
    oper = ctx.model.cls("DateTimeOperator")
    f = oper.methods.get("date_diff_format")
    rep.need_anchor(rule, "formatting paths")
    if f is None:
        raise AnalysisError("DateTimeOperator.date_diff_format not found")
    params = f.call_params
    if len(params) < 3:
        raise AnalysisError("date_diff_format: (print_format, duration, "
                            "sign) parameters not found")
    sign = params[2]
    bad = []
    n = 0
    for p in explore(f.node.body):
        if p.outcome != "return" or p.value is None:
            continue
        n += 1
        rep.anchor(rule, "formatting paths")
        e = p.value
        while isinstance(e, ast.BinOp) and isinstance(e.op, ast.Add):
            e = e.left
        if not (isinstance(e, ast.Name) and e.id == sign):
            bad.append("%s under %s" % (U(p.value)[:40],
                                        p.when()[:50] or "no condition"))
    rep.check(not bad and n > 0, rule, ctx.fkey(f, None, "every-return"),
              f.loc(), "all %d returns of date_diff_format start with the "
              "sign" % n,
              "date_diff_format returns %s without the sign in front: a "
              "negative difference is printed as a positive one" % bad, P)


RULES["R51"] = r51_offsets_one_by_one
RULES["R55"] = r55_sign_on_every_path
