"""R08 TICK-TYPESTATE and R13 REP-FLOW (a, b, c) (C01, C03, C05, C06, C20).

One abstract interpreter tracks, per TimePoint-valued local:
   origin  self | param:<name> | new
   rep     cal | ord | week | ?          (which slot group is set)
   dirty   subset of {T, D, W, Mo, Y}    T time-of-day, D day field, W week,
           Mo month (out of 1..12), Y year/month changed: day not re-clamped
"""
import ast

from ..fdai import Engine, Plugin, freeze, thaw
from ..model import AnalysisError, U, walk_no_nested, parent

GROUPS = {"cal": ("_month_of_year", "_day_of_month"),
          "ord": ("_day_of_year",),
          "week": ("_week_of_year", "_day_of_week")}
REPNAME = {"cal": "calendar", "ord": "ordinal", "week": "week"}
FIELD_GROUP = {"_second_of_minute": "T", "_minute_of_hour": "T",
               "_hour_of_day": "T", "_day_of_month": "D", "_day_of_year": "D",
               "_day_of_week": "D", "_week_of_year": "W",
               "_month_of_year": "Mo", "_year": "Y"}
CLAMP_FIELD = {"cal": "_day_of_month", "ord": "_day_of_year",
               "week": "_week_of_year"}
NORMAL = frozenset(["T", "D", "W", "Mo"])


# ---------------------------------------------------------------- R13 a, b
def rep_of_slots(slots):
    for r, g in GROUPS.items():
        if set(g) <= set(slots):
            return r
    return None


def getter_order(ctx, rep):
    """Slot order of the tuple get_<rep>_date returns for its own rep."""
    tp = ctx.model.cls("TimePoint")
    f = tp.methods.get("get_%s_date" % REPNAME[rep])
    if f is None:
        raise AnalysisError("TimePoint.get_%s_date not found" % REPNAME[rep])
    for n in walk_no_nested(f.node):
        if isinstance(n, ast.Return) and isinstance(n.value, ast.Tuple) and \
                all(isinstance(e, ast.Attribute) and isinstance(
                    e.value, ast.Name) and e.value.id == f.self_name
                    for e in n.value.elts):
            return f, n, [e.attr for e in n.value.elts]
    # not written as a literal return: read it off the decision table
    from ..dtable import explore
    try:
        paths = explore(f.node.body)
    except AnalysisError:
        paths = []
    for p in paths:
        v = p.value
        if p.outcome == "return" and isinstance(v, ast.Tuple) and v.elts \
                and all(isinstance(e, ast.Attribute) and isinstance(
                    e.value, ast.Name) and e.value.id == f.self_name
                    for e in v.elts):
            return f, (p.stmt or f.node), [e.attr for e in v.elts]
    raise AnalysisError("%s: own-slots return not found" % f.qual)


def to_rep_table(ctx):
    """{method qual: target rep} for TimePoint.to_<rep>_date."""
    tp = ctx.model.cls("TimePoint")
    return {tp.methods["to_%s_date" % REPNAME[r]].qual: r for r in GROUPS
            if ("to_%s_date" % REPNAME[r]) in tp.methods}


def r13ab_rep_structure(ctx):
    rep = ctx.rep
    tp = ctx.model.cls("TimePoint")
    P = ("C03",)
    # (a) slot-group invariant of to_<r>_date
    rule = "R13.slot-group"
    rep.need_anchor(rule, "to_*_date methods")
    for r in GROUPS:
        f = tp.methods.get("to_%s_date" % REPNAME[r])
        if f is None:
            raise AnalysisError("TimePoint.to_%s_date not found" % REPNAME[r])
        rep.anchor(rule, "to_*_date methods")
        gf, gret, order = getter_order(ctx, r)
        filled, noned = [], set()
        src_ok = False
        new = None

        def is_getter(v):
            return isinstance(v, ast.Call) and isinstance(
                v.func, ast.Attribute) and v.func.attr == gf.name and \
                U(v.func.value) == f.self_name
        # local names holding components of the getter's tuple
        comp = {}       # local name -> index ; or name -> "tuple"
        for n in walk_no_nested(f.node):
            if isinstance(n, ast.Assign) and is_getter(n.value):
                for t in n.targets:
                    if isinstance(t, ast.Tuple) and all(
                            isinstance(e, ast.Name) for e in t.elts):
                        for i_, e in enumerate(t.elts):
                            comp[e.id] = i_
                    elif isinstance(t, ast.Name):
                        comp[t.id] = "tuple"
        by_index = {}
        for n in walk_no_nested(f.node):
            if not isinstance(n, ast.Assign):
                continue
            for t in n.targets:
                elts = t.elts if isinstance(t, ast.Tuple) else [t]
                if not all(isinstance(e, ast.Attribute) for e in elts):
                    continue
                names = [e.attr for e in elts]
                vals = n.value.elts if isinstance(n.value, ast.Tuple) and \
                    len(n.value.elts) == len(elts) else (
                        [n.value] if len(elts) == 1 else None)
                if is_getter(n.value) or (
                        isinstance(n.value, ast.Name) and
                        comp.get(n.value.id) == "tuple" and len(elts) > 1):
                    filled = names
                    src_ok = True
                    new = U(elts[0].value)
                    continue
                if vals is None:
                    continue
                for e, v in zip(elts, vals):
                    if isinstance(v, ast.Constant) and v.value is None:
                        noned.add(e.attr)
                    elif isinstance(v, ast.Name) and isinstance(
                            comp.get(v.id), int):
                        by_index[comp[v.id]] = e.attr
                        new = U(e.value)
                    elif isinstance(v, ast.Subscript) and isinstance(
                            v.value, ast.Name) and comp.get(
                                v.value.id) == "tuple" and isinstance(
                                    v.slice, ast.Constant):
                        by_index[v.slice.value] = e.attr
                        new = U(e.value)
        if not src_ok and by_index:
            src_ok = True
            filled = [by_index[i_] for i_ in sorted(by_index)]
            if sorted(by_index) != list(range(len(order))):
                filled = ["<components %s>" % sorted(by_index)]
        others = set()
        for r2, g in GROUPS.items():
            if r2 != r:
                others |= set(g)
        problems = []
        if not src_ok:
            problems.append("does not fill its slots from self.%s()" %
                            gf.name)
        elif filled != order:
            problems.append("fills %s from %s(), which returns %s" % (
                filled, gf.name, order))
        if others - noned:
            problems.append("leaves %s set: the point would be in two "
                            "representations at once" % sorted(others - noned))
        if noned & set(GROUPS[r]):
            problems.append("clears its own slot(s) %s" % sorted(
                noned & set(GROUPS[r])))
        # early `return self` only when already in this representation
        for n in walk_no_nested(f.node):
            if isinstance(n, ast.Return) and U(n.value) == f.self_name:
                p = parent(n)
                good = isinstance(p, ast.If) and U(p.test) == \
                    "%s.get_is_%s_date()" % (f.self_name, REPNAME[r])
                if not good:
                    problems.append("returns the receiver unconverted "
                                    "outside `if self.get_is_%s_date()`" %
                                    REPNAME[r])
        rep.check(not problems, rule, ctx.fkey(f, None, "slot-group"),
                  f.loc(), "%s fills exactly the %s slot group from %s() "
                  "in the getter's order and clears the other two" % (
                      f.name, REPNAME[r], gf.name),
                  "%s %s" % (f.name, "; ".join(problems)), P + ("C05",))
    # predicates
    for r in GROUPS:
        f = tp.methods.get("get_is_%s_date" % REPNAME[r])
        rets = [n for n in walk_no_nested(f.node) if isinstance(n, ast.Return)]
        want = {"%s.%s is not None" % (f.self_name, s) for s in GROUPS[r]}
        rep.check(len(rets) == 1 and U(rets[0].value) in want, rule,
                  ctx.fkey(f, None, "predicate"), f.loc(),
                  "%s tests a slot of the %s group" % (f.name, REPNAME[r]),
                  "%s returns %s: not a presence test of the %s slot group" %
                  (f.name, [U(x.value) for x in rets], REPNAME[r]), P,
                  nontrivial=False)
    # (b) dispatch matrix
    rule = "R13.dispatch"
    rep.need_anchor(rule, "dispatch cells")
    for t in GROUPS:
        f = tp.methods["get_%s_date" % REPNAME[t]]
        gf, gret, order = getter_order(ctx, t)
        cells = {}
        from ..flow import path_conds
        for r0 in walk_no_nested(f.node):
            if not isinstance(r0, ast.Return) or r0.value is None or (
                    isinstance(r0.value, ast.Constant) and
                    r0.value.value is None):
                continue
            # the representation this return is reached under: the
            # predicate that holds on its path (positively, innermost first)
            src = None
            for tst, pol in path_conds(r0):
                inner, want_pol = tst, True
                if isinstance(tst, ast.UnaryOp) and isinstance(
                        tst.op, ast.Not):
                    inner, want_pol = tst.operand, False
                for s in GROUPS:
                    if U(inner) == "%s.get_is_%s_date()" % (
                            f.self_name, REPNAME[s]) and pol == want_pol:
                        src = src or s
                if src:
                    break
            if src is not None and src not in cells:
                cells[src] = r0
        if len(cells) < len(GROUPS):
            # the dispatch is not written as one return per predicate:
            # read the cells off the decision table (what is returned when
            # which predicate holds, through tables of converters and
            # conditional expressions)
            from ..dtable import explore as _explore

            class _Cell:
                def __init__(self, value, stmt):
                    self.value = value
                    self.lineno = getattr(stmt, "lineno", f.node.lineno)
                    self.col_offset = getattr(stmt, "col_offset", 0)
                    self._pos = getattr(stmt, "_pos", None)
            try:
                paths_ = _explore(f.node.body)
            except AnalysisError:
                paths_ = []
            for p_ in paths_:
                if p_.outcome != "return" or p_.value is None or (
                        isinstance(p_.value, ast.Constant) and
                        p_.value.value is None) or p_.skipped:
                    continue
                for s in GROUPS:
                    if p_.decisions.get("%s.get_is_%s_date()" % (
                            f.self_name, REPNAME[s])) is True and \
                            s not in cells:
                        cells[s] = _Cell(p_.value, p_.stmt)
                        break
        for s in GROUPS:
            rep.anchor(rule, "dispatch cells")
            key = ctx.fkey(f, None, "cell:%s<-%s" % (t, s))
            r_ = cells.get(s)
            if r_ is None:
                rep.violation(rule, key, f.loc(),
                              "%s has no branch for a %s-date receiver" % (
                                  f.name, REPNAME[s]), P)
                continue
            if s == t:
                good = isinstance(r_.value, ast.Tuple) and [
                    getattr(e, "attr", None) for e in r_.value.elts] == \
                    ["_year"] + list(GROUPS[t]) and all(
                        U(e.value) == f.self_name for e in r_.value.elts)
                rep.check(good, rule, key, f.loc(r_),
                          "own representation: returns own slots",
                          "%s under get_is_%s_date() returns %s, expected "
                          "its own (year, %s) slots" % (
                              f.name, REPNAME[s], U(r_.value),
                              ", ".join(GROUPS[t])), P)
                continue
            want = "get_%s_date_from_%s_date" % (REPNAME[t], REPNAME[s])
            good, why = False, "returns %s" % U(r_.value)
            if isinstance(r_.value, ast.Call):
                if isinstance(r_, ast.Return):
                    cs = ctx.in_func(f, r_).callees_of_call(r_.value)
                else:
                    g_ = f.module.functions.get(U(r_.value.func))
                    cs = [g_] if g_ is not None else []
                if len(cs) == 1 and cs[0].name == want:
                    params = cs[0].call_params
                    args = r_.value.args
                    bind = []
                    for i, a in enumerate(args):
                        if i < len(params):
                            bind.append((params[i], a))
                    for k in r_.value.keywords:
                        bind.append((k.arg, k.value))
                    good = len(bind) == len(params) and all(
                        isinstance(a, ast.Attribute) and
                        U(a.value) == f.self_name and a.attr == "_" + p
                        for p, a in bind)
                    why = "binds %s" % [(p, U(a)) for p, a in bind]
                else:
                    why = "calls %s" % [c.name for c in cs]
            rep.check(good, rule, key, f.loc(r_),
                      "%s-date receiver converts through %s with its own "
                      "slots bound by name" % (REPNAME[s], want),
                      "%s under get_is_%s_date(): %s; expected %s(self._%s)"
                      % (f.name, REPNAME[s], why, want,
                         ", self._".join(["year"] + [
                             x[1:] for x in GROUPS[s]])), P)
    # composite converters are compositions with matching tuple order
    rule = "R13.composite"
    for name, first, second in (
            ("get_ordinal_date_from_week_date",
             "get_calendar_date_from_week_date",
             "get_ordinal_date_from_calendar_date"),
            ("get_week_date_from_ordinal_date",
             "get_calendar_date_from_ordinal_date",
             "get_week_date_from_calendar_date")):
        f = ctx.try_func("data." + name)
        if f is None:
            continue
        callees = [c.split(".")[-1] for c in ctx.res.callees(f.qual)]
        okc = first in callees and second in callees
        # the tuple unpacked from the first call is passed in order
        okorder = False
        for n in walk_no_nested(f.node):
            if isinstance(n, ast.Assign) and isinstance(
                    n.targets[0], ast.Tuple) and isinstance(
                        n.value, ast.Call):
                names = [U(e) for e in n.targets[0].elts]
                for r_ in walk_no_nested(f.node):
                    if isinstance(r_, ast.Return) and isinstance(
                            r_.value, ast.Call):
                        cs = ctx.in_func(f, r_).callees_of_call(r_.value)
                        b = ctx.bound_args(f, r_.value)
                        if len(cs) == 1 and [
                                U(b[p]) if p in b else None
                                for p in cs[0].call_params] == names:
                            okorder = True
                        elif [U(a) for a in r_.value.args] == names:
                            okorder = True
        for r_ in walk_no_nested(f.node):
            # second(*first(...)): the tuple is passed on as it comes
            if isinstance(r_, ast.Return) and isinstance(
                    r_.value, ast.Call) and len(r_.value.args) == 1 and \
                    isinstance(r_.value.args[0], ast.Starred) and \
                    isinstance(r_.value.args[0].value, ast.Call) and \
                    not r_.value.keywords:
                outer = [c.name for c in ctx.in_func(
                    f, r_).callees_of_call(r_.value)]
                inner = [c.name for c in ctx.in_func(
                    f, r_).callees_of_call(r_.value.args[0].value)]
                if outer == [second] and inner == [first]:
                    okorder = True
        rep.check(okc and okorder, rule, ctx.fkey(f, None, "composition"),
                  f.loc(), "%s = %s after %s, tuple passed in order" % (
                      name, second, first),
                  "%s is not the composition %s(*%s(...)) with the tuple "
                  "passed in order (calls %s)" % (name, second, first,
                                                  callees),
                  P + ("C02", "C04"))


# ------------------------------------------------------------- R08 / R13c
class TPPlugin(Plugin):
    def __init__(self, ctx, f, summaries, to_rep, kinds=None):
        self.ctx = ctx
        self.f = f
        self.selfn = f.self_name
        self.summaries = summaries
        self.to_rep = to_rep
        self.events = []       # (kind, node, detail)
        self.returns = []      # (stmt, value, state)
        self.kinds = kinds or {}
        self.cleans = 0
        self.dirties = 0

    # values: ("tp", origin, rep, dirty frozenset) or None
    def _is_tp(self, e):
        return "TimePoint" in self.ctx.types_in(self.f, e)

    def eval(self, e, d):
        r = self.eval_multi(e, d)
        if isinstance(r, list):
            return r[0] if r else None
        return r

    def eval_multi(self, e, d):
        """Value or list of alternative values."""
        if e is None:
            return None
        if isinstance(e, ast.Constant) and (
                isinstance(e.value, bool) or e.value is None):
            return ("k", e.value)
        if isinstance(e, ast.Name):
            if e.id in d:
                return d[e.id]
            return None
        if isinstance(e, ast.Call):
            return self._call(e, d)
        if isinstance(e, ast.BinOp):
            lv = self.eval(e.left, d)
            rv = self.eval(e.right, d)
            if self._is_tp(e):
                # TimePoint +/- Duration  (or reflected)
                recv = lv if _istp(lv) else (rv if _istp(rv) else None)
                tp = self.ctx.model.cls("TimePoint")
                m = "__add__" if isinstance(e.op, ast.Add) else "__sub__"
                fq = tp.methods[m].qual if m in tp.methods else None
                if recv is not None and fq is not None:
                    self._reader(e, recv, m)
                    return self._apply(fq, recv, "Duration")
                return ("tp", "new", "?", frozenset())
            return None
        if isinstance(e, ast.IfExp):
            a, b = self.eval_multi(e.body, d), self.eval_multi(e.orelse, d)
            out = []
            for x in (a, b):
                out.extend(x if isinstance(x, list) else [x])
            return out
        if isinstance(e, ast.Attribute):
            self._slot_read(e, d)
            return None
        for c in ast.iter_child_nodes(e):
            if isinstance(c, ast.expr):
                self.eval_multi(c, d)
        return None

    def _slot_read(self, e, d):
        pass

    def _apply(self, fq, recv, argkind=None):
        """Apply a callee summary to a receiver value."""
        summ = self.summaries.get(fq)
        if summ is None:
            return ("tp", "new", recv[2], frozenset())
        key = (recv[2], argkind) if (recv[2], argkind) in summ else (
            recv[2], None)
        outs = summ.get(key)
        if outs is None and recv[2] == "?":
            outs = set()
            for (r_in, k), v in summ.items():
                if k == argkind or k is None:
                    outs |= {("?" if x[0] in ("cal", "ord", "week") and
                              x[0] == r_in else x[0], x[1]) for x in v}
        if not outs:
            return []          # bottom: summary not yet available
        origin = recv[1] if recv[1] != "self" else "self"
        return [("tp", origin, r, frozenset(dy)) for r, dy in sorted(
            outs, key=str)]

    def _reader(self, node, recv, what):
        if recv[3] & NORMAL:
            self.events.append(("reader-on-dirty", node,
                                "%s is applied to an object whose %s "
                                "field(s) were changed and not yet "
                                "normalised by _tick_over()" % (
                                    what, _gnames(recv[3] & NORMAL))))

    def _call(self, e, d):
        fn = e.func
        for a in e.args:
            self.eval_multi(a.value if isinstance(a, ast.Starred) else a, d)
        for k in e.keywords:
            self.eval_multi(k.value, d)
        if isinstance(fn, ast.Attribute):
            recv = self.eval(fn.value, d)
            if _istp(recv):
                m = fn.attr
                tp = self.ctx.model.cls("TimePoint")
                if m == "_copy":
                    return ("tp", "new" if recv[1] != "self" else "self",
                            recv[2], recv[3])
                if m.startswith("get_is_") or m in (
                        "get_truncated_properties", "get_time_zone_utc"):
                    return None
                f = tp.find_method(m)
                if f is None:
                    return None
                if f.qual in self.to_rep:
                    self._reader(e, recv, m + "()")
                    return ("tp", recv[1], self.to_rep[f.qual], recv[3])
                if f.qual in self.summaries or "TimePoint" in \
                        self.ctx.res.ret_types.get(f.qual, ()):
                    self._reader(e, recv, m + "()")
                    argkind = None
                    if e.args and m in ("__add__", "__sub__"):
                        ts = self.ctx.types_in(self.f, e.args[0])
                        argkind = "TimePoint" if "TimePoint" in ts and \
                            "Duration" not in ts else "Duration"
                    return self._apply(f.qual, recv, argkind)
                self._reader(e, recv, m + "()")
                return None
            return self._tp_if_typed(e)
        return self._tp_if_typed(e)

    def _tp_if_typed(self, e):
        if self._is_tp(e):
            return ("tp", "new", "?", frozenset())
        return None

    # --------------------------------------------------------- statements
    def exec_stmt(self, st, d):
        if isinstance(st, ast.Expr):
            v = st.value
            if isinstance(v, ast.Call) and isinstance(v.func, ast.Attribute) \
                    and isinstance(v.func.value, ast.Name):
                name = v.func.value.id
                cur = d.get(name)
                if _istp(cur) and self._is_mutator(v):
                    d[name] = (cur[0], cur[1], cur[2], cur[3] - NORMAL)
                    self.cleans += 1
                    return [d]
            self.eval_multi(v, d)
            return [d]
        if isinstance(st, ast.AugAssign):
            t = st.target
            self.eval_multi(st.value, d)
            if isinstance(t, ast.Attribute) and isinstance(
                    t.value, ast.Name) and _istp(d.get(t.value.id)) and \
                    t.attr in FIELD_GROUP:
                cur = d[t.value.id]
                g = FIELD_GROUP[t.attr]
                add = {g}
                if g == "Mo" and "MONTHS_IN_YEAR" in U(st.value):
                    return [d]       # the wrap half of a month step
                if g == "Mo":
                    if "Y" in cur[3] and self.f.name in ("add_months",
                                                         "__add__"):
                        self.events.append((
                            "step-before-clamp", st,
                            "a second month/year step is applied while the "
                            "day is still unclamped from the previous one"))
                    add = {"Mo", "Y"}
                self.dirties += 1
                d[t.value.id] = (cur[0], cur[1], cur[2], cur[3] | add)
            elif isinstance(t, ast.Name):
                d[t.id] = None
            return [d]
        if isinstance(st, (ast.Assign, ast.AnnAssign)):
            if isinstance(st, ast.AnnAssign):
                targets = [st.target]
            else:
                targets = st.targets
            # a flag: name = <boolean expression over predicates / flags>
            if len(targets) == 1 and isinstance(targets[0], ast.Name) and \
                    _boolean_shape(st.value) and getattr(
                        self, "engine", None) is not None:
                T, F = self.engine.cond(st.value, {freeze(d)})
                outs = []
                for states, val in ((T, True), (F, False)):
                    for x in states:
                        d2 = thaw(x)
                        d2[targets[0].id] = ("k", val)
                        outs.append(d2)
                return outs
            vals = self.eval_multi(st.value, d)
            alts = vals if isinstance(vals, list) else [vals]
            outs = []
            for v in alts:
                d2 = dict(d)
                for t in targets:
                    self._assign(t, v, d2, st)
                outs.append(d2)
            return outs
        return NotImplemented

    def _is_mutator(self, call):
        cs = self.ctx.resolve_call(self.f, call)[0]
        return any(c.name == "_tick_over" for c in cs)

    def _assign(self, t, v, d, st):
        if isinstance(t, ast.Name):
            d[t.id] = v if (_istp(v) or _isk(v)) else None
        elif isinstance(t, (ast.Tuple, ast.List)):
            for x in t.elts:
                self._assign(x, None, d, st)
        elif isinstance(t, ast.Attribute) and isinstance(t.value, ast.Name) \
                and _istp(d.get(t.value.id)) and t.attr in FIELD_GROUP:
            cur = d[t.value.id]
            val = getattr(st, "value", None)
            clean_val = isinstance(val, (ast.Constant, ast.Name, ast.Call))
            if not clean_val:
                d[t.value.id] = (cur[0], cur[1], cur[2],
                                 cur[3] | {FIELD_GROUP[t.attr]})
                self.dirties += 1

    def assign(self, t, v, d, st):
        self._assign(t, v, d, st)

    def augassign(self, st, d):
        self.exec_stmt(st, d)

    # -------------------------------------------------------- conditions
    def refine(self, test, d):
        # representation predicates
        if isinstance(test, ast.Call) and isinstance(
                test.func, ast.Attribute) and isinstance(
                    test.func.value, ast.Name):
            name = test.func.value.id
            cur = d.get(name)
            m = test.func.attr
            if _istp(cur):
                for r in GROUPS:
                    if m == "get_is_%s_date" % REPNAME[r]:
                        if cur[2] == "?":
                            t = dict(d)
                            t[name] = (cur[0], cur[1], r, cur[3])
                            return [t], [dict(d)]
                        return ([d], []) if cur[2] == r else ([], [d])
        if isinstance(test, ast.Call) and isinstance(test.func, ast.Name) \
                and test.func.id == "isinstance" and len(test.args) == 2 and \
                isinstance(test.args[0], ast.Name):
            k = self.kinds.get(test.args[0].id)
            if k is not None:
                ts = test.args[1].elts if isinstance(
                    test.args[1], ast.Tuple) else [test.args[1]]
                hit = any(U(x).split(".")[-1] == k or (
                    k == "TimeZone" and U(x).endswith("Duration"))
                    for x in ts)
                return ([d], []) if hit else ([], [d])
        if isinstance(test, ast.Name):
            v = d.get(test.id)
            if _isk(v):
                return ([d], []) if v[1] else ([], [d])
        # sign of an integer local/parameter against the literal 0
        if isinstance(test, ast.Compare) and len(test.ops) == 1 and \
                isinstance(test.left, ast.Name) and isinstance(
                    test.comparators[0], ast.Constant) and \
                test.comparators[0].value == 0 and not _istp(
                    d.get(test.left.id)):
            key = "$sign:" + test.left.id
            cur = d.get(key, "-0+")
            sat = {ast.Gt: "+", ast.Lt: "-", ast.Eq: "0", ast.GtE: "0+",
                   ast.LtE: "-0", ast.NotEq: "-+"}.get(type(test.ops[0]))
            if sat is not None:
                tset = "".join(c for c in cur if c in sat)
                fset = "".join(c for c in cur if c not in sat)
                outs_t, outs_f = [], []
                if tset:
                    t = dict(d)
                    t[key] = tset
                    outs_t = [t]
                if fset:
                    f_ = dict(d)
                    f_[key] = fset
                    outs_f = [f_]
                return outs_t, outs_f
        self.eval_multi(test, d)
        return [d], [dict(d)]

    def check_loop_test(self, test, d, loop):
        for n in ast.walk(test):
            if isinstance(n, ast.Attribute) and isinstance(
                    n.value, ast.Name) and n.attr in FIELD_GROUP:
                cur = d.get(n.value.id)
                if _istp(cur) and cur[3] & NORMAL:
                    self.events.append((
                        "loop-retest-dirty", loop,
                        "the search loop re-tests %s.%s while the %s "
                        "field(s) incremented in its body have not been "
                        "normalised by _tick_over(): the counter never "
                        "wraps and intermediate dates are invalid" % (
                            n.value.id, n.attr, _gnames(cur[3] & NORMAL))))

    def on_stmt(self, st, d):
        if isinstance(st, ast.While):
            self.check_loop_test(st.test, d, st)
        if isinstance(st, ast.If):
            self._idioms(st, d)
        return None

    def _idioms(self, st, d):
        """Clamp and month-wrap idioms are recognised on the If statement:
        their effect (clean) is applied after the statement by marking the
        object in a side table consumed in on_after_if."""
        pass

    def on_return(self, st, d, v):
        self.returns.append((st, v, freeze(d)))

    def on_yield(self, st, d, v):
        self.returns.append((st, v, freeze(d)))


def _boolean_shape(e, top=True):
    """Expression whose value is a truth value built from representation
    predicates, flags and constants."""
    if isinstance(e, ast.BoolOp):
        return all(_boolean_shape(v, False) for v in e.values)
    if isinstance(e, ast.UnaryOp) and isinstance(e.op, ast.Not):
        return _boolean_shape(e.operand, False)
    if not top and isinstance(e, ast.Name):
        return True
    if not top and isinstance(e, ast.Constant) and isinstance(e.value, bool):
        return True
    if isinstance(e, ast.Call) and isinstance(e.func, ast.Attribute) and \
            e.func.attr.startswith("get_is_") and not e.args:
        return True
    return False


def _istp(v):
    return isinstance(v, tuple) and len(v) == 4 and v[0] == "tp"


def _isk(v):
    return isinstance(v, tuple) and len(v) == 2 and v[0] == "k"


def _gnames(gs):
    names = {"T": "time-of-day", "D": "day", "W": "week", "Mo": "month",
             "Y": "year/month-dependent day"}
    return "/".join(names[g] for g in sorted(gs))


class TPEngine(Engine):
    """Engine + recognition of the clamp / wrap idioms on If statements and
    loop re-tests."""

    def stmt(self, st, states):
        p = self.p
        if isinstance(st, ast.If):
            idiom = _if_idiom(st)
            if idiom is not None:
                kind, var, fld = idiom
                fl = Engine.stmt(self, st, states)
                new = set()
                for x in fl.normal:
                    d = thaw(x)
                    cur = d.get(var)
                    if _istp(cur):
                        if kind == "clamp":
                            if cur[2] in ("?",) or CLAMP_FIELD.get(
                                    cur[2]) == fld:
                                d[var] = (cur[0], cur[1], cur[2],
                                          cur[3] - {"Y"})
                                p.cleans += 1
                        elif kind == "wrap":
                            d[var] = (cur[0], cur[1], cur[2],
                                      cur[3] - {"Mo"})
                    new.add(freeze(d))
                fl.normal = new
                return fl
        if isinstance(st, ast.While):
            # check the loop test in every state that reaches it
            orig_cond = self.cond

            def cond(test, sts, _orig=orig_cond):
                if test is st.test:
                    for x in sts:
                        p.check_loop_test(test, thaw(x), st)
                return _orig(test, sts)
            self.cond = cond
            try:
                return Engine.stmt(self, st, states)
            finally:
                self.cond = orig_cond
        return Engine.stmt(self, st, states)


def _if_idiom(st):
    """("clamp", var, field) for `if X.f > L: X.f = L` (either operand
    order); ("wrap", var, "_month_of_year") for the month wrap."""
    t = st.test
    if not (isinstance(t, ast.Compare) and len(t.ops) == 1):
        return None
    a, b = t.left, t.comparators[0]
    fld = None
    bound = None
    for x, y in ((a, b), (b, a)):
        if isinstance(x, ast.Attribute) and isinstance(x.value, ast.Name) \
                and x.attr in FIELD_GROUP:
            fld, bound = x, y
            break
    if fld is None or st.orelse:
        return None
    body = st.body
    if len(body) == 1 and isinstance(body[0], ast.Assign) and \
            len(body[0].targets) == 1 and U(body[0].targets[0]) == U(fld) \
            and U(body[0].value) == U(bound) and fld.attr in (
                "_day_of_month", "_day_of_year", "_week_of_year"):
        op = t.ops[0]
        gt = (isinstance(op, (ast.Gt,)) and fld is a) or (
            isinstance(op, (ast.Lt,)) and fld is b)
        if gt:
            return ("clamp", fld.value.id, fld.attr)
    if fld.attr == "_month_of_year" and body and isinstance(
            body[0], ast.AugAssign) and U(body[0].target) == U(fld) and \
            "MONTHS_IN_YEAR" in U(body[0].value):
        return ("wrap", fld.value.id, fld.attr)
    return None


SCOPE = ("__add__", "__sub__", "add_months", "add_truncated",
         "to_time_zone", "to_utc", "to_local_time_zone",
         "to_hour_minute_second", "_roll_over_24")


def tp_analysis(ctx):
    if "tpstate" in ctx.cache:
        return ctx.cache["tpstate"]
    tp = ctx.model.cls("TimePoint")
    to_rep = to_rep_table(ctx)
    funcs = [tp.methods[n] for n in SCOPE if n in tp.methods]
    summaries = {f.qual: {} for f in funcs}
    runs = {}
    for rnd in range(8):
        changed = False
        for f in funcs:
            scenarios = [None]
            if f.name in ("__add__", "__sub__"):
                scenarios = ["Duration", "TimePoint"]
            for kind in scenarios:
                for r0 in ("cal", "ord", "week"):
                    p = TPPlugin(ctx, f, summaries, to_rep)
                    d = {f.self_name: ("tp", "self", r0, frozenset())}
                    for prm in f.call_params:
                        if kind is not None and prm == f.call_params[0]:
                            p.kinds[prm] = kind
                            if kind == "TimePoint":
                                d[prm] = ("tp", "param:" + prm, "?",
                                          frozenset())
                    eng = TPEngine(p)
                    eng.run(f.node.body, {freeze(d)})
                    outs = set()
                    for st, v, state in p.returns:
                        if _istp(v):
                            outs.add((v[2], tuple(sorted(v[3])), v[1]))
                    runs[(f.qual, kind, r0)] = p
                    key = (r0, kind)
                    cur = summaries[f.qual].get(key, set())
                    new = cur | {(r, dy) for r, dy, o in outs}
                    if new != cur:
                        summaries[f.qual][key] = new
                        changed = True
        if not changed:
            break
    else:
        raise AnalysisError("typestate summaries did not converge")
    ctx.cache["tpstate"] = (summaries, runs, rnd + 1)
    return ctx.cache["tpstate"]


PROPS_OF = {
    "__add__": {"Duration": ("C01", "C05", "C06"), "TimePoint": ("C20",)},
    "__sub__": {"Duration": ("C01",), "TimePoint": ()},
    "add_months": {None: ("C05",)},
    "add_truncated": {None: ("C20",)},
    "to_time_zone": {None: ("C06",)},
    "to_utc": {None: ("C06",)},
    "to_local_time_zone": {None: ("C06",)},
    "to_hour_minute_second": {None: ("C20",)},
    "_roll_over_24": {None: ("C02", "C04")},
}


def r08_tick_typestate(ctx):
    rep = ctx.rep
    summaries, runs, rounds = tp_analysis(ctx)
    tp = ctx.model.cls("TimePoint")
    rule = "R08.typestate"
    rep.need_anchor(rule, "normaliser calls")
    rep.need_anchor(rule, "field increments")
    seen_events = {}
    totals = {"cleans": 0, "dirties": 0}
    per_func = {}
    for (fq, kind, r0), p in sorted(runs.items(), key=str):
        f = ctx.model.functions[fq]
        props = PROPS_OF.get(f.name, {}).get(kind, ())
        if not props:
            continue
        pf = per_func.setdefault((fq, kind), {"cleans": 0, "dirties": 0,
                                              "props": props})
        pf["cleans"] = max(pf["cleans"], p.cleans)
        pf["dirties"] = max(pf["dirties"], p.dirties)
        for kind_, node, detail in p.events:
            k = (fq, kind_, id(node))
            if k in seen_events:
                continue
            seen_events[k] = True
            rep.violation(rule, ctx.fkey(f, node, kind_), f.loc(node),
                          "%s: %s" % (f.qual, detail), props)
        for st, v, state in p.returns:
            if not _istp(v):
                continue
            dirty = set(v[3])
            if f.name == "add_truncated" and "Y" in dirty:
                if "addtrunc-note" not in seen_events:
                    seen_events["addtrunc-note"] = True
                    rep.note(rule, "add_truncated month/year searches "
                             "return without clamping the day (outside "
                             "C20's stated shapes)", props)
                dirty -= {"Y"}
            if f.name in ("__add__", "__sub__") and kind == "TimePoint":
                dirty -= {"Y"}
            k = (fq, "return-dirty", id(st), tuple(sorted(dirty)))
            if dirty and k not in seen_events:
                seen_events[k] = True
                if dirty & NORMAL:
                    msg = ("%s returns an object whose %s field(s) were "
                           "changed without a following _tick_over(): the "
                           "result can hold out-of-range fields" % (
                               f.qual, _gnames(dirty & NORMAL)))
                else:
                    msg = ("%s returns after changing the year/month "
                           "without clamping the day to the new month/year "
                           "length for a %s-date receiver" % (
                               f.qual, REPNAME.get(r0, r0)))
                rep.violation(rule, ctx.fkey(f, st, "return-dirty:%s" %
                                             "".join(sorted(dirty))),
                              f.loc(st), msg, props)
    for (fq, kind), pf in sorted(per_func.items(), key=str):
        f = ctx.model.functions[fq]
        if pf["cleans"]:
            rep.anchor(rule, "normaliser calls", pf["cleans"])
        if pf["dirties"]:
            rep.anchor(rule, "field increments", pf["dirties"])
        rep.ok(rule, ctx.fkey(f, None, "typestate:%s" % (kind or "-")),
               f.loc(),
               "%s (%s operand): every changed field is normalised before "
               "the object is read by a converter, re-tested by a search "
               "loop or returned (%d increments, %d normalisations/clamps "
               "on the longest run)" % (f.name, kind or "any",
                                        pf["dirties"], pf["cleans"]),
               pf["props"])
    # order of application in __add__: exact units, then months, then years
    rule2 = "R08.apply-order"
    f = tp.methods["__add__"]
    rep.need_anchor(rule2, "unit blocks")
    idx = {}
    for i, st in enumerate(f.node.body):
        if isinstance(st, ast.If):
            t = U(st.test)
            for unit in ("_seconds", "_minutes", "_hours", "_days",
                         "_months", "_years"):
                if t.endswith("." + unit):
                    idx[unit] = i
                    rep.anchor(rule2, "unit blocks")
    exact = [idx[u] for u in ("_seconds", "_minutes", "_hours", "_days")
             if u in idx]
    good = ("_months" in idx and "_years" in idx and exact and
            max(exact) < idx["_months"] < idx["_years"])
    rep.check(good, rule2, ctx.fkey(f, None, "exact-months-years"), f.loc(),
              "exact units are applied first, then months, then years",
              "TimePoint.__add__ applies its unit blocks in the order %s; "
              "the property requires exact part, then months, then years" %
              [u for u, _ in sorted(idx.items(), key=lambda kv: kv[1])],
              ("C05",))
    # the units of a duration are applied to the point's own fields, in
    # its own UTC offset: no zone conversion on the Duration path (the
    # month reached and the end-of-month clamp are those of the local date)
    from ..flow import path_conds as _pc8
    addm = tp.methods["__add__"]
    oth = addm.call_params[0] if addm.call_params else "other"
    for n in walk_no_nested(addm.node):
        if isinstance(n, ast.Call) and isinstance(n.func, ast.Attribute) \
                and n.func.attr in ("to_utc", "to_time_zone",
                                    "to_local_time_zone"):
            in_tp_branch = False
            todo = list(_pc8(n))
            while todo:
                t, pol = todo.pop()
                if isinstance(t, ast.BoolOp) and isinstance(
                        t.op, ast.And) and pol:
                    todo += [(v, True) for v in t.values]
                elif pol and isinstance(t, ast.Call) and U(
                        t.func) == "isinstance" and len(t.args) == 2 and \
                        U(t.args[0]) == oth and "TimePoint" in U(t.args[1]):
                    in_tp_branch = True
                elif pol and isinstance(t, ast.Name):
                    from ..flow import single_def as _sd8
                    v = _sd8(addm.node, t.id)
                    if v is not None:
                        todo.append((v, True))
            rep.check(in_tp_branch, "R08.apply-order",
                      ctx.fkey(addm, n, "own-offset"), addm.loc(n),
                      "zone conversions in __add__ belong to the "
                      "truncated-point branch",
                      "TimePoint.__add__ converts the point with `%s` while "
                      "applying a Duration: months and years are stepped on "
                      "the date in the point's own UTC offset (2020-01-30T"
                      "22:15-05:00 + P1M is 02-29 there, 02-28 when stepped "
                      "on the UTC date)" % U(n)[:60], ("C05", "C01"))
    # p - d delegates to p + (-d)
    sub = tp.methods["__sub__"]
    rule3 = "R08.sub-delegates"
    good = False
    for n in walk_no_nested(sub.node):
        if isinstance(n, ast.Return) and isinstance(n.value, ast.Call):
            cs = ctx.resolve_call(sub, n.value)[0]
            if any(c is tp.methods["__add__"] for c in cs) and \
                    n.value.args and (
                        "* -1" in U(n.value.args[0]) or
                        "-1 *" in U(n.value.args[0]) or
                        U(n.value.args[0]).startswith("-")):
                good = True
        if isinstance(n, ast.Return) and isinstance(n.value, ast.BinOp) and \
                isinstance(n.value.op, ast.Add) and \
                U(n.value.left) == sub.self_name and (
                    "-1" in U(n.value.right) or
                    U(n.value.right).startswith("-")):
            good = True
    rep.check(good, rule3, ctx.fkey(sub, None, "negated-add"), sub.loc(),
              "p - d is computed as p + (-1 * d)",
              "TimePoint.__sub__ (Duration branch) no longer delegates to "
              "__add__ with the negated duration", ("C01",))
    # ... and so do Duration - Duration and recurrence - duration: what
    # they return is the sum with the negation, untouched ("subtraction is
    # addition of the negation")
    for cname, props in (("Duration", ("C11",)),
                         ("TimeRecurrence", ("C14", "C11"))):
        c = ctx.model.cls(cname)
        sm = c.methods.get("__sub__") if c is not None else None
        if sm is None or not sm.call_params:
            continue
        other = sm.call_params[0]

        def is_neg_sum(e):
            if isinstance(e, ast.BinOp) and isinstance(e.op, ast.Add) and \
                    U(e.left) == sm.self_name:
                r = U(e.right).replace("(", "").replace(")", "")
                return r in ("-1 * %s" % other, "%s * -1" % other,
                             "-%s" % other)
            if isinstance(e, ast.Call) and isinstance(
                    e.func, ast.Attribute) and e.func.attr == "__add__" \
                    and U(e.func.value) == sm.self_name and len(
                        e.args) == 1:
                r = U(e.args[0]).replace("(", "").replace(")", "")
                return r in ("-1 * %s" % other, "%s * -1" % other,
                             "-%s" % other)
            return False
        rets = [n for n in walk_no_nested(sm.node)
                if isinstance(n, ast.Return)]
        stores = [n for n in walk_no_nested(sm.node)
                  if isinstance(n, (ast.Assign, ast.AugAssign)) and any(
                      isinstance(t, ast.Attribute) for t in (
                          n.targets if isinstance(n, ast.Assign)
                          else [n.target]))]
        from ..flow import single_def as _sd
        okr = bool(rets) and not stores
        for n in rets:
            v = n.value
            if isinstance(v, ast.Name):
                v = _sd(sm.node, v.id)
            if v is None or not is_neg_sum(v):
                okr = False
        rep.check(okr, rule3, ctx.fkey(sm, None, "negated-add"), sm.loc(),
                  "%s - d is returned as self + (-1 * d), untouched" % cname,
                  "%s.__sub__ does not simply return `self + -1 * %s`%s: "
                  "a - b then differs from a + (-1 * b), and (a - b) + b "
                  "from a" % (cname, other, " (it writes slots of the "
                              "result afterwards)" if stores else ""),
                  props)


def r13c_rep_preserved(ctx):
    rep = ctx.rep
    rule = "R13.preserve"
    summaries, runs, rounds = tp_analysis(ctx)
    rep.need_anchor(rule, "representation-preserving methods")
    want = {"__add__": ("Duration", ("C01", "C05")),
            "__sub__": ("Duration", ("C01",)),
            "add_months": (None, ("C05",)),
            "to_time_zone": (None, ("C06",)),
            "to_utc": (None, ("C06",)),
            "to_local_time_zone": (None, ("C06",)),
            "to_hour_minute_second": (None, ("C06", "C20"))}
    tp = ctx.model.cls("TimePoint")
    for name, (kind, props) in want.items():
        f = tp.methods.get(name)
        if f is None:
            continue
        rep.anchor(rule, "representation-preserving methods")
        for r0 in ("cal", "ord", "week"):
            outs = summaries[f.qual].get((r0, kind), set())
            reps = {r for r, dy in outs}
            key = ctx.fkey(f, None, "preserve:%s" % r0)
            rep.check(
                reps <= {r0} and bool(reps), rule, key, f.loc(),
                "%s-date receiver -> %s-date result" % (REPNAME[r0],
                                                       REPNAME[r0]),
                "%s returns a %s-date result for a %s-date receiver: the "
                "date representation is not preserved" % (
                    f.qual, "/".join(sorted(REPNAME.get(r, r) for r in
                                            reps - {r0})) or "no",
                    REPNAME[r0]), props)


RULES = {"R08": r08_tick_typestate, "R13ab": r13ab_rep_structure,
         "R13c": r13c_rep_preserved}


# ------------------------------------------------------------------- R46
SEARCH_ORDER = ["second_of_minute", "minute_of_hour", "hour_of_day",
                "day_of_week", "day_of_month", "day_of_year", "week_of_year",
                "month_of_year"]
SEARCH_RANK = {"second_of_minute": 0, "minute_of_hour": 1, "hour_of_day": 2,
               "day_of_week": 3, "day_of_month": 3, "day_of_year": 3,
               "week_of_year": 4, "month_of_year": 5}


def r46_search_postcondition(ctx):
    """add_truncated: each requested field is reached by a search loop
    `while new._F != F: new._F += 1; new._tick_over()`, whose exit is what
    guarantees `result._F == F`; a field written outside its own loop (a
    direct jump followed by the normaliser) can be moved again by the carry,
    and a lower unit searched after a higher one undoes the higher match."""
    rep = ctx.rep
    rule = "R46.search-postcondition"
    tp = ctx.model.cls("TimePoint")
    f = tp.methods.get("add_truncated")
    if f is None:
        raise AnalysisError("TimePoint.add_truncated not found")
    rep.need_anchor(rule, "search loops")
    params = set(f.call_params)
    loops = {}      # field -> While
    order = []
    from ..model import preorder
    for n in preorder(f.node):
        if isinstance(n, ast.While) and isinstance(n.test, ast.Compare) and \
                len(n.test.ops) == 1 and isinstance(n.test.ops[0], ast.NotEq):
            a, b = n.test.left, n.test.comparators[0]
            for x, y in ((a, b), (b, a)):
                if isinstance(x, ast.Attribute) and isinstance(y, ast.Name) \
                        and x.attr == "_" + y.id and y.id in params:
                    loops[y.id] = n
                    order.append((len(order), y.id))
                    rep.anchor(rule, "search loops")
    # (a) writes to a searched field only inside its own loop
    for n in walk_no_nested(f.node):
        tg = []
        if isinstance(n, ast.Assign):
            tg = n.targets
        elif isinstance(n, ast.AugAssign):
            tg = [n.target]
        for t in tg:
            if isinstance(t, ast.Attribute) and t.attr[1:] in SEARCH_RANK \
                    and t.attr[1:] in params:
                fld = t.attr[1:]
                lp = loops.get(fld)
                inside = lp is not None and any(
                    n is x for st in lp.body for x in ast.walk(st))
                rep.check(
                    inside, rule, ctx.fkey(f, n, "in-own-loop"), f.loc(n),
                    "%s is stepped inside `while new._%s != %s`" % (
                        t.attr, fld, fld),
                    "add_truncated writes %s outside a `while new.%s != %s` "
                    "search loop: nothing guarantees that the field still "
                    "equals the requested value after the normaliser ran "
                    "(day 366 of a common year is carried to day 1 of the "
                    "next year), so the result is not the next *matching* "
                    "date-time" % (U(t), t.attr, fld), ("C20",))
    # (b) ascending unit order
    order.sort()
    ranks = [SEARCH_RANK[x] for _, x in order if x in SEARCH_RANK]
    rep.check(ranks == sorted(ranks) and bool(ranks), rule,
              ctx.fkey(f, None, "unit-order"), f.loc(),
              "search loops run from the smallest unit upwards (%s)" %
              [x for _, x in order],
              "add_truncated searches %s: a lower unit searched after a "
              "higher one carries into it and undoes its match" %
              [x for _, x in order], ("C20",))
    missing = [x for x in SEARCH_RANK if x in params and x not in loops]
    rep.check(not missing, rule, ctx.fkey(f, None, "all-fields"), f.loc(),
              "every requested field has its search loop",
              "no search loop for %s" % missing, ("C20",))


    # (c) a requested time unit zeroes every *lower* unit that was not
    # requested (T-30 means minute 30, second 0): decision table of the
    # defaulting statements in front of the first search
    from ..dtable import explore
    pro = []
    for st in f.node.body:
        if any(isinstance(x, (ast.While, ast.For)) for x in ast.walk(st)) or \
                "to_hour_minute_second" in U(st):
            break
        pro.append(st)
    names = ("hour_of_day", "minute_of_hour", "second_of_minute")
    if all(n in params for n in names) and pro:
        problems = []
        import itertools
        for p in explore(pro):
            final = {n: (p.get(n) if p.get(n) is not None else n)
                     for n in names}
            fixed = {}
            for n in names:
                d = p.decisions.get("%s is None" % n)
                if d is not None:
                    fixed[n] = not d
            free = [n for n in names if n not in fixed]
            # a test the path never made holds either way on it
            for combo in itertools.product((True, False), repeat=len(free)):
                given = dict(fixed)
                given.update(dict(zip(free, combo)))
                for i, hi in enumerate(names):
                    if not given[hi]:
                        continue
                    for lo in names[i + 1:]:
                        if not given[lo] and final[lo] != "0":
                            problems.append(
                                "%s given, %s not given: %s stays %s" % (
                                    hi, lo, lo, final[lo]))
        rep.check(not problems, rule, ctx.fkey(f, None, "lower-units-zeroed"),
                  f.loc(), "a requested time unit zeroes every lower unit "
                  "that was not requested",
                  "add_truncated: %s - the lower unit keeps the value of the "
                  "point added to, so T-30 added to hh:mm:17 gives second 17 "
                  "instead of the start of minute 30" %
                  "; ".join(sorted(set(problems))), ("C20",))


RULES["R46"] = r46_search_postcondition
