"""R01 OWN-WRITE, R02 OWN-MUTATOR, R03 OWN-SHARED (C16).

Flow-sensitive ownership analysis on the structured interpreter.  The
abstract value of a local is a set of atoms:
   F      freshly allocated in this activation (constructor / _copy / a
          callee that returns Fresh)
   R      the receiver (self)
   P:x    whatever parameter x refers to
   S      shared: a sub-object of something not fresh, a module global, a
          memoised result
   E      a Fresh object that has escaped (stored, yielded, returned earlier)
   N      not a value object
"""
import ast

from ..fdai import Engine, Plugin, freeze, thaw
from ..model import AnalysisError, U, walk_no_nested, parent
from ..resolve import BINOP_DUNDER, CONTAINER_MUT

P16 = ("C16",)
FS = frozenset
INPLACE = ("__iadd__", "__isub__", "__imul__", "__ifloordiv__",
           "__itruediv__", "__imod__", "__ipow__", "__iand__", "__ior__",
           "__ixor__", "__ilshift__", "__irshift__", "__imatmul__")


def value_classes(ctx):
    return [ctx.model.cls(n) for n in ctx.model.VALUE_CLASSES]


def value_slots(ctx):
    out = {}
    for c in value_classes(ctx):
        out[c.name] = set(ctx.folder.need_class_const(c, "__slots__"))
    return out


class OwnPlugin(Plugin):
    def __init__(self, ctx, f, summaries, vslots):
        self.ctx = ctx
        self.f = f
        self.summaries = summaries
        self.vslots = vslots
        self.vnames = set(vslots)
        self.res = ctx.res
        self.writes = []       # (node, base expr, atoms, slot)
        self.mcalls = []       # (call node, callee, recv atoms)
        self.returns = set()
        self.init_of = f.cls if f.name == "__init__" else None

    # ---------------------------------------------------------- helpers
    def _types(self, e):
        return self.ctx.types_in(self.f, e)

    def _is_value(self, e):
        return bool(self._types(e) & self.vnames)

    def _callees(self, call):
        return self.ctx.resolve_call(self.f, call)

    def eval(self, e, d):
        if e is None:
            return FS(["N"])
        if isinstance(e, ast.Name):
            if e.id in d:
                return d[e.id]
            if self.f.self_name == e.id:
                return FS(["R"])
            if e.id in self.f.params or e.id in self.f.kwonly:
                return FS(["P:" + e.id])
            if self._is_value(e):
                return FS(["S"])        # module global holding a value
            return FS(["N"])
        if isinstance(e, ast.Constant):
            return FS(["N"])
        if isinstance(e, ast.Attribute):
            base = self.eval(e.value, d)
            if not self._is_value(e):
                return FS(["N"])
            # a sub-object (slot) of base.  Copies are shallow (_copy()
            # hands the slot values on by reference), so what sits in a slot
            # of even a fresh object is shared with the object it was copied
            # from or with whoever passed it in
            return FS(["S"])
        if isinstance(e, ast.Call):
            return self._call(e, d)
        if isinstance(e, ast.BinOp):
            return self._binop(e, d)
        if isinstance(e, ast.UnaryOp):
            self.eval(e.operand, d)
            if self._is_value(e):
                return FS(["F"])       # __neg__ etc. are not defined today
            return FS(["N"])
        if isinstance(e, ast.IfExp):
            return self.eval(e.body, d) | self.eval(e.orelse, d)
        if isinstance(e, ast.BoolOp):
            out = FS()
            for v in e.values:
                out |= self.eval(v, d)
            return out
        if isinstance(e, (ast.Tuple, ast.List, ast.Set)):
            for x in e.elts:
                v = self.eval(x.value if isinstance(x, ast.Starred) else x, d)
                self._escape(x, v, d)
            return FS(["N"])
        if isinstance(e, ast.Dict):
            for x in e.values:
                v = self.eval(x, d)
                self._escape(x, v, d)
            return FS(["N"])
        if isinstance(e, ast.Subscript):
            self.eval(e.value, d)
            if self._is_value(e):
                return FS(["S"])
            return FS(["N"])
        if isinstance(e, ast.Compare):
            self.eval(e.left, d)
            for c in e.comparators:
                self.eval(c, d)
            return FS(["N"])
        if isinstance(e, (ast.ListComp, ast.GeneratorExp, ast.SetComp,
                          ast.DictComp)):
            return FS(["N"])
        if isinstance(e, ast.Starred):
            return self.eval(e.value, d)
        if isinstance(e, (ast.Yield,)):
            v = self.eval(e.value, d) if e.value is not None else FS(["N"])
            return FS(["N"])
        for c in ast.iter_child_nodes(e):
            if isinstance(c, ast.expr):
                self.eval(c, d)
        if self._is_value(e):
            return FS(["S"])
        return FS(["N"])

    def _subst(self, summ, recv, argmap):
        out = set()
        for a in summ:
            if a == "R":
                out |= recv if recv is not None else {"S"}
            elif a.startswith("P:"):
                out |= argmap.get(a[2:], FS(["S"]))
            else:
                out.add(a)
        return FS(out)

    def _call(self, e, d):
        fn = e.func
        args = [self.eval(a.value if isinstance(a, ast.Starred) else a, d)
                for a in e.args]
        kws = {k.arg: self.eval(k.value, d) for k in e.keywords}
        recv = None
        if isinstance(fn, ast.Attribute):
            recv = self.eval(fn.value, d)
        if isinstance(fn, ast.Name) and fn.id == "setattr" and \
                len(e.args) == 3:
            self._store(e, e.args[0], args[0], U(e.args[1]), args[2], d)
            return FS(["N"])
        if isinstance(fn, ast.Name) and fn.id == "getattr" and e.args:
            if self._is_value(e) or True:
                base = args[0]
                vt = self._types(e)
                if vt & self.vnames:
                    return FS(["F"]) if base <= {"F"} else FS(["S"])
            return FS(["N"])
        callees, rtypes, status = self._callees(e)
        if status == "ctor":
            cn = {c.cls.name for c in callees if c.cls is not None}
            if cn & self.vnames or (rtypes & self.vnames):
                # constructor arguments are retained by the new object
                for a_node, a in zip(e.args, args):
                    self._escape(a_node, a, d)
                for k in e.keywords:
                    self._escape(k.value, kws.get(k.arg, FS(["N"])), d)
                return FS(["F"])
            return FS(["N"])
        if not callees:
            if self._is_value(e):
                return FS(["S"])
            return FS(["N"])
        out = set()
        for c in callees:
            if c.is_property:
                continue
            params = c.call_params
            argmap = {}
            for i, a in enumerate(args):
                if i < len(params):
                    argmap[params[i]] = a
            for k, a in kws.items():
                if k is not None:
                    argmap[k] = a
            self.mcalls.append((e, c, recv if (c.cls is not None and
                                               not c.is_static) else None))
            summ = self.summaries.get(c.qual)
            if summ is None:
                continue
            out |= self._subst(summ, recv, argmap)
        if not out:
            # callee summaries still bottom (least fix-point iteration) or
            # the callee never returns a value object
            return FS(["N"]) if not self._is_value(e) else FS()
        return FS(out)

    def _binop(self, e, d):
        a = self.eval(e.left, d)
        b = self.eval(e.right, d)
        if not self._is_value(e):
            return FS(["N"])
        dn = BINOP_DUNDER.get(type(e.op))
        out = set()
        if dn is not None:
            lt = self._types(e.left)
            rt = self._types(e.right)
            hit = False
            for t in lt:
                for c in self.res.lookup_method(t, dn[0]):
                    hit = True
                    summ = self.summaries.get(c.qual, FS())
                    ps = c.call_params
                    out |= self._subst(summ, a, {ps[0]: b} if ps else {})
            if not any(self.res.cls_of(t) for t in lt):
                for t in rt:
                    for c in self.res.lookup_method(t, dn[1]):
                        hit = True
                        summ = self.summaries.get(c.qual, FS())
                        ps = c.call_params
                        out |= self._subst(summ, b, {ps[0]: a} if ps else {})
            if hit:
                return FS(out)
        return FS(["S"])

    # ---------------------------------------------------------- effects
    def _escape(self, node, atoms, d):
        """A fresh object stored somewhere else is no longer exclusively
        owned by this activation."""
        if "F" in atoms and isinstance(node, ast.Name) and node.id in d:
            d[node.id] = (d[node.id] - {"F"}) | {"E"}

    def _store(self, node, base_expr, base_atoms, slot, val_atoms, d):
        bt = self._types(base_expr)
        if bt & self.vnames or (isinstance(base_expr, ast.Name) and
                                base_expr.id == self.f.self_name and
                                self.f.cls is not None and
                                self.f.cls.name in self.vnames):
            self.writes.append((node, base_expr, base_atoms, slot))
        elif isinstance(base_expr, ast.Attribute):
            # `x._zone._hours = ...`: a store into an object that sits in a
            # slot of a value object.  Copies are shallow, so that object is
            # shared with the original (and with whoever handed it in),
            # whatever the resolver knows about its type.
            root = base_expr
            while isinstance(root, ast.Attribute):
                root = root.value
            if self._types(root) & self.vnames or (
                    isinstance(root, ast.Name) and
                    root.id == self.f.self_name and
                    self.f.cls is not None and
                    self.f.cls.name in self.vnames):
                self.writes.append((node, base_expr, FS(["S"]), slot))

    def assign(self, t, v, d, st):
        if isinstance(t, ast.Name):
            d[t.id] = v if isinstance(v, frozenset) else FS(["N"])
        elif isinstance(t, (ast.Tuple, ast.List)):
            for x in t.elts:
                self.assign(x.value if isinstance(x, ast.Starred) else x,
                            FS(["S"]) if self._is_value(x) else FS(["N"]),
                            d, st)
        elif isinstance(t, ast.Attribute):
            base = self.eval(t.value, d)
            self._store(st, t.value, base, t.attr, v, d)
            # the stored object is now reachable from the target object
            val = getattr(st, "value", None)
            if isinstance(val, ast.Name) and isinstance(v, frozenset):
                if not (base <= {"F"}):
                    self._escape(val, v, d)
        elif isinstance(t, ast.Subscript):
            self.eval(t.value, d)
            val = getattr(st, "value", None)
            if isinstance(val, ast.Name) and isinstance(v, frozenset):
                self._escape(val, v, d)

    def augassign(self, st, d):
        t = st.target
        v = self.eval(st.value, d)
        if isinstance(t, ast.Attribute):
            base = self.eval(t.value, d)
            self._store(st, t.value, base, t.attr, v, d)
        elif isinstance(t, ast.Name):
            # x -= d on a value object rebinds (no in-place dunders: R02c)
            fake = ast.BinOp(left=ast.Name(id=t.id, ctx=ast.Load()),
                             op=st.op, right=st.value)
            ast.copy_location(fake, st)
            ast.fix_missing_locations(fake)
            fake._parent = st
            fake.left._parent = fake
            if self._is_value(t):
                d[t.id] = self._binop(fake, d)
            else:
                d[t.id] = FS(["N"])

    def for_target(self, stmt, d):
        self.eval(stmt.iter, d)
        names = []
        for n in ast.walk(stmt.target):
            if isinstance(n, ast.Name):
                names.append(n)
        for n in names:
            d[n.id] = FS(["S"]) if self._is_value(n) else FS(["N"])

    def on_return(self, st, d, v):
        if isinstance(v, frozenset):
            self.returns |= set(v)

    def on_yield(self, st, d, v):
        if isinstance(v, frozenset):
            self.returns |= set(v)
            val = st.value.value
            if isinstance(val, ast.Name):
                self._escape(val, v, d)


def own_analysis(ctx):
    if "own" in ctx.cache:
        return ctx.cache["own"]
    vslots = value_slots(ctx)
    funcs = ctx.model.all_functions()
    summaries = {f.qual: FS() for f in funcs}
    plugins = {}
    for rnd in range(10):
        changed = False
        for f in funcs:
            p = OwnPlugin(ctx, f, summaries, vslots)
            try:
                Engine(p).run(f.node.body, {freeze({})})
            except AnalysisError as exc:
                raise AnalysisError("ownership analysis of %s: %s" % (
                    f.qual, exc))
            plugins[f.qual] = p
            ret = FS(a for a in p.returns if a != "N")
            ret = FS(("F" if a == "E" else a) for a in ret)
            ret = ret | summaries[f.qual]
            if ret != summaries[f.qual]:
                summaries[f.qual] = ret
                changed = True
        if not changed:
            break
    else:
        raise AnalysisError("ownership summaries did not converge")
    ctx.cache["own"] = (summaries, plugins, vslots, rnd + 1)
    return ctx.cache["own"]


def mutator_set(ctx, plugins, vslots):
    """Methods of value classes (other than __init__) that write a slot of
    self, or call such a method on self."""
    vnames = set(vslots)
    M = set()
    for q, p in plugins.items():
        f = p.f
        if f.cls is None or f.cls.name not in vnames or f.name == "__init__":
            continue
        for node, base, atoms, slot in p.writes:
            if isinstance(base, ast.Name) and base.id == f.self_name:
                M.add(q)
    changed = True
    while changed:
        changed = False
        for q, p in plugins.items():
            f = p.f
            if q in M or f.cls is None or f.cls.name not in vnames or \
                    f.name == "__init__":
                continue
            for call, callee, recv in p.mcalls:
                if callee.qual in M and isinstance(
                        call.func, ast.Attribute) and isinstance(
                            call.func.value, ast.Name) and \
                        call.func.value.id == f.self_name:
                    M.add(q)
                    changed = True
    return M


def r01_own_write(ctx):
    rep = ctx.rep
    rule = "R01.own-write"
    summaries, plugins, vslots, rounds = own_analysis(ctx)
    M = mutator_set(ctx, plugins, vslots)
    vnames = set(vslots)
    rep.need_anchor(rule, "slot stores")
    n = 0
    for q in sorted(plugins):
        p = plugins[q]
        f = p.f
        joined = {}
        for node, base, atoms, slot in p.writes:
            k = (id(node), slot if not slot.startswith("attr") else "*")
            if k in joined:
                joined[k] = (node, base, joined[k][2] | atoms, slot)
            else:
                joined[k] = (node, base, atoms, slot)
        for node, base, atoms, slot in joined.values():
            n += 1
            rep.anchor(rule, "slot stores")
            is_self = isinstance(base, ast.Name) and base.id == f.self_name
            in_own_init = (is_self and f.name == "__init__" and
                           f.cls is not None and f.cls.name in vnames)
            in_mut = is_self and q in M
            ok = atoms <= {"F"} or in_own_init or in_mut
            key = ctx.fkey(f, node if not isinstance(node, ast.Call)
                           else node, "store")
            why = ""
            if not ok:
                bad = sorted(atoms - {"F"})
                names = {"R": "the receiver itself", "S": "a shared object "
                         "(sub-object, global or result that may alias an "
                         "operand)", "E": "a fresh object that has already "
                         "been stored/yielded elsewhere", "N": "an object of "
                         "unknown origin"}
                why = "%s writes slot %s of `%s`, which may be %s: a " \
                    "public operation would change an existing value" % (
                        f.qual, slot, U(base), "; ".join(
                            names.get(b, "parameter " + b[2:]) for b in bad))
            # layering: only the defining module writes value-class slots
            bts = ctx.types_in(f, base) & vnames
            owners = {ctx.model.cls(t).module.name for t in bts}
            if owners and f.module.name not in owners:
                ok = False
                why = "%s (module %s) writes slot %s of a %s: value-class " \
                    "slots may only be written inside %s.py" % (
                        f.qual, f.module.name, slot, "/".join(sorted(bts)),
                        "/".join(sorted(owners)))
            rep.check(ok, rule, key, f.loc(node),
                      "store to %s.%s targets %s" % (
                          U(base), slot, "the object under construction" if
                          in_own_init else ("self inside private normaliser"
                                            if in_mut else "a fresh copy")),
                      why, P16)
    # stores to value-class slots from other modules are covered by the same
    # loop (plugins cover every function of the package)
    rep.ok(rule, "package:summaries", "-",
           "ownership summaries converged in %d rounds over %d functions; "
           "%d slot-store sites" % (rounds, len(plugins), n), P16)
    # deletion of slots
    for f in ctx.model.all_functions():
        for node in walk_no_nested(f.node):
            if isinstance(node, ast.Delete):
                for t in node.targets:
                    if isinstance(t, ast.Attribute) and \
                            ctx.types_in(f, t.value) & vnames:
                        rep.violation(rule, ctx.fkey(f, node), f.loc(node),
                                      "del of a value-object slot", P16)


def r02_own_mutator(ctx):
    rep = ctx.rep
    rule = "R02.mutator"
    summaries, plugins, vslots, rounds = own_analysis(ctx)
    M = mutator_set(ctx, plugins, vslots)
    vnames = set(vslots)
    rep.need_anchor(rule, "mutator calls")
    for q in sorted(M):
        f = ctx.model.functions[q]
        rep.check(f.name.startswith("_") and not f.name.startswith("__"),
                  rule, ctx.fkey(f, None, "private"), f.loc(),
                  "in-place normaliser %s is private" % f.name,
                  "%s writes slots of self (or calls a method that does) "
                  "but is public: any caller can mutate a value in place" %
                  q, P16, nontrivial=False)
    for q in sorted(plugins):
        p = plugins[q]
        f = p.f
        joined = {}
        for call, callee, recv in p.mcalls:
            if callee.qual not in M:
                continue
            k = (id(call), callee.qual)
            if k in joined and recv is not None and \
                    joined[k][2] is not None:
                joined[k] = (call, callee, joined[k][2] | recv)
            elif k not in joined:
                joined[k] = (call, callee, recv)
        for call, callee, recv in joined.values():
            rep.anchor(rule, "mutator calls")
            is_self = isinstance(call.func, ast.Attribute) and isinstance(
                call.func.value, ast.Name) and \
                call.func.value.id == f.self_name
            ok = (recv is not None and recv <= {"F"}) or (
                is_self and (q in M or (f.name == "__init__" and
                                        f.cls is not None and
                                        f.cls.name in vnames)))
            rep.check(ok, rule, ctx.fkey(f, call, "receiver"), f.loc(call),
                      "%s() runs on %s" % (callee.name, "self inside a "
                                           "mutator" if is_self else
                                           "a fresh copy"),
                      "%s calls the in-place normaliser %s on `%s`, which "
                      "may be %s rather than a fresh copy" % (
                          f.qual, callee.name,
                          U(call.func.value) if isinstance(
                              call.func, ast.Attribute) else "?",
                          sorted((recv or FS(["?"])) - {"F"})), P16)
    # (c) no in-place dunders
    for c in value_classes(ctx):
        for dn in INPLACE:
            rep.check(c.find_method(dn) is None, rule,
                      ctx.mkey(c.module.name, "%s.%s:absent" % (c.name, dn)),
                      "-", "no %s" % dn,
                      "%s defines %s: augmented assignment on a value "
                      "mutates the object other references see" % (
                          c.name, dn), P16, nontrivial=False)
        # no property setters / __setattr__ games
        for name, fn in c.methods.items():
            if any(d.endswith(".setter") or d.endswith(".deleter")
                   for d in fn.decorators):
                rep.violation(rule, ctx.fkey(fn, None, "setter"), fn.loc(),
                              "property setter on a value class", P16)
        rep.check("__slots__" in c.attrs, rule,
                  ctx.mkey(c.module.name, c.name + ":__slots__"),
                  c.module.loc(c.node), "%s declares __slots__" % c.name,
                  "%s no longer declares __slots__" % c.name, P16,
                  nontrivial=False)


def r03_own_shared(ctx):
    rep = ctx.rep
    rule = "R03.shared"
    res = ctx.res
    vslots = value_slots(ctx)
    vnames = set(vslots)
    rep.need_anchor(rule, "shared-container uses")
    # (a) memoised functions returning containers, and functions that hand
    # those results on
    shared_src = set()
    for f in ctx.model.all_functions():
        if f.is_cached and res.ret_types.get(f.qual, set()) & {
                "list", "dict", "set"}:
            shared_src.add(f.qual)
    changed = True
    while changed:
        changed = False
        for f in ctx.model.all_functions():
            if f.qual in shared_src:
                continue
            for n in walk_no_nested(f.node):
                if isinstance(n, ast.Return) and isinstance(
                        n.value, ast.Call):
                    if any(c.qual in shared_src for c in ctx.in_func(
                            f, n).callees_of_call(n.value)):
                        shared_src.add(f.qual)
                        changed = True
    for f in ctx.model.all_functions():
        shared_vars = set()
        calls = []
        for n in walk_no_nested(f.node):
            if isinstance(n, ast.Call) and any(
                    c.qual in shared_src for c in ctx.in_func(
                        f, n).callees_of_call(n)):
                calls.append(n)
                p = parent(n)
                if isinstance(p, ast.Assign):
                    for t in p.targets:
                        if isinstance(t, ast.Name):
                            shared_vars.add(t.id)
        if not calls:
            continue
        for c in calls:
            rep.anchor(rule, "shared-container uses")
            p = parent(c)
            key = ctx.fkey(f, c, "use")
            bad = None
            if isinstance(p, ast.Attribute) and isinstance(
                    parent(p), ast.Call) and p.attr in CONTAINER_MUT:
                bad = "calls .%s() on the memoised container" % p.attr
            elif isinstance(p, ast.Assign) and any(isinstance(
                    t, ast.Attribute) for t in p.targets):
                bad = "stores the memoised container in an object"
            elif isinstance(p, ast.AugAssign):
                bad = "augmented assignment mutates the memoised container"
            rep.check(bad is None, rule, key, f.loc(c),
                      "memoised container is only read here",
                      "%s %s (%s): every later caller sees the change" % (
                          f.qual, bad, U(c)[:60]), P16 + ("C15",))
        for n in walk_no_nested(f.node):
            bad = None
            if isinstance(n, ast.Call) and isinstance(
                    n.func, ast.Attribute) and isinstance(
                        n.func.value, ast.Name) and \
                    n.func.value.id in shared_vars and \
                    n.func.attr in CONTAINER_MUT:
                bad = "%s.%s()" % (n.func.value.id, n.func.attr)
            if isinstance(n, (ast.Assign, ast.AugAssign, ast.Delete)):
                tg = n.targets if not isinstance(n, ast.AugAssign) \
                    else [n.target]
                for t in tg:
                    if isinstance(t, ast.Subscript) and isinstance(
                            t.value, ast.Name) and t.value.id in shared_vars:
                        bad = U(n)[:60]
                    if isinstance(n, ast.AugAssign) and isinstance(
                            t, ast.Name) and t.id in shared_vars:
                        bad = U(n)[:60]
            if bad:
                rep.violation(rule, ctx.fkey(f, n, "mutates-shared"),
                              f.loc(n), "%s mutates a container obtained "
                              "from a memoised function: %s" % (f.qual, bad),
                              P16 + ("C15",))
    # (b) module-level containers and class attributes
    WL = {("data.TimePoint.__str__", "TIMEPOINT_DUMPER_MAP"):
          "dumper memo keyed by digit count; holds no value objects",
          ("data.Calendar.default", "_DEFAULT"): "singleton creation"}
    for f in ctx.model.all_functions():
        for n in walk_no_nested(f.node):
            tgt = []
            if isinstance(n, ast.Assign):
                tgt = n.targets
            elif isinstance(n, ast.AugAssign):
                tgt = [n.target]
            name = None
            for t in tgt:
                if isinstance(t, ast.Subscript) and isinstance(
                        t.value, ast.Name) and t.value.id not in \
                        _locals(f) and t.value.id in f.module.constants:
                    name = t.value.id
                if isinstance(t, ast.Attribute) and any(
                        x.startswith("class:") for x in ctx.types_in(
                            f, t.value)):
                    name = t.attr
            if isinstance(n, ast.Call) and isinstance(
                    n.func, ast.Attribute) and isinstance(
                        n.func.value, ast.Name) and \
                    n.func.attr in CONTAINER_MUT and \
                    n.func.value.id not in _locals(f) and \
                    n.func.value.id in f.module.constants:
                name = n.func.value.id
            if name is None:
                continue
            rep.anchor(rule, "shared-container uses")
            reason = WL.get((f.qual, name))
            rep.check(reason is not None, rule,
                      ctx.fkey(f, None, "global-write:" + name), f.loc(n),
                      "write to %s: %s" % (name, reason),
                      "%s writes the module-level/class-level %s: state "
                      "shared by every value in the process" % (f.qual, name),
                      P16)
    # (c) mutable default arguments
    for f in ctx.model.all_functions():
        for pn, dflt in f.defaults.items():
            if isinstance(dflt, (ast.List, ast.Dict, ast.Set)) or (
                    isinstance(dflt, ast.Call) and U(dflt.func) in (
                        "list", "dict", "set")):
                rep.violation(rule, ctx.fkey(f, None, "mutable-default:" +
                                             pn), f.loc(),
                              "mutable default argument %s=%s is shared by "
                              "all calls" % (pn, U(dflt)), P16)
    # (d) value objects hold no containers
    for c in value_classes(ctx):
        st = res.slot_types.get(c.qual, {})
        for slot, ts in sorted(st.items()):
            if ts & {"list", "dict", "set"}:
                rep.violation(rule, ctx.mkey(c.module.name, "%s.%s:container"
                                             % (c.name, slot)),
                              c.module.loc(c.node),
                              "slot %s.%s may hold a mutable container %s" %
                              (c.name, slot, sorted(ts)), P16)
    rep.ok(rule, "package:value-slots", "-",
           "value-class slots hold numbers, strings, booleans, None and "
           "value objects only", P16)


def _locals(f):
    out = set(f.params) | set(f.kwonly)
    for n in walk_no_nested(f.node):
        if isinstance(n, ast.Name) and isinstance(n.ctx, ast.Store):
            out.add(n.id)
    for n in walk_no_nested(f.node):
        if isinstance(n, ast.Global):
            out -= set(n.names)
    return out


RULES = {"R01": r01_own_write, "R02": r02_own_mutator, "R03": r03_own_shared}
