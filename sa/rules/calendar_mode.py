"""R04 CACHE-KEY, R05 MODE-WRITER, R06 MODE-FUNC, R07 MODE-TABLE (C15, C03,
C11, C18)."""
import ast
import datetime

from ..fold import NotConst, ObjEnv, exec_block, _Return
from ..model import AnalysisError, U, walk_no_nested, parent, ancestors

P15 = ("C15",)
# a memoised helper that outlives a mode switch corrupts every property that
# is stated for all calendar modes and computes with year/month/week lengths
P15_03 = ("C15", "C03", "C01", "C04", "C02", "C05", "C06", "C09", "C12",
          "C20")


# ------------------------------------------------------------ common facts
def calendar_facts(ctx):
    """Facts read off Calendar.set_mode: assigned attrs, mode-dependent attrs
    (S), the mode parameter."""
    if "calfacts" in ctx.cache:
        return ctx.cache["calfacts"]
    cal = ctx.model.cls("Calendar")
    sm = cal.find_method("set_mode")
    if sm is None:
        raise AnalysisError("Calendar.set_mode not found")
    selfn = sm.self_name
    mode_params = [p for p in sm.params[1:]]
    if len(mode_params) != 1:
        raise AnalysisError("Calendar.set_mode: expected one parameter")
    mode_p = mode_params[0]
    assigned = []     # (attr, stmt, value)
    for st in walk_no_nested(sm.node):
        if isinstance(st, (ast.Assign, ast.AugAssign, ast.AnnAssign)):
            targets = st.targets if isinstance(st, ast.Assign) else [st.target]
            flat = []
            for t in targets:
                flat.extend(t.elts if isinstance(t, (ast.Tuple, ast.List))
                            else [t])
            for t in flat:
                if isinstance(t, ast.Attribute) and isinstance(
                        t.value, ast.Name) and t.value.id == selfn:
                    assigned.append((t.attr, st, st.value))
    # taint from the mode parameter
    tainted_locals = {mode_p}
    S = set()
    changed = True
    while changed:
        changed = False
        for st in walk_no_nested(sm.node):
            if not isinstance(st, (ast.Assign, ast.AugAssign)):
                continue
            val = st.value
            dep = False
            for n in ast.walk(val):
                if isinstance(n, ast.Name) and n.id in tainted_locals:
                    dep = True
                if isinstance(n, ast.Attribute) and isinstance(
                        n.value, ast.Name) and n.value.id == selfn and \
                        n.attr in S:
                    dep = True
            if not dep:
                continue
            targets = st.targets if isinstance(st, ast.Assign) else [st.target]
            for t in targets:
                for x in (t.elts if isinstance(t, (ast.Tuple, ast.List))
                          else [t]):
                    if isinstance(x, ast.Name) and x.id not in tainted_locals:
                        tainted_locals.add(x.id)
                        changed = True
                    if isinstance(x, ast.Attribute) and isinstance(
                            x.value, ast.Name) and x.value.id == selfn and \
                            x.attr not in S:
                        S.add(x.attr)
                        changed = True
    facts = {"cls": cal, "set_mode": sm, "mode_param": mode_p,
             "assigned": assigned,
             "assigned_names": sorted({a for a, _, _ in assigned}),
             "S": S}
    ctx.cache["calfacts"] = facts
    return facts


def is_calendar_expr(ctx, f, expr):
    """Does expr denote the Calendar singleton (by type)?"""
    if f is None:
        r = ctx.res
        return "Calendar" in r.types(expr)
    return "Calendar" in ctx.types_in(f, expr)


def s_reads_in(ctx, f, node=None, attrs=None):
    """Attribute loads X.a with X : Calendar and a in attrs inside f."""
    facts = calendar_facts(ctx)
    attrs = facts["S"] if attrs is None else attrs
    out = []
    for n in walk_no_nested(node if node is not None else f.node):
        if isinstance(n, ast.Attribute) and isinstance(n.ctx, ast.Load) and \
                n.attr in attrs and is_calendar_expr(ctx, f, n.value):
            out.append(n)
    return out


def mode_reading(ctx):
    """{func qual: [direct S-read nodes]} and transitive closure set."""
    if "modereading" in ctx.cache:
        return ctx.cache["modereading"]
    facts = calendar_facts(ctx)
    writer = {facts["set_mode"].qual}
    direct = {}
    for f in ctx.model.all_functions():
        if f.qual in writer:
            continue
        reads = s_reads_in(ctx, f)
        if reads:
            direct[f.qual] = reads
    res = ctx.res
    trans = set(direct)
    changed = True
    while changed:
        changed = False
        for q in res.edges:
            if q in trans or q in writer:
                continue
            if any(e.callee.qual in trans for e in res.edges[q]):
                trans.add(q)
                changed = True
    ctx.cache["modereading"] = (direct, trans)
    return direct, trans


def chain_to_read(ctx, q):
    direct, trans = mode_reading(ctx)
    res = ctx.res
    seen = {q}
    path = [q]
    cur = q
    while cur not in direct:
        nxt = None
        for e in res.edges.get(cur, []):
            if e.callee.qual in trans and e.callee.qual not in seen:
                nxt = e.callee.qual
                break
        if nxt is None:
            break
        seen.add(nxt)
        path.append(nxt)
        cur = nxt
    if cur in direct:
        n = direct[cur][0]
        path.append("%s reads .%s" % (ctx.model.functions[cur].loc(n),
                                     n.attr))
    return path


# -------------------------------------------------------------------- R04
def r04_cache_key(ctx):
    rep = ctx.rep
    rule = "R04.cache-key"
    facts = calendar_facts(ctx)
    direct, trans = mode_reading(ctx)
    res = ctx.res
    cached = [f for f in ctx.model.all_functions() if f.is_cached]
    rep.need_anchor(rule, "memoised functions")
    if not cached:
        return
    keyed_ok = {}

    def is_live_mode(fcaller, expr, depth=0):
        """expr reads <Calendar>.mode at call time."""
        if isinstance(expr, ast.Attribute) and expr.attr == "mode" and \
                is_calendar_expr(ctx, fcaller, expr.value):
            return True
        if isinstance(expr, ast.Name) and fcaller is not None and depth < 2:
            if expr.id in fcaller.params:
                return False
            defs = [n for n in walk_no_nested(fcaller.node)
                    if isinstance(n, ast.Assign) and any(
                        isinstance(t, ast.Name) and t.id == expr.id
                        for t in n.targets)]
            return bool(defs) and all(
                is_live_mode(fcaller, d.value, depth + 1) for d in defs)
        return False

    # name escapes: references to a cached function other than as callee
    for f in cached:
        rep.anchor(rule, "memoised functions")
        key = ctx.fkey(f)
        site = f.loc()
        if f.qual not in trans:
            rep.ok(rule, key, site,
                   "memoised %s does not read mode-dependent calendar state "
                   "(directly or through callees)" % f.qual, P15_03)
            continue
        callsites = [(q, e) for q, e in res.callers_of(f.qual)
                     if e.kind == "call"]
        params = f.call_params
        if not callsites:
            rep.violation(
                rule, key, site,
                "memoised %s reads mode-dependent state (%s) and has no "
                "call site binding a key parameter to the live mode" % (
                    f.qual, " -> ".join(chain_to_read(ctx, f.qual))), P15_03,
                witness=chain_to_read(ctx, f.qual))
            continue
        good_param = None
        bad_detail = None
        for idx, p in enumerate(params):
            allok = True
            for q, e in callsites:
                caller = ctx.model.functions.get(q)
                call = e.node
                arg = None
                if idx < len(call.args) and not any(
                        isinstance(a, ast.Starred) for a in call.args):
                    arg = call.args[idx]
                for k in call.keywords:
                    if k.arg == p:
                        arg = k.value
                if arg is None or not is_live_mode(caller, arg):
                    allok = False
                    if bad_detail is None or arg is not None:
                        bad_detail = "%s passes %s for parameter %s" % (
                            caller.loc(call) if caller else q,
                            U(arg) if arg is not None else "nothing", p)
                    break
            if allok:
                good_param = p
                break
        if good_param is None:
            # best diagnostic: look at the last parameter position
            rep.violation(
                rule, key, site,
                "memoised %s reads mode-dependent state (%s) but no "
                "parameter is bound to the live CALENDAR.mode at every call "
                "site (%s)" % (f.qual,
                               " -> ".join(chain_to_read(ctx, f.qual)),
                               bad_detail or "no parameters"),
                P15_03, witness=chain_to_read(ctx, f.qual))
            continue
        keyed_ok[f.qual] = good_param
        # the key must be read in a function that is itself not memoised, or
        # memoised-and-keyed
        for q, e in callsites:
            caller = ctx.model.functions.get(q)
            if caller is not None and caller.is_cached:
                keyed_ok.setdefault("_pending", []).append(
                    (f, caller, e.node))
        rep.ok(rule, key, site,
               "memoised %s reads %s; parameter %r is bound to the live "
               "CALENDAR.mode at all %d call sites" % (
                   f.qual, " -> ".join(chain_to_read(ctx, f.qual)[1:]) or
                   "mode state", good_param, len(callsites)), P15_03)
    for f, caller, node in keyed_ok.pop("_pending", []):
        ckey = ctx.fkey(caller, node, "key-read-in-memoised")
        rep.check(caller.qual in keyed_ok, rule, ckey, caller.loc(node),
                  "key read inside memoised %s, which is itself keyed on the "
                  "mode" % caller.qual,
                  "the mode key of %s is read inside memoised %s, which is "
                  "not keyed on the mode (the read is frozen by the outer "
                  "cache)" % (f.qual, caller.qual), P15_03)
    # aliases: a cached function must only be referenced as a callee
    names = {f.name: f for f in cached if f.cls is None}
    for m in ctx.model.modules.values():
        for n in ast.walk(m.tree):
            if isinstance(n, ast.Name) and isinstance(n.ctx, ast.Load) and \
                    n.id in names and names[n.id].qual in trans:
                p = parent(n)
                if isinstance(p, ast.Call) and p.func is n:
                    continue
                f = names[n.id]
                if m is not f.module and n.id not in m.imports:
                    continue
                rep.violation(
                    rule, ctx.mkey(m.name, "alias of " + n.id),
                    m.loc(n), "memoised mode-reading %s is referenced other "
                    "than as a direct callee (reachable under another name, "
                    "so its call sites cannot be enumerated)" % f.qual, P15_03)


# -------------------------------------------------------------------- R05
def r05_mode_writer(ctx):
    rep = ctx.rep
    facts = calendar_facts(ctx)
    cal, sm = facts["cls"], facts["set_mode"]
    S = facts["S"]
    direct, trans = mode_reading(ctx)
    res = ctx.res
    # (a) writers ---------------------------------------------------------
    rule = "R05.single-writer"
    rep.need_anchor(rule, "stores in set_mode")
    n_stores = 0
    # set_mode may delegate parts of its work to private methods of the
    # class that nothing else calls: they write on its behalf
    parts = set()
    for _ in range(4):
        for g in cal.methods.values():
            if g is sm or g in parts or not g.name.startswith("_") or \
                    g.name.startswith("__"):
                continue
            callers = [q for q, e in res.callers_of(g.qual)]
            if callers and all(q == sm.qual or q in {p_.qual for p_ in parts}
                               for q in callers):
                parts.add(g)
    for f in ctx.model.all_functions():
        for n in walk_no_nested(f.node):
            tgt = []
            if isinstance(n, ast.Assign):
                for t in n.targets:
                    tgt.extend(t.elts if isinstance(t, (ast.Tuple, ast.List))
                               else [t])
            elif isinstance(n, (ast.AugAssign, ast.AnnAssign)):
                tgt = [n.target]
            elif isinstance(n, ast.Delete):
                tgt = n.targets
            elif isinstance(n, ast.Call) and isinstance(n.func, ast.Name) \
                    and n.func.id in ("setattr", "delattr") and n.args:
                ts = ctx.types_in(f, n.args[0])
                if f is sm and isinstance(n.args[0], ast.Name) and \
                        n.args[0].id == sm.self_name:
                    n_stores += 1       # a store of set_mode itself
                    continue
                if "Calendar" in ts or "class:Calendar" in ts:
                    rep.violation(
                        rule, ctx.fkey(f, n), f.loc(n),
                        "setattr on the Calendar singleton/class outside "
                        "set_mode", P15)
                continue
            for t in tgt:
                if not isinstance(t, ast.Attribute):
                    continue
                ts = ctx.types_in(f, t.value)
                if "Calendar" in ts:
                    if f is sm or f in parts:
                        n_stores += 1
                        rep.anchor(rule, "stores in set_mode")
                        continue
                    rep.violation(
                        rule, ctx.fkey(f, n), f.loc(n),
                        "%s writes attribute %s of the Calendar singleton; "
                        "the only writer may be Calendar.set_mode" % (
                            f.qual, t.attr), P15)
                elif "class:Calendar" in ts:
                    okw = (f.cls is cal and f.name == "default" and
                           t.attr == "_DEFAULT")
                    rep.check(okw, rule, ctx.fkey(f, n), f.loc(n),
                              "singleton creation in Calendar.default",
                              "%s writes class attribute Calendar.%s" % (
                                  f.qual, t.attr), P15, nontrivial=False)
        # global CALENDAR rebinding
        for n in walk_no_nested(f.node):
            if isinstance(n, ast.Global) and "CALENDAR" in n.names:
                rep.violation(rule, ctx.fkey(f, n), f.loc(n),
                              "%s rebinds the module global CALENDAR" %
                              f.qual, P15)
    for m in ctx.model.modules.values():
        binds = [st for st in m.tree.body if isinstance(st, ast.Assign) and
                 any(isinstance(t, ast.Name) and t.id == "CALENDAR"
                     for t in st.targets)]
        if m.name == "data":
            rep.check(len(binds) == 1 and U(binds[0].value).replace(
                " ", "") in ("Calendar.default()",), rule,
                ctx.mkey("data", "CALENDAR binding"),
                m.loc(binds[0]) if binds else "data.py:?",
                "CALENDAR is bound once, to Calendar.default()",
                "CALENDAR must be bound exactly once to Calendar.default() "
                "(found %d bindings: %s)" % (
                    len(binds), [U(b.value) for b in binds]), P15,
                nontrivial=False)
    rep.ok(rule, ctx.fkey(sm), sm.loc(),
           "%d attribute stores to the singleton, all inside set_mode" %
           n_stores, P15)

    # (b) import-time capture ---------------------------------------------
    rule = "R05.import-time"
    rep.need_anchor(rule, "import-time expressions")
    import_time = []       # (module, expr node, what)
    for m in ctx.model.modules.values():
        for st in m.tree.body:
            if isinstance(st, (ast.FunctionDef, ast.AsyncFunctionDef)):
                for d in st.decorator_list:
                    import_time.append((m, d, "decorator of " + st.name))
                for d in st.args.defaults + [x for x in st.args.kw_defaults
                                             if x is not None]:
                    import_time.append((m, d, "default argument of " +
                                        st.name))
            elif isinstance(st, ast.ClassDef):
                for b in st.body:
                    if isinstance(b, (ast.FunctionDef, ast.AsyncFunctionDef)):
                        for d in b.decorator_list:
                            import_time.append(
                                (m, d, "decorator of %s.%s" % (st.name,
                                                               b.name)))
                        for d in b.args.defaults + [
                                x for x in b.args.kw_defaults if x is not None]:
                            import_time.append(
                                (m, d, "default argument of %s.%s" % (
                                    st.name, b.name)))
                    elif isinstance(b, (ast.Assign, ast.AnnAssign,
                                        ast.AugAssign)):
                        import_time.append((m, b, "class body of " + st.name))
            elif isinstance(st, (ast.Import, ast.ImportFrom)):
                continue
            else:
                # only expressions whose value is *bound* at import time can
                # freeze a mode (a bare call such as the `__main__` guard
                # binds nothing)
                for sub in ast.walk(st):
                    if isinstance(sub, (ast.Assign, ast.AnnAssign,
                                        ast.AugAssign)) and \
                            sub.value is not None:
                        import_time.append((m, sub, "module level"))
    res._cur, res._collect = None, False
    for m, node, what in import_time:
        rep.anchor(rule, "import-time expressions")
        res._cur, res._curq, res._curmod = None, m.name + ".<module>", m
        bad = None
        for n in ast.walk(node):
            if isinstance(n, ast.Attribute) and isinstance(n.ctx, ast.Load) \
                    and n.attr in S and "Calendar" in res.types(n.value):
                bad = "reads mode-dependent CALENDAR.%s" % n.attr
                break
            if isinstance(n, (ast.Lambda,)):
                break
        if bad is None:
            for e in res.edges.get(m.name + ".<module>", []):
                if e.callee.qual in trans and any(
                        x is e.node for x in ast.walk(node)):
                    bad = "calls mode-reading %s (%s)" % (
                        e.callee.qual,
                        " -> ".join(chain_to_read(ctx, e.callee.qual)))
                    break
        if bad:
            rep.violation(
                rule, ctx.mkey(m.name, what + ":" + U(node)[:60]),
                m.loc(node), "%s %s at import time: the value is frozen in "
                "whatever mode was active when the module was imported" % (
                    what, bad), P15)
    rep.ok(rule, "package:import-time", "-",
           "%d import-time expressions (module level, class bodies, "
           "decorators, default arguments) read no mode-dependent state" %
           len(import_time), P15)

    # (c) capture into long-lived state -------------------------------------
    rule = "R05.capture"
    value_classes = set(ctx.model.VALUE_CLASSES)
    rep.need_anchor(rule, "functions with mode reads")
    for q in sorted(trans):
        f = ctx.model.functions.get(q)
        if f is None or f is sm:
            continue
        rep.anchor(rule, "functions with mode reads")
        # locals tainted by S-reads or by results of mode-reading callees
        tainted = set()
        mode_nodes = set(id(n) for n in direct.get(q, []))
        for e in res.edges.get(q, []):
            if e.callee.qual in trans and e.kind in ("call", "property"):
                mode_nodes.add(id(e.node))

        def is_tainted(expr):
            for n in ast.walk(expr):
                if id(n) in mode_nodes:
                    return True
                if isinstance(n, ast.Name) and n.id in tainted:
                    return True
            return False
        changed = True
        while changed:
            changed = False
            for n in walk_no_nested(f.node):
                if isinstance(n, ast.Assign) and is_tainted(n.value):
                    for t in n.targets:
                        for x in (t.elts if isinstance(
                                t, (ast.Tuple, ast.List)) else [t]):
                            if isinstance(x, ast.Name) and \
                                    x.id not in tainted:
                                tainted.add(x.id)
                                changed = True
        globs = set()
        for n in walk_no_nested(f.node):
            if isinstance(n, ast.Global):
                globs |= set(n.names)
        for n in walk_no_nested(f.node):
            if not isinstance(n, (ast.Assign, ast.AugAssign)):
                continue
            if not is_tainted(n.value):
                continue
            targets = n.targets if isinstance(n, ast.Assign) else [n.target]
            for t in targets:
                for x in (t.elts if isinstance(t, (ast.Tuple, ast.List))
                          else [t]):
                    bad = None
                    if isinstance(x, ast.Name) and x.id in globs:
                        bad = "module global %s" % x.id
                    elif isinstance(x, ast.Attribute):
                        ts = ctx.types_in(f, x.value)
                        cls_ts = {t_ for t_ in ts if res.cls_of(t_)}
                        if any(t_.startswith("class:") for t_ in ts):
                            bad = "class attribute %s" % U(x)
                        elif cls_ts and not (cls_ts & value_classes):
                            bad = "attribute %s of long-lived %s" % (
                                U(x), "/".join(sorted(cls_ts)))
                    elif isinstance(x, ast.Subscript) and isinstance(
                            x.value, ast.Name) and (
                                x.value.id in f.module.constants):
                        bad = "module-level container %s" % x.value.id
                    if bad:
                        rep.violation(
                            rule, ctx.fkey(f, n), f.loc(n),
                            "mode-dependent value stored into %s (captured "
                            "beyond the call; a later mode switch does not "
                            "update it)" % bad, P15)
    rep.ok(rule, "package:mode-capture", "-",
           "mode-dependent values flow only into locals, return values and "
           "fresh value objects in %d mode-reading functions" % len(trans),
           P15)


# -------------------------------------------------------------------- R06
def _must_assigned(stmts, state, selfn, S_all, on_read, exits):
    """Structured must-analysis: ``state`` = frozenset of attrs definitely
    assigned so far.  Returns state at normal exit or None if unreachable."""
    for st in stmts:
        if state is None:
            return None
        if isinstance(st, (ast.Assign, ast.AugAssign, ast.AnnAssign)):
            val = st.value
            if val is not None:
                on_read(val, state, st)
            if isinstance(st, ast.AugAssign):
                on_read(st.target, state, st)
            targets = st.targets if isinstance(st, ast.Assign) else [st.target]
            new = set(state)
            for t in targets:
                for x in (t.elts if isinstance(t, (ast.Tuple, ast.List))
                          else [t]):
                    if isinstance(x, ast.Attribute) and isinstance(
                            x.value, ast.Name) and x.value.id == selfn:
                        new.add(x.attr)
            state = frozenset(new)
        elif isinstance(st, ast.If):
            on_read(st.test, state, st)
            a = _must_assigned(st.body, state, selfn, S_all, on_read, exits)
            b = _must_assigned(st.orelse, state, selfn, S_all, on_read, exits)
            if a is None:
                state = b
            elif b is None:
                state = a
            else:
                state = a & b
        elif isinstance(st, (ast.For, ast.While)):
            on_read(st.iter if isinstance(st, ast.For) else st.test, state, st)
            _must_assigned(st.body, state, selfn, S_all, on_read, exits)
            # zero iterations possible: nothing gained
            e = _must_assigned(st.orelse, state, selfn, S_all, on_read, exits)
            state = state if e is None else state & e
        elif isinstance(st, ast.Try):
            a = _must_assigned(st.body, state, selfn, S_all, on_read, exits)
            outs = [a] if a is not None else []
            for h in st.handlers:
                hb = _must_assigned(h.body, state, selfn, S_all, on_read,
                                    exits)
                if hb is not None:
                    outs.append(hb)
            if a is not None and st.orelse:
                outs[0] = _must_assigned(st.orelse, a, selfn, S_all, on_read,
                                         exits)
                outs = [o for o in outs if o is not None]
            if not outs:
                state = None
            else:
                s0 = outs[0]
                for o in outs[1:]:
                    s0 = s0 & o
                state = s0
            if st.finalbody and state is not None:
                state = _must_assigned(st.finalbody, state, selfn, S_all,
                                       on_read, exits)
        elif isinstance(st, ast.Return):
            if st.value is not None:
                on_read(st.value, state, st)
            exits.append((st, state))
            return None
        elif isinstance(st, ast.Raise):
            return None
        elif isinstance(st, ast.Expr):
            on_read(st.value, state, st)
        elif isinstance(st, (ast.Pass, ast.Global, ast.Nonlocal, ast.Import,
                             ast.ImportFrom, ast.Assert, ast.Delete)):
            continue
        else:
            raise AnalysisError("R06: statement kind %s in set_mode" %
                                type(st).__name__)
    return state


def r06_mode_func(ctx):
    rep = ctx.rep
    rule = "R06.mode-func"
    facts = calendar_facts(ctx)
    sm, cal = facts["set_mode"], facts["cls"]
    selfn = sm.self_name
    S_all = set(facts["assigned_names"])
    rep.need_anchor(rule, "derived attributes")
    stale = []

    def on_read(expr, state, st):
        for n in ast.walk(expr):
            if isinstance(n, ast.Attribute) and isinstance(n.ctx, ast.Load) \
                    and isinstance(n.value, ast.Name) and \
                    n.value.id == selfn and n.attr in S_all and \
                    n.attr not in state:
                stale.append((n, st))
    exits = []
    end = _must_assigned(sm.node.body, frozenset(), selfn, S_all, on_read,
                         exits)
    if end is not None:
        exits.append((sm.node, end))
    if not exits:
        raise AnalysisError("R06: set_mode has no normal exit")
    for n, st in stale:
        rep.violation(
            rule, ctx.fkey(sm, st, "stale-read:" + n.attr), sm.loc(n),
            "set_mode reads self.%s before assigning it on this path: the "
            "value left by the previous mode leaks into the new mode's "
            "constants" % n.attr, P15)
    for a in sorted(S_all):
        rep.anchor(rule, "derived attributes")
        missing = [ex for ex, state in exits if a not in state]
        rep.check(not missing, rule, ctx.fkey(sm, None, "assigned:" + a),
                  sm.loc(), "self.%s is assigned on every path to exit" % a,
                  "self.%s is not assigned on every path through set_mode "
                  "(exit at %s): it keeps the previous mode's value" % (
                      a, sm.loc(missing[0]) if missing else "-"), P15)
    # self.mode comes from the parameter
    mode_assigns = [v for a, st, v in facts["assigned"] if a == "mode"]
    okm = bool(mode_assigns) and all(
        isinstance(v, ast.Name) and v.id == facts["mode_param"]
        for v in mode_assigns)
    rep.check(okm, rule, ctx.fkey(sm, None, "mode-attr"), sm.loc(),
              "self.mode is assigned from the parameter",
              "self.mode is not assigned from the mode parameter (%s): the "
              "cache key would not track the active mode" % [
                  U(v) for v in mode_assigns], P15)
    # every S attribute's right-hand side uses only: parameter-derived locals,
    # class constants never assigned by set_mode, already-assigned attrs.
    # (reads of attributes not in S_all are class constants: checked to be
    # never assigned anywhere by R05.)


# -------------------------------------------------------------------- R07
CIVIL_365 = (31, 28, 31, 30, 31, 30, 31, 31, 30, 31, 30, 31)
CIVIL_366 = (31, 29, 31, 30, 31, 30, 31, 31, 30, 31, 30, 31)
MODE_DEF = {
    "360day": (12 * (30,), 12 * (30,)), "360_day": (12 * (30,), 12 * (30,)),
    "365day": (CIVIL_365, CIVIL_365), "365_day": (CIVIL_365, CIVIL_365),
    "366day": (CIVIL_366, CIVIL_366), "366_day": (CIVIL_366, CIVIL_366),
    "gregorian": (CIVIL_365, CIVIL_366),
}


def eval_set_mode(ctx, mode_value):
    """Partial evaluation of Calendar.set_mode for one constant mode."""
    facts = calendar_facts(ctx)
    sm, cal = facts["set_mode"], facts["cls"]
    env = {sm.self_name: ObjEnv(), facts["mode_param"]: mode_value}
    try:
        exec_block(ctx.folder, sm.node.body, env, cal.module, cal)
    except _Return:
        pass
    except NotConst as exc:
        raise AnalysisError("R07: set_mode does not fold for mode %r: %s" %
                            (mode_value, exc))
    return env[sm.self_name]


def r07_mode_table(ctx, props=P15_03):
    rep = ctx.rep
    rule = "R07.mode-table"
    facts = calendar_facts(ctx)
    cal, sm = facts["cls"], facts["set_mode"]
    modes = ctx.folder.need_class_const(cal, "MODES")
    rep.tables.add("Calendar.MODES")
    rep.need_anchor(rule, "mode spellings")
    site = cal.module.loc(cal.attr_nodes["MODES"])
    rep.check(set(modes) == set(MODE_DEF), rule,
              ctx.mkey("data", "Calendar.MODES:keys"), site,
              "MODES has the seven documented spellings",
              "MODES keys %s differ from the documented spellings %s" % (
                  sorted(modes), sorted(MODE_DEF)), props)
    for mode in sorted(MODE_DEF):
        if mode not in modes:
            continue
        rep.anchor(rule, "mode spellings")
        want, want_leap = MODE_DEF[mode]
        for spelled in (mode, mode.upper()):
            try:
                st = eval_set_mode(ctx, spelled)
            except AnalysisError:
                if spelled != mode:
                    st = None
                    break
                raise
        st = eval_set_mode(ctx, mode)
        got = {
            "DAYS_IN_MONTHS": tuple(st.get("DAYS_IN_MONTHS") or ()),
            "DAYS_IN_MONTHS_LEAP": tuple(st.get("DAYS_IN_MONTHS_LEAP") or ()),
            "DAYS_IN_YEAR": st.get("DAYS_IN_YEAR"),
            "DAYS_IN_YEAR_LEAP": st.get("DAYS_IN_YEAR_LEAP"),
            "MONTHS_IN_YEAR": st.get("MONTHS_IN_YEAR"),
            "ROUGH_DAYS_IN_YEAR": st.get("ROUGH_DAYS_IN_YEAR"),
            "MAX_DAYS_IN_MONTH": st.get("MAX_DAYS_IN_MONTH"),
            "INDEXED_DAYS_IN_MONTHS": [tuple(x) for x in (
                st.get("INDEXED_DAYS_IN_MONTHS") or [])],
            "INDEXED_DAYS_IN_MONTHS_LEAP": [tuple(x) for x in (
                st.get("INDEXED_DAYS_IN_MONTHS_LEAP") or [])],
            "SECONDS_IN_HOUR": st.get("SECONDS_IN_HOUR"),
            "SECONDS_IN_DAY": st.get("SECONDS_IN_DAY"),
            "MINUTES_IN_DAY": st.get("MINUTES_IN_DAY"),
            "mode": st.get("mode"),
        }
        exp = {
            "DAYS_IN_MONTHS": tuple(want),
            "DAYS_IN_MONTHS_LEAP": tuple(want_leap),
            "DAYS_IN_YEAR": sum(want), "DAYS_IN_YEAR_LEAP": sum(want_leap),
            "MONTHS_IN_YEAR": 12, "ROUGH_DAYS_IN_YEAR": sum(want),
            "MAX_DAYS_IN_MONTH": max(want),
            "INDEXED_DAYS_IN_MONTHS": list(enumerate(want, 1)),
            "INDEXED_DAYS_IN_MONTHS_LEAP": list(enumerate(want_leap, 1)),
            "SECONDS_IN_HOUR": 3600, "SECONDS_IN_DAY": 86400,
            "MINUTES_IN_DAY": 1440, "mode": mode,
        }
        diffs = ["%s=%r (definition: %r)" % (k, got[k], exp[k])
                 for k in exp if got[k] != exp[k]]
        rep.check(not diffs, rule,
                  ctx.mkey("data", "Calendar.set_mode:mode=" + mode),
                  sm.loc(),
                  "set_mode(%r) folds to the documented month lengths, year "
                  "lengths and derived constants" % mode,
                  "set_mode(%r) yields %s" % (mode, "; ".join(diffs)),
                  props + ("C11",))
    # every *_LEAP attribute set_mode derives is derived from leap sources
    # (an attribute built from its common-year sibling is a wrong table the
    # moment anything reads it)
    rule_l = "R07.leap-derivation"
    reads = {}
    for fn_ in ctx.model.all_functions():
        if fn_ is sm:
            continue
        for n in walk_no_nested(fn_.node):
            if isinstance(n, ast.Attribute) and isinstance(
                    n.ctx, ast.Load) and n.attr.endswith("_LEAP"):
                reads.setdefault(n.attr, []).append(fn_.qual)
    for n in walk_no_nested(sm.node):
        if isinstance(n, ast.Assign) and len(n.targets) == 1 and isinstance(
                n.targets[0], ast.Attribute) and \
                n.targets[0].attr.endswith("_LEAP"):
            attr = n.targets[0].attr
            srcs = {x.attr if isinstance(x, ast.Attribute) else x.id
                    for x in ast.walk(n.value)
                    if isinstance(x, (ast.Attribute, ast.Name))}
            leapish = any("leap" in x.lower() for x in srcs)
            if leapish:
                rep.ok(rule_l, ctx.fkey(sm, None, "derived:" + attr),
                       sm.loc(n), "%s is derived from leap-year sources" %
                       attr, props)
            elif attr in reads:
                rep.violation(
                    rule_l, ctx.fkey(sm, None, "derived:" + attr), sm.loc(n),
                    "set_mode builds %s from %s - no leap-year source - and "
                    "%s reads it: leap years are given the common-year "
                    "table there" % (attr, sorted(srcs - {sm.self_name}),
                                     sorted(set(reads[attr]))[:3]), props)
                # ... reported at each reader too, so that every operation
                # that reaches the reader is told
                for q in sorted(set(reads[attr])):
                    g = ctx.model.functions.get(q)
                    if g is None:
                        continue
                    rep.violation(
                        rule_l, ctx.fkey(g, None, "reads-derived:" + attr),
                        g.loc(),
                        "%s reads %s, which set_mode builds from %s - no "
                        "leap-year source: leap years are given the "
                        "common-year table" % (
                            q, attr, sorted(srcs - {sm.self_name})), props)
            else:
                rep.note(rule_l, "set_mode builds %s from %s (no leap-year "
                         "source); nothing reads the attribute, so no "
                         "behaviour depends on it today" % (
                             attr, sorted(srcs - {sm.self_name})), props)
    # leap rule -------------------------------------------------------------
    rule2 = "R07.leap-rule"
    rep.need_anchor(rule2, "get_is_leap_year")
    table = ctx.folder.need_class_const(cal, "LEAP_YEAR_FACTOR_TRUTHS")
    rep.tables.add("Calendar.LEAP_YEAR_FACTOR_TRUTHS")
    tsite = cal.module.loc(cal.attr_nodes["LEAP_YEAR_FACTOR_TRUTHS"])
    rep.check([tuple(x) for x in table] == [(4, True), (100, False),
                                            (400, True)], rule2,
              ctx.mkey("data", "Calendar.LEAP_YEAR_FACTOR_TRUTHS"), tsite,
              "leap table is [(4, True), (100, False), (400, True)] in "
              "ascending-divisor order",
              "leap table is %r; the Gregorian rule needs [(4, True), (100, "
              "False), (400, True)] applied in this order" % (table,), props)
    f = ctx.func("data.get_is_leap_year")
    rep.anchor(rule2, "get_is_leap_year")
    ok, why = _leap_fold_shape(f)
    if not ok and "not recognised" in why:
        rep.undecided(rule2, ctx.fkey(f, None, "fold-shape"), f.loc(),
                      "get_is_leap_year is not written as the loop over the "
                      "leap table this rule reads (%s): the order in which "
                      "table entries override each other is not decided "
                      "here" % why, props)
        ok = None
    if ok is not None:
      rep.check(ok, rule2, ctx.fkey(f, None, "fold-shape"), f.loc(),
              "get_is_leap_year folds the table with later entries "
              "overriding earlier ones (result starts False, `year % factor "
              "== 0` selects, no early exit)", why, props)
    # radices and references --------------------------------------------------
    rule3 = "R07.constants"
    rep.need_anchor(rule3, "class constants")
    for name, want in (("SECONDS_IN_MINUTE", 60), ("MINUTES_IN_HOUR", 60),
                       ("HOURS_IN_DAY", 24), ("DAYS_IN_WEEK", 7),
                       ("ROUGH_DAYS_IN_MONTH", 30)):
        v = ctx.folder.need_class_const(cal, name)
        rep.anchor(rule3, "class constants")
        rep.check(v == want, rule3, ctx.mkey("data", "Calendar." + name),
                  cal.module.loc(cal.attr_nodes[name]),
                  "%s == %d" % (name, want),
                  "%s is %r, the definition says %d" % (name, v, want),
                  props + ("C11", "C01"), nontrivial=False)
    ref = ctx.folder.need_class_const(cal, "WEEK_DAY_START_REFERENCE")
    c, o = tuple(ref.get("calendar", ())), tuple(ref.get("ordinal", ()))
    okref = (len(c) == 3 and len(o) == 2 and c[0] == o[0] and c[1] == 1 and
             c[2] == o[1] and
             datetime.date(c[0], c[1], c[2]).isoweekday() == 1 and
             1 <= c[2] <= 7)
    rep.check(okref, rule3,
              ctx.mkey("data", "Calendar.WEEK_DAY_START_REFERENCE"),
              cal.module.loc(cal.attr_nodes["WEEK_DAY_START_REFERENCE"]),
              "calendar and ordinal week references denote the same day, a "
              "Monday in January that starts an ISO week year",
              "week references %r / %r do not denote one January Monday of "
              "the proleptic Gregorian calendar" % (c, o),
              props + ("C03",))
    ep = ctx.folder.need_class_const(
        cal, "UNIX_EPOCH_DATE_TIME_REFERENCE_PROPERTIES")
    rep.check(ep == {"year": 1970, "time_zone_hour": 0,
                     "time_zone_minute": 0}, rule3,
              ctx.mkey("data",
                       "Calendar.UNIX_EPOCH_DATE_TIME_REFERENCE_PROPERTIES"),
              cal.module.loc(cal.attr_nodes[
                  "UNIX_EPOCH_DATE_TIME_REFERENCE_PROPERTIES"]),
              "epoch reference is 1970 (month/day/time default to "
              "01-01T00:00:00) at +00:00",
              "epoch reference properties are %r, expected year 1970 at "
              "zone (0, 0) and nothing else" % (ep,), props + ("C18",),
              nontrivial=False)


def _leap_fold_shape(f):
    """for (factor, flag) in <table>: if year % factor == 0: r = flag"""
    if len(f.params) != 1:
        return False, "get_is_leap_year should take exactly the year"
    year = f.params[0]
    loops = [n for n in walk_no_nested(f.node) if isinstance(n, ast.For)]
    if len(loops) != 1:
        return False, ("get_is_leap_year is not a single loop over the leap "
                       "table (shape not recognised)")
    loop = loops[0]
    if "LEAP_YEAR_FACTOR_TRUTHS" not in U(loop.iter) or U(loop.iter).startswith(
            "reversed"):
        return False, "loop does not iterate LEAP_YEAR_FACTOR_TRUTHS in order"
    if not (isinstance(loop.target, ast.Tuple) and len(loop.target.elts) == 2
            and all(isinstance(x, ast.Name) for x in loop.target.elts)):
        return False, "loop target is not (factor, flag)"
    fac, flag = [x.id for x in loop.target.elts]
    if any(isinstance(n, (ast.Break, ast.Return)) for st in loop.body
           for n in ast.walk(st)):
        return False, ("the loop exits early: a later table entry no longer "
                       "overrides an earlier one")
    ifs = [st for st in loop.body if isinstance(st, ast.If)]
    if len(ifs) != 1 or len(loop.body) != 1 or ifs[0].orelse:
        return False, "loop body is not a single `if year % factor == 0`"
    t = ifs[0].test
    good_test = False
    if isinstance(t, ast.Compare) and len(t.ops) == 1 and isinstance(
            t.ops[0], ast.Eq) and isinstance(t.left, ast.BinOp) and \
            isinstance(t.left.op, ast.Mod) and U(t.left.left) == year and \
            U(t.left.right) == fac and U(t.comparators[0]) == "0":
        good_test = True
    if isinstance(t, ast.UnaryOp) and isinstance(t.op, ast.Not) and \
            isinstance(t.operand, ast.BinOp) and isinstance(
                t.operand.op, ast.Mod) and U(t.operand.left) == year and \
            U(t.operand.right) == fac:
        good_test = True
    if not good_test:
        return False, ("the selection test is %s, expected `%s %% %s == 0`"
                       % (U(t), year, fac))
    body = ifs[0].body
    if not (len(body) == 1 and isinstance(body[0], ast.Assign) and
            isinstance(body[0].targets[0], ast.Name) and
            U(body[0].value) == flag):
        return False, "selected branch does not assign the table's flag"
    rname = body[0].targets[0].id
    inits = [st for st in f.node.body if isinstance(st, ast.Assign) and
             isinstance(st.targets[0], ast.Name) and
             st.targets[0].id == rname and st is not body[0]]
    if not inits or U(inits[0].value) != "False":
        return False, "result does not start as False"
    rets = [n for n in walk_no_nested(f.node) if isinstance(n, ast.Return)]
    if len(rets) != 1 or U(rets[0].value) != rname:
        return False, "the folded flag is not what is returned"
    return True, ""


RULES = {"R04": r04_cache_key, "R05": r05_mode_writer, "R06": r06_mode_func,
         "R07": r07_mode_table}
