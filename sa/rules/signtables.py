"""R26 SIGN-PROP, R27 DUR-TABLE, R28 REC-TABLE, R29 STRF-TABLE (C06, C07, C08,
C10, C14, C17, C18)."""
import ast
import copy
import re

from ..fold import NotConst, Regex
from ..flow import block_of
from ..model import npos, AnalysisError, U, walk_no_nested, parent, clone
from ..tables import sre_parse, sre_c, shape_of
from .tablerules import tables_of, PLACEHOLDER


# ------------------------------------------------------------------- R26
def _hm_roles(fnode):
    """Locals of a function that hold the (hours, minutes) pair of a zone
    offset, or one of its components: {name: "pair" | "h" | "m"} - read off
    the bindings (`x = get_local_time_zone()`, `a, b = x`)."""
    roles = {}
    if fnode is None:
        return roles
    for _ in range(3):
        for n in walk_no_nested(fnode):
            if not (isinstance(n, ast.Assign) and len(n.targets) == 1):
                continue
            t, v = n.targets[0], n.value
            is_pair = (isinstance(v, ast.Call) and "time_zone" in U(
                v.func) and not v.args) or (
                    isinstance(v, ast.Name) and roles.get(v.id) == "pair")
            if not is_pair:
                continue
            if isinstance(t, ast.Name):
                roles[t.id] = "pair"
            elif isinstance(t, ast.Tuple) and len(t.elts) == 2 and all(
                    isinstance(x, ast.Name) for x in t.elts):
                roles[t.elts[0].id] = "h"
                roles[t.elts[1].id] = "m"
    return roles


def _subst_hm(test, h, m, fnode=None):
    """Replace hour-ish / minute-ish operands of a condition by constants."""
    roles = _hm_roles(fnode)

    class Sub(ast.NodeTransformer):
        def _name(self, node):
            if isinstance(node, ast.Name) and node.id in roles:
                r = roles[node.id]
                if r == "pair":
                    return ast.copy_location(ast.Tuple(
                        elts=[ast.Constant(value=h), ast.Constant(value=m)],
                        ctx=ast.Load()), node)
                return ast.copy_location(ast.Constant(
                    value=h if r == "h" else m), node)
            txt = U(node).lower()
            last = txt.split(".")[-1]
            if "minute" in last:
                return ast.copy_location(ast.Constant(value=m), node)
            if "hour" in last:
                return ast.copy_location(ast.Constant(value=h), node)
            return None

        def visit_Attribute(self, node):
            r = self._name(node)
            return r if r is not None else self.generic_visit(node)

        def visit_Name(self, node):
            r = self._name(node)
            return r if r is not None else node
    return ast.fix_missing_locations(Sub().visit(clone(test)))


VALID_HM = [(-1, -30), (-1, 0), (0, -30), (0, 0), (0, 30), (1, 0), (1, 30)]


def _sign_selectors(f):
    """(node, test, true_is_minus) for conditionals that choose between a
    '-' and a '+' string in f."""
    out = []

    def lits(nodes):
        s = set()
        for st in nodes:
            for n in ast.walk(st):
                if isinstance(n, ast.Constant) and isinstance(n.value, str) \
                        and n.value[:1] in "+-" and len(n.value) >= 1:
                    s.add(n.value[0])
        return s
    for n in walk_no_nested(f.node):
        if isinstance(n, ast.IfExp):
            a, b = lits([n.body]), lits([n.orelse])
        elif isinstance(n, ast.If):
            a = lits(n.body)
            if n.orelse:
                b = lits(n.orelse)
            else:
                # fall-through / override idiom
                p = parent(n)
                b = set()
                for field in ("body", "orelse"):
                    seq = getattr(p, field, None)
                    if isinstance(seq, list) and any(s is n for s in seq):
                        i = [k for k, s in enumerate(seq) if s is n][0]
                        if n.body and isinstance(n.body[-1], ast.Return):
                            b = lits(seq[i + 1:])
                        else:
                            b = lits(seq[max(0, i - 1):i])
        else:
            continue
        if a == {"-"} and b == {"+"}:
            out.append((n, n.test, True))
        elif a == {"+"} and b == {"-"}:
            out.append((n, n.test, False))
    return out


def _sign_of(e, signs):
    """-1 / 1 / 0 / None (unknown) for an arithmetic expression, given the
    signs of some names."""
    if isinstance(e, ast.Constant) and isinstance(e.value, (int, float)) \
            and not isinstance(e.value, bool):
        return (e.value > 0) - (e.value < 0)
    if isinstance(e, ast.Name):
        return signs.get(e.id)
    if U(e) in signs:
        return signs[U(e)]      # a whole sub-expression whose sign was tested
    if isinstance(e, ast.UnaryOp) and isinstance(e.op, ast.USub):
        v = _sign_of(e.operand, signs)
        return None if v is None else -v
    if isinstance(e, ast.UnaryOp) and isinstance(e.op, ast.UAdd):
        return _sign_of(e.operand, signs)
    if isinstance(e, ast.Call) and U(e.func) == "abs" and e.args:
        return 1
    if isinstance(e, ast.BinOp) and isinstance(
            e.op, (ast.Mult, ast.FloorDiv, ast.Div)):
        a, b = _sign_of(e.left, signs), _sign_of(e.right, signs)
        if a is None or b is None:
            return None
        return a * b
    if isinstance(e, ast.BinOp) and isinstance(e.op, ast.Mod):
        return _sign_of(e.right, signs)
    return None


def _sign_safe(e, signs):
    """No floor division of operands with opposite (or unknown) signs: the
    quotient is then the truncated one, which is what a sign-magnitude
    offset needs."""
    for n in ast.walk(e):
        if isinstance(n, ast.BinOp) and isinstance(n.op, ast.FloorDiv):
            a, b = _sign_of(n.left, signs), _sign_of(n.right, signs)
            if a is None or b is None or a * b < 0:
                return False
    return True


def year_assembly(ctx):
    """How _create_timepoint_from_info assembles the year it stores: the
    decision table of the block that stores date_info["year"].
    -> (function, [(path, stored value expression)], complete?) - complete
    is False when a path skipped a loop or nothing was found."""
    from ..dtable import explore
    f = ctx.func("parsers.TimePointParser._create_timepoint_from_info")
    block = None
    for n in walk_no_nested(f.node):
        if isinstance(n, ast.Assign) and isinstance(
                n.targets[0], ast.Subscript) and isinstance(
                    n.targets[0].slice, ast.Constant) and \
                n.targets[0].slice.value == "year" and not isinstance(
                    n.value, ast.Constant):
            cur = n
            while parent(cur) is not None and parent(cur) is not f.node:
                cur = parent(cur)
            block = cur
    if block is None:
        return f, [], False
    stmts = block.body if isinstance(block, ast.If) else [block]
    try:
        paths = explore(stmts, max_paths=2000)
    except AnalysisError:
        return f, [], False
    out = []
    complete = True
    for p in paths:
        v = None
        for k, x in p.env.items():
            if k.startswith("@") and k.endswith("['year']"):
                v = x
        if v is None:
            continue
        if p.skipped:
            complete = False
        out.append((p, v))
    return f, out, complete and bool(out)


def _sum_terms(e):
    if isinstance(e, ast.BinOp) and isinstance(e.op, ast.Add):
        return _sum_terms(e.left) + _sum_terms(e.right)
    return [e]


def r26_sign_prop(ctx):
    rep = ctx.rep
    T = tables_of(ctx)
    # (a) renderers of a zone sign read both components -----------------------
    rule = "R26.sign-render"
    rep.need_anchor(rule, "sign renderers")
    cands = []
    for q in ("data.TimePoint.time_zone_sign", "data.TimeZone.__str__",
              "timezone.get_local_time_zone_format"):
        f = ctx.try_func(q)
        if f is None:
            rep.error("R26", "sign renderer %s not found" % q)
            continue
        cands.append(f)
    for f in cands:
        sels = _sign_selectors(f)
        if not sels:
            rep.error("R26", "%s: no '-'/'+' selection found" % f.qual)
            continue
        from ..flow import path_conds as _pcsr
        reached = set()
        for node, test, true_is_minus in sels:
            rep.anchor(rule, "sign renderers")
            bad = []
            for h, m in VALID_HM:
                if h == 0 and m == 0:
                    continue
                # a selector that sits in a branch (`if hours == 0: ... else:
                # sign by the hours`) speaks for the values that reach it
                reaches = True
                for t_, pol_ in _pcsr(node):
                    try:
                        v_ = bool(ctx.folder.fold(
                            _subst_hm(t_, h, m, f.node), f.module, f.cls,
                            {}))
                    except NotConst:
                        continue
                    if v_ != pol_:
                        reaches = False
                        break
                if not reaches:
                    continue
                reached.add((h, m))
                try:
                    v = bool(ctx.folder.fold(_subst_hm(test, h, m, f.node),
                                             f.module, f.cls, {}))
                except NotConst as exc:
                    rep.error("R26", "%s: sign test %s not evaluable: %s" % (
                        f.loc(node), U(test), exc))
                    bad = None
                    break
                minus = v if true_is_minus else not v
                if minus != (h < 0 or m < 0):
                    bad.append((h, m))
            if bad is None:
                continue
            props = ("C06", "C08") if f.module.name == "data" else ("C18",)
            if f.qual.endswith("time_zone_sign"):
                props = ("C06", "C08", "C17")
            rep.check(not bad, rule, ctx.fkey(f, None, "both-components"),
                      f.loc(node),
                      "'-' is printed exactly when the hour or the minute "
                      "component is negative (evaluated over the 6 sign "
                      "combinations)",
                      "%s prints the wrong sign for (hours, minutes) sign "
                      "combinations %s under the test `%s` (e.g. -00:30 "
                      "needs the minute component)" % (f.qual, bad, U(test)),
                      props)
        unreached = [hm for hm in VALID_HM
                     if hm != (0, 0) and hm not in reached]
        if unreached:
            rep.undecided(rule, ctx.fkey(f, None, "all-combinations"),
                          f.loc(), "%s: no '-'/'+' selection is reached for "
                          "the (hours, minutes) sign combinations %s" % (
                              f.qual, unreached),
                          ("C06", "C08"))
    # ... and the sign of the year: '-' exactly for a negative year (year 0
    # is written +000000)
    for q in ("data.TimePoint.year_sign",):
        f = ctx.try_func(q)
        if f is None:
            continue
        sels = _sign_selectors(f)
        key_ = ctx.fkey(f, None, "year-sign")
        if not sels:
            rep.undecided(rule, key_, f.loc(), "%s: no '-'/'+' selection "
                          "found" % f.qual, ("C07", "C08"))
            continue
        for node, test, true_is_minus in sels:
            rep.anchor(rule, "sign renderers")
            bad = []
            for y in (-2000, -1, 0, 1, 2000):
                class _Y(ast.NodeTransformer):
                    def visit_Attribute(self, n_):
                        if n_.attr in ("_year", "year"):
                            return ast.copy_location(
                                ast.Constant(value=y), n_)
                        return self.generic_visit(n_)
                try:
                    v = bool(ctx.folder.fold(ast.fix_missing_locations(
                        _Y().visit(clone(test))), f.module, f.cls, {}))
                except NotConst:
                    bad = None
                    break
                minus = v if true_is_minus else not v
                if minus != (y < 0):
                    bad.append(y)
            if bad is None:
                rep.undecided(rule, key_, f.loc(node),
                              "the year-sign test `%s` is not evaluable" %
                              U(test)[:50], ("C07", "C08"))
                continue
            rep.check(not bad, rule, key_, f.loc(node),
                      "'-' is written exactly for a negative year "
                      "(evaluated for -2000, -1, 0, 1, 2000)",
                      "%s writes the wrong sign for the year(s) %s under the "
                      "test `%s` (year 0 is +000000)" % (f.qual, bad,
                                                         U(test)),
                      ("C07", "C08"))
    # ... and the default dump format: without expanded digits only a
    # negative year cannot be written (year 0 is 0000); with them the sign
    # is '-' exactly for a negative year
    gf = ctx.try_func("data.TimePoint._get_dump_format")
    if gf is not None:
        from ..flow import path_conds as _pcy

        def _eval_year(test, y):
            class _Y(ast.NodeTransformer):
                def visit_Attribute(self, n_):
                    if n_.attr in ("_year", "year"):
                        return ast.copy_location(ast.Constant(value=y), n_)
                    return self.generic_visit(n_)
            return bool(ctx.folder.fold(ast.fix_missing_locations(
                _Y().visit(clone(test))), gf.module, gf.cls, {}))
        for r_ in walk_no_nested(gf.node):
            if not (isinstance(r_, ast.Raise) and r_.exc is not None and
                    "OverflowError" in U(r_.exc)):
                continue
            rep.anchor(rule, "sign renderers")
            key_ = ctx.fkey(gf, None, "year-refusal")
            bad, unknown = [], False
            for y in (-1, 0, 1, 9999):
                fires = True
                for t, pol in _pcy(r_):
                    parts = t.values if isinstance(
                        t, ast.BoolOp) and isinstance(t.op, ast.And) and \
                        pol else [t]
                    for c in parts:
                        if not any(isinstance(x, ast.Attribute) and
                                   x.attr in ("_year", "year")
                                   for x in ast.walk(c)):
                            continue        # configuration / presence
                        if isinstance(c, ast.Compare) and isinstance(
                                c.ops[0], (ast.Is, ast.IsNot)):
                            continue
                        try:
                            v = _eval_year(c, y)
                        except NotConst:
                            unknown = True
                            continue
                        if isinstance(t, ast.BoolOp) and not pol:
                            unknown = True
                            continue
                        if v != pol:
                            fires = False
                if fires != (y < 0):
                    bad.append(y)
            if unknown:
                rep.undecided(rule, key_, gf.loc(r_), "the refusal of a "
                              "year by the default dump format is not "
                              "evaluable", ("C08",))
            else:
                rep.check(not bad, rule, key_, gf.loc(r_),
                          "without expanded digits exactly the negative "
                          "years are refused (evaluated for -1, 0, 1, 9999)",
                          "TimePoint._get_dump_format refuses / accepts the "
                          "wrong years %s: without expanded year digits "
                          "exactly the negative years cannot be written "
                          "(0000 can)" % bad, ("C08", "C07"))
    # (b) parsing: both zone components negated under '-' ----------------------
    rule = "R26.sign-parse"
    f = ctx.func("parsers.TimePointParser.process_time_zone_info")
    zone_groups = set()
    for row in T.zone_info():
        try:
            _, gs = shape_of(row[1])
        except (ValueError, re.error):
            gs = re.findall(r"\(\?P<(\w+)>", row[1])
        zone_groups |= set(gs)
    numeric = sorted(g for g in zone_groups
                     if g not in ("time_zone_sign", "time_zone_utc"))
    neg_if = None
    for n in walk_no_nested(f.node):
        if isinstance(n, ast.If) and "time_zone_sign" in U(n.test) and \
                "'-'" in U(n.test):
            neg_if = n
    if neg_if is None:
        rep.error("R26", "process_time_zone_info: sign branch not found")
    else:
        negated = set()
        for n in ast.walk(neg_if):
            if isinstance(n, ast.Assign) and isinstance(
                    n.targets[0], ast.Subscript) and isinstance(
                        n.targets[0].slice, ast.Constant):
                k = n.targets[0].slice.value
                v = n.value
                if isinstance(v, ast.UnaryOp) and isinstance(v.op, ast.USub) \
                        and repr(k) in U(v.operand):
                    negated.add(k)
                elif isinstance(v, ast.BinOp) and isinstance(
                        v.op, ast.Mult) and "-1" in U(v) and repr(k) in U(v):
                    negated.add(k)
        rep.check(set(numeric) <= negated, rule,
                  ctx.fkey(f, None, "negates-all"), f.loc(neg_if),
                  "under '-' every numeric zone key %s is negated" % numeric,
                  "under a '-' zone sign only %s of %s is negated: -hh:mm "
                  "decodes with a positive %s" % (
                      sorted(negated), numeric,
                      sorted(set(numeric) - negated)), ("C07", "C06"))
    # (c) year sign applied once, last ----------------------------------------
    rule = "R26.year-sign"
    f, stored, complete = year_assembly(ctx)
    key_ = ctx.fkey(f, None, "negate-last")
    if not complete:
        rep.undecided(rule, key_, f.loc(),
                      "the assembly of the stored year is not tabulated "
                      "(not found as an item store, or behind a loop)",
                      ("C07",))
    else:
        def sign_atom(a):
            return "year_sign" in a and "'-'" in a
        groups = {}
        problems = []
        for p_, v in stored:
            sa_ = [(a, val) for a, val in p_.decisions.items()
                   if sign_atom(a)]
            rest = frozenset((a, val) for a, val in p_.decisions.items()
                             if not sign_atom(a))
            if len(sa_) != 1:
                problems.append("the sign is %s on a path" % (
                    "not tested" if not sa_ else "tested twice"))
                continue
            groups.setdefault(rest, {})[sa_[0][1]] = v
        for rest, pair in groups.items():
            if set(pair) != {True, False}:
                continue
            pos, neg = U(pair[False]), pair[True]
            whole = False
            if isinstance(neg, ast.UnaryOp) and isinstance(
                    neg.op, ast.USub) and U(neg.operand) == pos:
                whole = True
            elif isinstance(neg, ast.BinOp) and isinstance(
                    neg.op, ast.Mult) and (
                        (U(neg.left) == pos and U(neg.right) in (
                            "-1", "(-1)")) or
                        (U(neg.right) == pos and U(neg.left) in (
                            "-1", "(-1)"))):
                whole = True
            if not whole:
                problems.append("under '-' the stored year is %s, not the "
                                "negation of the whole sum %s" % (
                                    U(neg)[:80], pos[:80]))
            parts = " ".join(U(t) for t in _sum_terms(pair[False]))
            for need in ("'year_of_century'", "'century'",
                         "'expanded_year'"):
                if need not in parts:
                    problems.append("the part %s is not in the sum" % need)
        if not groups and not problems:
            problems.append("no stored year found")
        rep.check(not problems, rule, key_, f.loc(),
                  "the stored year is the sum of all its parts, negated as a "
                  "whole exactly under a '-' sign (%d paths)" % len(stored),
                  "year assembly: %s - the sign must be applied exactly "
                  "once, to the whole sum, directly before the store" %
                  "; ".join(sorted(set(problems))[:3]), ("C07",))
    # (d) local offset: both components depend on the sign ---------------------
    rule = "R26.local-offset"
    f = ctx.func("timezone.get_local_time_zone")
    rets = [n for n in walk_no_nested(f.node) if isinstance(n, ast.Return)]
    okd = False
    why = "return shape not recognised"
    from ..flow import sign_variables as _svars
    pairs_by_path = None
    if len(rets) == 1 and isinstance(rets[0].value, ast.Tuple) and len(
            rets[0].value.elts) == 2 and not _svars(f.node):
        # no sign factor: the components are assigned under tests of the
        # offset's sign.  Path by path (decision table): each pair is
        # computed where the sign of what it divides is known
        from ..dtable import explore as _explore_lo
        from ..flow import zero_relation as _zr
        try:
            pairs_by_path = []
            for p_ in _explore_lo(f.node.body):
                if p_.outcome != "return" or not (
                        isinstance(p_.value, ast.Tuple) and
                        len(p_.value.elts) == 2):
                    continue
                rels = set()
                for atom, val in p_.decisions.items():
                    try:
                        a_ = ast.parse(atom, mode="eval").body
                    except SyntaxError:
                        continue
                    r_ = _zr(a_, bool(val))
                    if r_ is not None:
                        rels.add(r_)
                pairs_by_path.append((p_.value, rels))
        except AnalysisError:
            pairs_by_path = None
    if pairs_by_path:
        covered, notes = [], []
        for value, rels in pairs_by_path:
            used = {U(x) for x in ast.walk(value)
                    if isinstance(x, ast.expr)}
            signs = {}
            for sj, rel in rels:
                if sj in used:
                    signs[sj] = -1 if rel in ("<", "<=") else 1
            hours, minutes = value.elts
            if not signs:
                covered.append(False)
                notes.append("a pair is returned where the sign of the "
                             "offset is not known")
                continue
            ok_h = _sign_safe(hours, signs)
            ok_m = False
            if isinstance(minutes, ast.BinOp) and isinstance(
                    minutes.op, ast.Mod):
                ok_m = _sign_of(minutes.right, signs) == \
                    list(signs.values())[0]
            elif isinstance(minutes, ast.UnaryOp) and isinstance(
                    minutes.op, ast.USub):
                ok_m = _sign_safe(minutes.operand, signs)
            covered.append(bool(ok_h and ok_m))
            if not ok_h:
                notes.append("hours `%s` floors a quotient of operands of "
                             "opposite sign" % U(hours)[:60])
            if not ok_m:
                notes.append("minutes `%s` is not a remainder whose modulus "
                             "has the sign of the offset" % U(minutes)[:60])
        okd = bool(covered) and all(covered)
        why = "; ".join(notes) or "each pair is computed under a known sign"
    elif len(rets) == 1 and isinstance(rets[0].value, ast.Tuple) and len(
            rets[0].value.elts) == 2:
        deps = []
        from ..flow import sign_variables
        sv = sign_variables(f.node)
        sname = sorted(sv)[0] if sv else "sign"
        for e in rets[0].value.elts:
            deps.append(_depends_on(f, e, sname))
        sign_ok = bool(sv) and sv[sname][1] is True
        okd = all(deps) and sign_ok
        why = "hours depends on sign: %s, minutes depends on sign: %s" % (
            deps[0], deps[1])
    elif len(rets) > 1 and all(isinstance(r.value, ast.Tuple) and len(
            r.value.elts) == 2 for r in rets):
        # one return per sign of the offset: every pair is computed where
        # the sign of the quantity it divides is known
        from ..flow import path_conds as _pcs, zero_relations
        covered = []
        notes = []
        for r in rets:
            rels = zero_relations(_pcs(r))
            used = {x.id for x in ast.walk(r.value)
                    if isinstance(x, ast.Name)}
            signs = {}
            for sj, rel in rels:
                if sj in used:
                    signs[sj] = -1 if rel in ("<", "<=") else 1
            if not signs:
                covered.append(False)
                notes.append("a pair is returned where the sign of the "
                             "offset is not known")
                continue
            hours, minutes = r.value.elts
            ok_h = _sign_safe(hours, signs)
            ok_m = False
            if isinstance(minutes, ast.BinOp) and isinstance(
                    minutes.op, ast.Mod):
                ok_m = _sign_of(minutes.right, signs) == \
                    list(signs.values())[0]
            elif isinstance(minutes, ast.UnaryOp) and isinstance(
                    minutes.op, ast.USub):
                ok_m = _sign_safe(minutes.operand, signs)
            covered.append(bool(ok_h and ok_m))
            if not ok_h:
                notes.append("hours `%s` floors a quotient of operands of "
                             "opposite sign" % U(hours))
            if not ok_m:
                notes.append("minutes `%s` is not a remainder whose modulus "
                             "has the sign of the offset" % U(minutes))
        okd = all(covered)
        why = "; ".join(notes) or "each pair is computed under a known sign"
    rep.check(okd, rule, ctx.fkey(f, None, "both-signed"), f.loc(),
              "both returned components are computed through the sign of "
              "the offset (floor division of a negative offset cannot leak "
              "into either)",
              "get_local_time_zone: %s; a component computed by plain floor "
              "division of a negative offset is off by one hour/minute" %
              why, ("C18",))
    # (e) duration sign factor on every unit -----------------------------------
    rule = "R26.duration-sign"
    f = ctx.func("parsers.DurationParser.parse")
    oke = False
    from ..flow import sign_by_prefix
    for n in walk_no_nested(f.node):
        if isinstance(n, ast.For) and "items()" in U(n.iter) and \
                isinstance(n.target, ast.Tuple) and len(n.target.elts) == 2:
            # path by path through the loop body: whatever is stored under
            # the key is a product with the sign factor; nothing is stored
            # only for a group that took no part in the match
            from ..dtable import explore as _explore
            kname, vname = U(n.target.elts[0]), U(n.target.elts[1])
            try:
                paths_ = _explore(n.body)
            except AnalysisError:
                paths_ = []
            good, n_st = bool(paths_), 0
            for p_ in paths_:
                st_ = [v for k, v in p_.env.items()
                       if k.startswith("@") and k.endswith("[%s]" % kname)]
                if not st_:
                    if p_.decisions.get("%s is None" % vname) is not True:
                        good = False
                    continue
                n_st += 1
                for v in st_:
                    if not (isinstance(v, ast.BinOp) and isinstance(
                            v.op, ast.Mult)):
                        good = False
                        continue
                    if sign_by_prefix(f.node, v.left) or sign_by_prefix(
                            f.node, v.right):
                        continue
                    # the factor was a conditional expression the path has
                    # decided: -1 exactly where the '-' prefix test held
                    from ..flow import prefix_test as _pt
                    consts = [x for x in (v.left, v.right) if U(x).replace(
                        "(", "").replace(")", "") in ("-1", "1", "+1")]
                    held = None
                    for atom, val in p_.decisions.items():
                        try:
                            a_ = ast.parse(atom, mode="eval").body
                        except SyntaxError:
                            continue
                        if _pt(f.node, a_, "-"):
                            held = val
                    if not consts or held is None or (
                            U(consts[0]).replace("(", "").replace(
                                ")", "") == "-1") != held:
                        good = False
            oke = good and n_st > 0
        elif isinstance(n, ast.DictComp) and any(
                "items()" in U(g.iter) for g in n.generators):
            # {unit: <value> for unit, text in groups.items() ...}: every
            # alternative of the value carries the sign factor
            arms = [n.value]
            leaves = []
            while arms:
                a = arms.pop()
                if isinstance(a, ast.IfExp):
                    arms += [a.body, a.orelse]
                else:
                    leaves.append(a)
            oke = bool(leaves) and all(
                isinstance(a, ast.BinOp) and isinstance(a.op, ast.Mult) and (
                    sign_by_prefix(f.node, a.left) or
                    sign_by_prefix(f.node, a.right)) for a in leaves)
    # a match becomes a Duration: inside the loop over the regexes, once a
    # regex matched, the only group that may be left out is one that did not
    # take part in the match (None), and nothing but a failed match skips the
    # construction
    from ..flow import path_conds
    skipped = []
    for n in walk_no_nested(f.node):
        if isinstance(n, ast.For) and "DURATION_REGEXES" in U(n.iter):
            matchvar = None
            for st in n.body:
                if isinstance(st, ast.Assign) and isinstance(
                        st.value, ast.Call) and U(st.value.func).endswith(
                            (".search", ".match")):
                    matchvar = U(st.targets[0])
            for x in ast.walk(n):
                # (an explicit refusal after the match is a skipped match
                # just the same)
                if not isinstance(x, (ast.Continue, ast.Raise)):
                    continue
                ok_ = False
                for t, pol in path_conds(x, stop=n):
                    tt = U(t)
                    if (pol and tt == "not %s" % matchvar) or (
                            not pol and tt == matchvar):
                        ok_ = True      # no match: try the next regex
                    if isinstance(x, ast.Continue) and pol and \
                            re.fullmatch(r"\w+ is None", tt):
                        ok_ = True      # group absent from the match
                    if isinstance(x, ast.Continue) and not pol and \
                            re.fullmatch(r"\w+ is not None", tt):
                        ok_ = True
                if not ok_:
                    conds = " and ".join(("" if pol else "not ") + U(t)
                                         for t, pol in path_conds(x, stop=n))
                    skipped.append(conds[:80])
    # ... and the search ranges over the whole table for every expression:
    # what the loop iterates is DURATION_REGEXES on every path (a shorter
    # list chosen by looking at the text skips forms that text can have)
    from ..flow import expand_values as _ev26
    for n in walk_no_nested(f.node):
        if not isinstance(n, ast.For):
            continue
        leaves = [v for v, _c in _ev26(f.node, n.iter)]
        if not any("DURATION_REGEXES" in U(v) for v in leaves):
            continue
        part = [U(v)[:40] for v in leaves
                if not U(v).endswith("DURATION_REGEXES")]
        rep.check(not part, rule, ctx.fkey(f, None, "whole-table"),
                  f.loc(n), "the search tries every entry of "
                  "DURATION_REGEXES for every expression",
                  "DurationParser.parse iterates %s instead of the whole "
                  "DURATION_REGEXES table on some path: a designator form "
                  "the skipped entries would have matched (P1461D, P1000Y "
                  "- what str() writes for such a duration) is refused" %
                  part, ("C10",))
    rep.check(not skipped, rule, ctx.fkey(f, None, "match-becomes-duration"),
              f.loc(),
              "after a regex matched, only groups absent from the match are "
              "left out and the Duration is always constructed",
              "DurationParser.parse skips a captured component or a whole "
              "match under %s: a component that was written (a zero, say) "
              "is dropped, or a matching text is refused" % skipped,
              ("C10",))
    rep.check(oke, rule, ctx.fkey(f, None, "all-units"), f.loc(),
              "every captured unit is multiplied by the sign factor inside "
              "the loop over all groups",
              "DurationParser.parse does not apply the sign factor to every "
              "unit unconditionally", ("C10",))
    # (f) sign admission --------------------------------------------------------
    rule = "R26.sign-admission"
    rep.need_anchor(rule, "writer/reader rows")
    tp = ctx.model.cls("TimePoint")
    rows = []
    for n_ in (2,):
        rows += [(r[1], r[3]) for r in T.date_info(n_)]
    rows += [(r[1], r[3]) for r in T.time_info()]
    rows += [(r[1], r[3]) for r in T.zone_info()]
    strf = T.const("STRFTIME_TRANSLATE_INFO")
    for k, v in strf.items():
        if isinstance(v, tuple) and len(v) == 3:
            rows.append((v[0], v[2]))
    seen = set()
    for capture, prop in rows:
        if prop is None or (capture, prop) in seen:
            continue
        seen.add((capture, prop))
        rep.anchor(rule, "writer/reader rows")
        g = tp.methods.get(prop)
        dom = _sign_domain(ctx, tp, g) if g is not None else "unknown"
        admits = bool(re.search(r"\(\?P<\w+>(-\?|\[-\+\]|\[\+-\]|-)", capture))
        rep.check(not (dom == "signed" and not admits), rule,
                  ctx.mkey("parser_spec", "row:%s" % prop), "parser_spec.py",
                  "%s is %s; reader %s" % (
                      prop, dom, "admits a sign" if admits else
                      "reads digits only"),
                  "the writer prints property %s, which can be negative (%s), "
                  "but the capture regex %r of the same row admits no sign: "
                  "what strftime/dump writes cannot be read back" % (
                      prop, dom, capture), ("C17", "C08"))


def _r27_sign_flag(ctx, rep, rule, f, guard, P):
    """The flag that sends Duration.__str__ to '-' + str(abs(self)) is
    raised by a negative component and by nothing else, and a positive
    component lowers it for good (a mixed duration keeps its inner signs:
    abs() would change its value)."""
    from ..flow import path_conds
    key = ctx.fkey(f, None, "sign-flag")
    if not isinstance(guard, ast.Name):
        rep.undecided(rule, key, f.loc(), "the all-negative test `%s` is "
                      "not a flag set in a loop over the components: not "
                      "read here" % U(guard)[:60], P)
        return
    g = guard.id
    sets = [n for n in walk_no_nested(f.node) if isinstance(n, ast.Assign)
            and len(n.targets) == 1 and U(n.targets[0]) == g]
    loops = [l for l in walk_no_nested(f.node) if isinstance(l, ast.For)]

    def loop_of(n):
        for l in loops:
            if any(x is n for x in ast.walk(l)):
                return l
        return None
    inside = [n for n in sets if loop_of(n) is not None]
    outside = [n for n in sets if loop_of(n) is None]
    if not inside or len(outside) != 1 or U(outside[0].value) != "False" \
            or not all(U(n.value) in ("True", "False") for n in inside):
        rep.undecided(rule, key, f.loc(), "the flag `%s` is not of the "
                      "form `flag = False; for ...: flag = True/False`" % g,
                      P)
        return

    def sign_atoms(n):
        out = set()
        for t, pol in path_conds(n, stop=loop_of(n)):
            if isinstance(t, ast.UnaryOp) and isinstance(t.op, ast.Not):
                t, pol = t.operand, not pol
            if not (isinstance(t, ast.Compare) and len(t.ops) == 1):
                continue
            a, b, op = t.left, t.comparators[0], type(t.ops[0])
            if U(a) == "0":
                a, b = b, a
                op = {ast.Lt: ast.Gt, ast.Gt: ast.Lt, ast.LtE: ast.GtE,
                      ast.GtE: ast.LtE}.get(op, op)
            if U(b) != "0" or op not in (ast.Lt, ast.Gt, ast.LtE, ast.GtE):
                continue
            if not pol:
                op = {ast.Lt: ast.GtE, ast.Gt: ast.LtE, ast.LtE: ast.Gt,
                      ast.GtE: ast.Lt}[op]
            out.add(op)
        return out
    bad = []
    for n in inside:
        at = sign_atoms(n)
        if U(n.value) == "True":
            if ast.Lt not in at:
                bad.append("`%s = True` under %s, not under `component < "
                           "0`" % (g, " and ".join(
                               ("" if pol else "not ") + U(t) for t, pol in
                               path_conds(n, stop=loop_of(n)))[:80] or
                               "no condition"))
        else:
            owner, fld, lst = block_of(n)
            after = lst[lst.index(n) + 1:] if lst else []
            leaves_ = any(isinstance(x, (ast.Break, ast.Return))
                          for x in after)
            if ast.Gt not in at or not leaves_:
                bad.append("`%s = False` %s" % (g, "is not followed by a "
                           "break" if ast.Gt in at else "not under "
                           "`component > 0`"))
    rep.check(not bad, rule, key, f.loc(inside[0]),
              "the all-negative flag is raised by a negative component only "
              "and lowered for good by a positive one",
              "Duration.__str__: %s: a duration whose components are all "
              "negative is written with the signs inside (P-1Y-2M), which "
              "the parser does not read, or a mixed one loses its inner "
              "signs" % "; ".join(bad), P)


def _depends_on(f, expr, name, depth=0, seen=None):
    seen = seen or set()
    for n in ast.walk(expr):
        if isinstance(n, ast.Name):
            if n.id == name:
                return True
            if n.id not in seen and depth < 5:
                seen.add(n.id)
                for st in walk_no_nested(f.node):
                    if isinstance(st, ast.Assign) and any(
                            U(t) == n.id for t in st.targets):
                        if _depends_on(f, st.value, name, depth + 1, seen):
                            return True
    return False


def _ifs_between(node, stop):
    p = parent(node)
    while p is not None and p is not stop:
        if isinstance(p, ast.If):
            yield p
        p = parent(p)


def _sign_domain(ctx, tp, g):
    """nonneg | signed | str | unknown for a TimePoint property getter."""
    rets = [n.value for n in walk_no_nested(g.node)
            if isinstance(n, ast.Return) and n.value is not None]
    if not rets:
        return "unknown"
    doms = {_expr_sign(ctx, tp, g, r, 0) for r in rets}
    if "signed" in doms:
        return "signed"
    if doms <= {"nonneg", "str"}:
        return "nonneg"
    return "unknown"


BOUNDED_NONNEG = {"_month_of_year", "_day_of_year", "_day_of_month",
                  "_day_of_week", "_week_of_year", "_hour_of_day",
                  "_minute_of_hour", "_second_of_minute",
                  "_num_expanded_year_digits"}


def _expr_sign(ctx, tp, g, e, depth):
    if depth > 6:
        return "unknown"
    if isinstance(e, ast.Constant):
        if isinstance(e.value, str):
            return "str"
        if isinstance(e.value, (int, float)):
            return "nonneg" if e.value >= 0 else "signed"
        return "unknown"
    if isinstance(e, ast.Call):
        fn = U(e.func)
        if fn == "abs":
            return "nonneg"
        if fn in ("str", "int", "float") and e.args:
            return _expr_sign(ctx, tp, g, e.args[0], depth + 1)
        if fn.endswith("._decimal_string"):
            return "nonneg"
        if fn.endswith(("get_calendar_date", "get_ordinal_date",
                        "get_week_date", "get_hour_minute_second")):
            return "tuple"
        return "unknown"
    if isinstance(e, ast.Subscript):
        b = _expr_sign(ctx, tp, g, e.value, depth + 1)
        if b == "tuple" and isinstance(e.slice, ast.Constant):
            fn = U(e.value.func) if isinstance(e.value, ast.Call) else ""
            if fn.endswith("get_hour_minute_second"):
                return "nonneg"
            return "signed" if e.slice.value == 0 else "nonneg"
        return "unknown"
    if isinstance(e, ast.Attribute) and isinstance(e.value, ast.Name) and \
            e.value.id == g.self_name:
        if e.attr in BOUNDED_NONNEG:
            return "nonneg"
        if e.attr == "_year":
            return "signed"
        return "unknown"
    if isinstance(e, ast.Name):
        # local: follow its definitions
        doms = set()
        for st in walk_no_nested(g.node):
            if isinstance(st, ast.Assign):
                for t in st.targets:
                    if isinstance(t, ast.Name) and t.id == e.id:
                        doms.add(_expr_sign(ctx, tp, g, st.value, depth + 1))
                    elif isinstance(t, ast.Tuple) and any(
                            U(x) == e.id for x in t.elts):
                        # days, seconds = (a - b).get_days_and_seconds()
                        if "-" in U(st.value) and "TimePoint" in " ".join(
                                ctx.types_in(g, st.value.func.value.left)
                                if isinstance(st.value, ast.Call) and
                                isinstance(st.value.func, ast.Attribute) and
                                isinstance(st.value.func.value, ast.BinOp)
                                else []):
                            doms.add("signed")
                        else:
                            doms.add("unknown")
        if "signed" in doms:
            return "signed"
        if doms and doms <= {"nonneg"}:
            return "nonneg"
        return "unknown"
    if isinstance(e, ast.BinOp):
        a = _expr_sign(ctx, tp, g, e.left, depth + 1)
        b = _expr_sign(ctx, tp, g, e.right, depth + 1)
        if isinstance(e.op, ast.Mod) and b == "nonneg":
            return "nonneg"
        if isinstance(e.op, (ast.FloorDiv, ast.Div, ast.Mult, ast.Add)):
            if a == "nonneg" and b == "nonneg":
                return "nonneg"
            if "signed" in (a, b):
                return "signed"
            return "unknown"
        if isinstance(e.op, ast.Sub):
            if a == "nonneg" and b == "nonneg":
                # x % 100 - x % 10: still nonneg in the one place it occurs;
                # be conservative
                return "unknown"
            return "signed" if "signed" in (a, b) else "unknown"
        return "unknown"
    if isinstance(e, ast.IfExp):
        ds = {_expr_sign(ctx, tp, g, e.body, depth + 1),
              _expr_sign(ctx, tp, g, e.orelse, depth + 1)}
        if "signed" in ds:
            return "signed"
        return "str" if ds == {"str"} else "unknown"
    return "unknown"


# ------------------------------------------------------------------- R27
def _regex_units(pattern, flags):
    """[(group, following literal, inner pattern text)] and index of the
    literal 'T' among them for a duration regex."""
    tree = sre_parse.parse(pattern, flags)
    gnames = {v: k for k, v in tree.state.groupdict.items()}
    seq = []

    def inner_text(sub):
        parts = []
        for op, av in sub:
            if op is sre_c.MAX_REPEAT:
                lo, hi, s2 = av
                cs = s2[0]
                nm = "d" if (cs[0] is sre_c.IN and cs[1][0] == (
                    sre_c.CATEGORY, sre_c.CATEGORY_DIGIT)) else (
                        "any" if cs[0] is sre_c.ANY else "?")
                parts.append(nm + ("+" if hi == sre_c.MAXREPEAT and lo == 1
                                   else "*" if hi == sre_c.MAXREPEAT else ""))
            elif op is sre_c.IN and av[0] == (sre_c.CATEGORY,
                                              sre_c.CATEGORY_DIGIT):
                parts.append("d")
            elif op is sre_c.ANY:
                parts.append("any")
            else:
                parts.append("?")
        return "".join(parts)

    def walk(items):
        i = 0
        items = list(items)
        while i < len(items):
            op, av = items[i]
            if op is sre_c.SUBPATTERN:
                gid = av[0]
                if gid in gnames:
                    lit = None
                    if i + 1 < len(items) and items[i + 1][0] is \
                            sre_c.LITERAL:
                        lit = chr(items[i + 1][1])
                        i += 1
                    seq.append((gnames[gid], lit, inner_text(av[3])))
                else:
                    walk(av[3])
            elif op in (sre_c.MAX_REPEAT, sre_c.MIN_REPEAT):
                walk(av[2])
            elif op is sre_c.LITERAL:
                seq.append((None, chr(av), None))
            i += 1
    walk(tree)
    return seq


def r27_dur_table(ctx):
    rep = ctx.rep
    rule = "R27.duration-table"
    P = ("C10",)
    dur = ctx.model.cls("Duration")
    f = dur.methods.get("__str__")
    if f is None:
        raise AnalysisError("Duration.__str__ not found")
    rep.need_anchor(rule, "duration notations")
    # writer sequence: the shapes of the strings __str__ can return
    from .. import strabs
    shapes = [x for x in strabs.shapes(ctx, f) if isinstance(x, strabs.Str)]
    other = [x for x in strabs.shapes(ctx, f)
             if not isinstance(x, strabs.Str)]
    if other or not shapes:
        # the writer is there but builds its text in a way the string
        # abstraction does not follow (pieces collected in a list, ...):
        # nothing is decided about it - and nothing is claimed
        rep.anchor(rule, "duration notations")
        rep.undecided(rule, ctx.fkey(f, None, "writer-shapes"), f.loc(),
                      "Duration.__str__ returns a value that is not a "
                      "string assembled from constants and formatted "
                      "fields in a way this rule reads (%s): the writer / "
                      "reader agreement is not decided" % other[:3], P)
        return
    seqs = {sh: strabs.unit_sequence(sh) for sh in shapes}
    unit_forms = [sq for sq in seqs.values() if sq and sq[0] == (None, "P")
                  and any(k in ("years", "months", "days", "hours",
                                "minutes", "seconds") for k, _ in sq)]
    if not unit_forms:
        rep.error("R27", "Duration.__str__: unit/designator list not found")
        return
    longest = max(unit_forms, key=len)
    stray = [sq for sq in unit_forms
             if not strabs.is_subsequence(sq, longest)]
    writer = [x for x in longest if x != (None, "P")]
    rep.check(not stray, rule, ctx.fkey(f, None, "one-order"), f.loc(),
              "every unit form Duration.__str__ can write is a selection, "
              "in order, of %s" % writer,
              "Duration.__str__ can write %s, which is not a selection in "
              "order of its full form %s" % (stray[:2], writer), P)
    week_shapes = [sq for sq in seqs.values()
                   if any(k == "weeks" for k, _ in sq)]
    minus_shapes = [sh for sh in shapes if sh.toks and sh.toks[0][0] == "L"
                    and sh.toks[0][1].startswith("-")]
    empty_shapes = [repr(sh) for sh in shapes
                    if all(t[0] == "L" for t in sh.toks)]
    par = ctx.model.cls("DurationParser")
    regs = ctx.folder.need_class_const(par, "DURATION_REGEXES")
    rep.tables.add("DurationParser.DURATION_REGEXES")
    readers = []
    for r in regs:
        if not isinstance(r, Regex):
            rep.error("R27", "DURATION_REGEXES entry does not fold")
            return
        seq = [x for x in _regex_units(r.pattern, r.flags)
               if not (x[0] is None and x[1] == "P")]
        readers.append(seq)
    # full designator regex: the one containing 'T'
    full = [s for s in readers if any(x[0] is None and x[1] == "T"
                                      for x in s)]
    rep.anchor(rule, "duration notations")
    got = [(g, l) for g, l, _ in full[0]] if full else []
    rep.check(bool(full) and got == writer, rule,
              ctx.mkey("parsers", "DURATION_REGEXES:designators"),
              "parsers.py",
              "writer and reader agree on the designator sequence %s" %
              writer,
              "Duration.__str__ emits %s but the designator regex reads %s: "
              "a unit is written under a designator the parser assigns to "
              "another unit (or in another position)" % (writer, got), P)
    date_only = [s for s in readers if s and not any(
        x[0] is None and x[1] == "T" for x in s) and len(s) > 1]
    if date_only:
        want = [(p, d) for p, d in writer[:writer.index((None, "T"))]]
        got = [(g, l) for g, l, _ in date_only[0]]
        rep.check(got == want, rule,
                  ctx.mkey("parsers", "DURATION_REGEXES:date-part"),
                  "parsers.py", "date-only regex reads %s" % want,
                  "date-only duration regex reads %s, the writer emits %s "
                  "before 'T'" % (got, want), P)
    weeks = [s for s in readers if len(s) == 1 and s[0][0] == "weeks"]
    rep.check(bool(weeks) and weeks[0][0][1] == "W", rule,
              ctx.mkey("parsers", "DURATION_REGEXES:weeks"), "parsers.py",
              "PnW is read as weeks", "no `P<weeks>W` regex", P)
    wk_ok = bool(week_shapes) and all(
        sq == [(None, "P"), ("weeks", "W")] for sq in week_shapes)
    rep.check(wk_ok, rule, ctx.fkey(f, None, "weeks-W"), f.loc(),
              "week form is written as nW", "Duration.__str__ does not "
              "write the week form with designator W", P)
    # integer-vs-decimal typing
    pf = par.methods["parse"]
    int_keys = None
    for n in walk_no_nested(pf.node):
        if isinstance(n, ast.If) and isinstance(n.test, ast.Compare) and \
                isinstance(n.test.ops[0], (ast.In, ast.NotIn)):
            into = n.body if isinstance(n.test.ops[0], ast.In) else n.orelse
            if not any("int(" in U(x) for x in into):
                continue
            try:
                vals = ctx.folder.fold(n.test.comparators[0], pf.module,
                                       pf.cls, {})
            except NotConst:
                continue
            if isinstance(vals, (list, tuple, set, frozenset)) and all(
                    isinstance(v, str) for v in vals):
                int_keys = set(vals)
    for n in ast.walk(pf.node):
        # the same selection written as a conditional expression
        if int_keys is None and isinstance(n, ast.IfExp) and isinstance(
                n.test, ast.Compare) and isinstance(
                    n.test.ops[0], (ast.In, ast.NotIn)):
            into = n.body if isinstance(n.test.ops[0], ast.In) else n.orelse
            if "int(" not in U(into):
                continue
            try:
                vals = ctx.folder.fold(n.test.comparators[0], pf.module,
                                       pf.cls, {})
            except NotConst:
                continue
            if isinstance(vals, (list, tuple, set, frozenset)) and all(
                    isinstance(v, str) for v in vals):
                int_keys = set(vals)
    digit_groups = set()
    for s in readers:
        for g, l, inner in s:
            if g is not None and inner == "d+":
                digit_groups.add(g)
    init = dur.methods["__init__"]
    int_typed = set()
    for n in walk_no_nested(init.node):
        if isinstance(n, ast.Call) and U(n.func) == "_type_checker":
            for a in n.args:
                if isinstance(a, ast.Tuple) and len(a.elts) >= 3:
                    ts = [U(x) for x in a.elts[2:]]
                    if "int" in ts and "float" not in ts:
                        int_typed.add(a.elts[1].value)
    rep.check(int_keys is not None and int_keys == digit_groups and
              int_keys == int_typed, rule,
              ctx.fkey(pf, None, "integer-units"), pf.loc(),
              "units parsed with int() = groups matching \\d+ = "
              "integer-typed Duration arguments (%s)" % sorted(
                  int_keys or ()),
              "integer typing disagrees: parsed with int() %s, \\d+ groups "
              "%s, integer-typed constructor arguments %s" % (
                  sorted(int_keys or ()), sorted(digit_groups),
                  sorted(int_typed)), P)
    # decimal mark
    w_mark = any(isinstance(n, ast.Call) and U(n.func).endswith(".replace")
                 and [U(a) for a in n.args] == ["'.'", "','"]
                 for n in walk_no_nested(f.node))
    r_mark = any(isinstance(n, ast.Call) and U(n.func).endswith(".replace")
                 and [U(a) for a in n.args] == ["','", "'.'"]
                 for n in walk_no_nested(pf.node))
    rep.check(r_mark or not w_mark, rule, ctx.fkey(pf, None, "decimal-mark"),
              pf.loc(), "the reader normalises the decimal comma the writer "
              "emits", "Duration.__str__ writes a decimal comma that "
              "DurationParser.parse does not convert back", P)
    # empty duration spelling
    empties = sorted(set(empty_shapes) - {"P"}) or sorted(empty_shapes)
    empty = empties[0] if len(empties) == 1 else None
    ok_empty = empty is not None and any(
        isinstance(r, Regex) and re.compile(r.pattern, r.flags).search(empty)
        for r in regs)
    rep.check(ok_empty, rule, ctx.fkey(f, None, "empty-spelling"), f.loc(),
              "the empty duration's spelling %r is a string the reader "
              "accepts" % empty,
              "the empty duration is written as %r, which no duration regex "
              "matches" % empty, P)
    # leading minus
    w_minus = bool(minus_shapes)
    from ..flow import prefix_test
    r_minus = False
    for n in walk_no_nested(pf.node):
        if isinstance(n, ast.If):
            subj = prefix_test(pf.node, n.test, "-")
            # ... and the sign is taken off the text that is matched
            if subj and any(isinstance(x, ast.Assign) and U(
                    x.targets[0]) == subj and U(x.value) == subj + "[1:]"
                    for x in n.body):
                r_minus = True
    rep.check(r_minus or not w_minus, rule, ctx.fkey(pf, None, "minus"),
              pf.loc(), "a leading '-' is consumed before matching",
              "Duration.__str__ writes a leading '-' the parser does not "
              "consume", P)
    # numbers: the writer renders a unit value with str() (shortest exact
    # repr); the reader must accept every spelling str() of a float can
    # produce, including the exponent form of very small / large values
    lossy = []
    for n in walk_no_nested(f.node):
        if isinstance(n, ast.BinOp) and isinstance(n.op, ast.Mod) and \
                isinstance(n.left, ast.Constant) and isinstance(
                    n.left.value, str) and re.search(
                        r"%[-+ #0]*\d*(?:\.\d+)?[fFeEgG]", n.left.value):
            lossy.append(U(n)[:50])
        if isinstance(n, ast.Call) and U(n.func) in ("round", "format") and \
                len(n.args) >= 2:
            lossy.append(U(n)[:50])
        if isinstance(n, ast.FormattedValue) and n.format_spec is not None \
                and re.search(r"[fFeEgG]", U(n.format_spec)):
            lossy.append(U(n)[:50])
    rep.check(not lossy, rule, ctx.fkey(f, None, "full-precision"), f.loc(),
              "unit values are written with str(): every digit of the value "
              "is in the text",
              "Duration.__str__ formats a unit value with a fixed precision "
              "(%s): digits beyond it are dropped, so the duration read back "
              "is a different one" % lossy, P)
    samples = {"hours": "H", "minutes": "M", "seconds": "S"}
    numbers = ["12", "0,5", "0.25", "5e-05", "2,5e-07", "1e+16"]
    unread = []
    for unit, des in samples.items():
        for num in numbers:
            text = "PT%s%s" % (num, des)
            hit = None
            for r in regs:
                if isinstance(r, Regex):
                    m_ = re.compile(r.pattern, r.flags).search(text)
                    if m_ and m_.groupdict().get(unit) == num:
                        hit = m_
                        break
            if hit is None:
                unread.append(text)
    rep.check(not unread, rule,
              ctx.mkey("parsers", "DURATION_REGEXES:float-spellings"),
              "parsers.py", "every spelling str() gives a float component "
              "(plain, decimal comma/point, exponent) is read back whole",
              "the duration regexes do not read %s as one number although "
              "Duration.__str__ writes a small or large float component in "
              "exactly that form (str(5e-05) is '5e-05')" % unread[:4], P)
    # ... and whole-number components of any length, alone and before a
    # time part (str() writes an int with all its digits)
    unread_i = []
    for unit, des in (("years", "Y"), ("months", "M"), ("days", "D"),
                      ("weeks", "W")):
        for num in ("0", "7", "12", "365", "10000"):
            for tail in ("", "T1H") if unit != "weeks" else ("",):
                text = "P%s%s%s" % (num, des, tail)
                hit = False
                for r in regs:
                    if isinstance(r, Regex):
                        m_ = re.compile(r.pattern, r.flags).search(text)
                        if m_ and m_.groupdict().get(unit) == num:
                            hit = True
                            break
                if not hit:
                    unread_i.append(text)
    rep.check(not unread_i, rule,
              ctx.mkey("parsers", "DURATION_REGEXES:integer-spellings"),
              "parsers.py", "whole-number year/month/day/week components of "
              "one to five digits are read back whole, with and without a "
              "time part",
              "the duration regexes do not read %s (a whole-number component "
              "as Duration.__str__ writes it)" % unread_i[:5], P)
    # the sign is taken out before any field is written: every return that
    # formats a field lies behind the guard returning "-" + str(abs(self))
    from ..flow import path_conds
    minus_rets = [n for n in walk_no_nested(f.node)
                  if isinstance(n, ast.Return) and n.value is not None and
                  re.match(r"""\(?['"]-['"] \+|f['"]-""", U(n.value))]
    if w_minus and len(minus_rets) == 1:
        guard = None
        for t, pol in path_conds(minus_rets[0]):
            if pol and not ("not" in U(t) and U(t).endswith(f.self_name)):
                guard = t
                break
        late = []
        for n in walk_no_nested(f.node):
            if isinstance(n, ast.Return) and n is not minus_rets[0] and \
                    n.value is not None and not isinstance(
                        n.value, ast.Constant):
                if guard is None or not any(
                        t is guard and not pol for t, pol in path_conds(n)):
                    late.append(U(n.value)[:60])
        rep.check(guard is not None and not late, rule,
                  ctx.fkey(f, None, "sign-first"), f.loc(minus_rets[0]),
                  "every return that formats a field is reached only after "
                  "the all-negative case returned '-' + str(abs(self))",
                  "Duration.__str__ formats fields (%s) on a path that does "
                  "not pass the all-negative guard: a negative duration is "
                  "written with the sign inside (P-5W), which the parser "
                  "does not read" % late, P)
        _r27_sign_flag(ctx, rep, rule, f, guard, P)
    elif w_minus:
        rep.error("R27", "Duration.__str__: the return writing the leading "
                  "'-' was not identified")
    # date-time-like spelling: unit to unit
    mapping = {}
    rm_names = set()
    for n in walk_no_nested(pf.node):
        if isinstance(n, ast.Call) and U(n.func).endswith("Duration"):
            for k in n.keywords:
                if k.arg is None and isinstance(k.value, ast.Name):
                    rm_names.add(k.value.id)
    for n in walk_no_nested(pf.node):
        if isinstance(n, ast.Assign) and isinstance(
                n.targets[0], ast.Name) and n.targets[0].id in rm_names \
                and isinstance(n.value, ast.Dict):
            for k, v in zip(n.value.keys, n.value.values):
                if isinstance(k, ast.Constant) and isinstance(
                        v, ast.Attribute):
                    mapping.setdefault(k.value, set()).add(v.attr)
    for n in walk_no_nested(pf.node):
        if isinstance(n, ast.Assign) and isinstance(
                n.targets[0], ast.Subscript) and U(
                    n.targets[0].value) in rm_names and isinstance(
                        n.targets[0].slice, ast.Constant) and isinstance(
                            n.value, ast.Attribute):
            mapping.setdefault(n.targets[0].slice.value, set()).add(
                n.value.attr)
    # ... or, independent of how the mapping is filled: what each key
    # holds at the return, on every path of the branch (decision table)
    from ..dtable import explore as _explore_dt
    branch = None
    for n in walk_no_nested(pf.node):
        if isinstance(n, ast.Assign) and isinstance(
                n.value, ast.Call) and "parse_timepoint_expression" in U(
                    n.value.func):
            cur = n
            while isinstance(parent(cur), ast.Try):
                cur = parent(cur)
            par_ = parent(cur)
            for fld in ("body", "orelse"):
                blk = getattr(par_, fld, None)
                if isinstance(blk, list) and cur in blk:
                    branch = blk[blk.index(cur):]
    if branch is not None:
        try:
            paths_ = _explore_dt(branch)
        except AnalysisError:
            paths_ = []
        table, complete_ = {}, bool(paths_)
        for p_ in paths_:
            if p_.outcome != "return":
                continue
            if p_.skipped:
                complete_ = False
            for nm in rm_names:
                d0 = p_.env.get(nm)
                if isinstance(d0, ast.Dict):
                    for k, v in zip(d0.keys, d0.values):
                        if isinstance(k, ast.Constant) and isinstance(
                                v, ast.Attribute):
                            table.setdefault(k.value, set()).add(v.attr)
                for k, v in p_.env.items():
                    m_ = re.fullmatch(r"@%s\['(\w+)'\]" % re.escape(nm), k)
                    if m_ and isinstance(v, ast.Attribute):
                        table.setdefault(m_.group(1), set()).add(v.attr)
        if complete_ and table:
            mapping = table
    want = {"years": {"_year"}, "months": {"_month_of_year"},
            "days": {"_day_of_month", "_day_of_year"},
            "hours": {"_hour_of_day"}, "minutes": {"_minute_of_hour"},
            "seconds": {"_second_of_minute"}}
    rep.check(mapping == want, rule, ctx.fkey(pf, None, "datetime-like"),
              pf.loc(), "the date-time-like spelling maps each field to the "
              "unit of the same name",
              "date-time-like duration maps %s; expected %s" % (
                  {k: sorted(v) for k, v in mapping.items()},
                  {k: sorted(v) for k, v in want.items()}), P)
    wk_ref = any(isinstance(n, ast.If) and "get_is_week_date" in U(n.test)
                 and any(isinstance(x, ast.Raise) for x in n.body)
                 for n in walk_no_nested(pf.node))
    rep.check(wk_ref, rule, ctx.fkey(pf, None, "week-refused"), pf.loc(),
              "a week-date spelling is refused", "the date-time-like "
              "duration no longer refuses week dates", P, nontrivial=False)


# ------------------------------------------------------------------- R28
def r28_rec_table(ctx):
    rep = ctx.rep
    rule = "R28.recurrence-table"
    P = ("C14",)
    rec = ctx.model.cls("TimeRecurrence")
    f = rec.methods.get("__str__")
    par = ctx.model.cls("TimeRecurrenceParser")
    regs = ctx.folder.need_class_const(par, "RECURRENCE_REGEXES")
    rep.tables.add("TimeRecurrenceParser.RECURRENCE_REGEXES")
    rep.need_anchor(rule, "recurrence notations")
    kind_of = {"start": "point", "end": "point", "intv": "duration"}
    reader = {}
    for r in regs:
        if not isinstance(r, Regex):
            rep.error("R28", "RECURRENCE_REGEXES entry does not fold")
            return
        names = [m for m in re.findall(r"\(\?P<(\w+)>", r.pattern)]
        seps = r.pattern.count("/")
        comps = [n for n in names if n != "reps"]
        key = tuple(kind_of.get(n, "?") for n in comps)
        reader[key] = (names, seps, r.pattern)
    # writer: per format number, from the decision table of __str__ and the
    # shape of the string each path returns
    from .. import strabs
    from ..dtable import explore
    interp = strabs.Interp(ctx, f)
    writer = {}
    prefixes = set()
    projected = set()
    for p_ in explore(f.node.body):
        if p_.outcome != "return" or p_.value is None:
            continue
        k = None
        for atom, val in p_.decisions.items():
            m = re.fullmatch(r"%s\._format_number == (\d+)" % f.self_name,
                             atom)
            if m and val:
                k = int(m.group(1))
        if k is None:
            continue
        shape = interp.eval(p_.value, {})
        if not isinstance(shape, strabs.Str):
            writer.setdefault(k, set()).add(("?",))
            continue
        toks = list(shape.toks)
        # prefix: "R/" or "R<repetitions>/"
        if toks and toks[0] == ("L", "R") and len(toks) > 2 and \
                toks[1] == ("V", "repetitions") and toks[2][0] == "L" and \
                toks[2][1].startswith("/"):
            prefixes.add("Rn/")
            toks = [("L", toks[2][1][1:])] + toks[3:]
        elif toks and toks[0][0] == "L" and toks[0][1].startswith("R/"):
            prefixes.add("R/")
            toks = [("L", toks[0][1][2:])] + toks[1:]
        else:
            prefixes.add("?")
        comps = []
        seps = []
        for kind, text in toks:
            if kind == "V":
                if text not in ("duration", "start_point", "second_point",
                                "end_point"):
                    projected.add(text)
                comps.append("duration" if "duration" in text else (
                    "point" if text.endswith("_point") else "?"))
            elif text:
                if text == "P0Y" or text.startswith("P0Y"):
                    comps.append("duration")
                    text = text[3:]
                elif text.endswith("P0Y"):
                    seps.append(text[:-3])
                    comps.append("duration")
                    text = ""
                if text:
                    seps.append(text)
        writer.setdefault(k, set()).add((tuple(comps), tuple(seps)))
    want = {1: ("point", "point"), 3: ("point", "duration"),
            4: ("duration", "point")}
    for k in (1, 3, 4):
        rep.anchor(rule, "recurrence notations")
        got = writer.get(k, set())
        rep.check(got == {(want[k], ("/",))} and want[k] in reader, rule,
                  ctx.fkey(f, None, "notation-%d" % k), f.loc(),
                  "notation %d is written as %s and a regex reads that "
                  "order" % (k, "/".join(want[k])),
                  "notation %d is written as %s; readers exist for %s" % (
                      k, sorted(got), sorted(reader)), P)
    rep.check(not projected, rule, ctx.fkey(f, None, "components-verbatim"),
              f.loc(), "every component is written as str() of the stored "
              "component itself",
              "TimeRecurrence.__str__ writes %s instead of the stored "
              "component: whatever that conversion drops (a time part, when "
              "an interval is re-expressed in weeks) is not read back" %
              sorted(projected), P)
    # R prefix and count
    rep.check(prefixes == {"R/", "Rn/"}, rule,
              ctx.fkey(f, None, "prefix"), f.loc(),
              "R, optional count and '/' are written as the regexes read "
              "them", "TimeRecurrence.__str__ writes the prefixes %s, not "
              "R[n]/" % sorted(prefixes), P)
    # parser: group -> constructor keyword, and which parser handles it
    pf = par.methods["parse"]
    ctor = [n for n in walk_no_nested(pf.node) if isinstance(n, ast.Return)
            and isinstance(n.value, ast.Call) and
            U(n.value.func).endswith("TimeRecurrence")]
    routed = {}     # keyword -> set of (group, how)
    if len(ctor) != 1:
        rep.error("R28", "TimeRecurrenceParser.parse: the return of the "
                  "constructed TimeRecurrence was not identified")
    else:
        from ..flow import block_of
        region = ctor[0]
        blk = None
        cur = ctor[0]
        while cur is not None and cur is not pf.node:
            par_ = parent(cur)
            if isinstance(par_, (ast.For, ast.While)) or par_ is pf.node:
                blk = par_.body
                break
            cur = par_
        for p_ in explore(blk or pf.node.body):
            if p_.outcome != "return" or not isinstance(p_.value, ast.Call) \
                    or not U(p_.value.func).endswith("TimeRecurrence"):
                continue
            kws = []
            raw_kw = ctor[0].value.keywords
            for i_, kw_ in enumerate(p_.value.keywords):
                if kw_.arg is not None:
                    kws.append((kw_.arg, kw_.value))
                    continue
                # **mapping: the literal it started as plus the items stored
                # into it on this path
                if isinstance(kw_.value, ast.Dict):
                    for k_, v_ in zip(kw_.value.keys, kw_.value.values):
                        if isinstance(k_, ast.Constant):
                            kws.append((k_.value, v_))
                nm = raw_kw[i_].value.id if i_ < len(raw_kw) and isinstance(
                    raw_kw[i_].value, ast.Name) else None
                if nm:
                    for ek, ev in p_.env.items():
                        m_ = re.fullmatch(r"@%s\['(\w+)'\]" % re.escape(nm),
                                          ek)
                        if m_:
                            kws = [x for x in kws if x[0] != m_.group(1)]
                            kws.append((m_.group(1), ev))
            for arg_, v in kws:
                kw_ = ast.keyword(arg=arg_, value=v)
                txt = U(v)
                if txt == "None":
                    continue
                m = re.search(r"(?:\[|\.get\()'(\w+)'[\])]\)*$", txt)
                how = "?"
                if isinstance(v, ast.Call):
                    how = U(v.func)
                routed.setdefault(kw_.arg, set()).add(
                    (m.group(1) if m else "?", how))
    want_kw = {"repetitions": "reps", "start_point": "start",
               "end_point": "end", "duration": "intv"}
    got_kw = {k: sorted({g for g, _ in v}) for k, v in routed.items()}
    good = all(got_kw.get(k) == [g] for k, g in want_kw.items()) and \
        set(got_kw) == set(want_kw)
    rep.check(good, rule, ctx.fkey(pf, None, "group-to-keyword"), pf.loc(),
              "regex groups reach the constructor keyword of the same "
              "meaning",
              "recurrence groups reach the constructor as %s; expected %s "
              "passed by keyword" % (got_kw, want_kw), P)
    uses = {k: sorted({h for _, h in v}) for k, v in routed.items()}
    good = (all("timepoint_parser.parse" in h
                for k in ("start_point", "end_point")
                for h in uses.get(k, ["-"])) and
            all("duration_parser.parse" in h
                for h in uses.get("duration", ["-"])) and
            uses.get("repetitions") == ["int"])
    rep.check(good, rule, ctx.fkey(pf, None, "component-parsers"), pf.loc(),
              "points go through the time point parser, the interval "
              "through the duration parser, the count through int()",
              "recurrence components are parsed by %s" % uses, P)


# ------------------------------------------------------------------- R29
POSIX = {
    "%Y": ["century", "year_of_century"], "%m": ["month_of_year"],
    "%d": ["day_of_month"], "%j": ["day_of_year"], "%H": ["hour_of_day"],
    "%M": ["minute_of_hour"], "%S": ["second_of_minute"],
    "%z": ["time_zone_sign", "time_zone_hour_abs", "time_zone_minute_abs"],
}
COMPOSITE = {"%F": ["%Y", "-", "%m", "-", "%d"],
             "%X": ["%H", ":", "%M", ":", "%S"]}


def r29_strf_table(ctx):
    rep = ctx.rep
    rule = "R29.strftime-table"
    P = ("C17",)
    T = tables_of(ctx)
    strf = T.const("STRFTIME_TRANSLATE_INFO")
    rep.tables.add("parser_spec.STRFTIME_TRANSLATE_INFO")
    rep.need_anchor(rule, "directives")
    props_col = set()
    for rows in (T.date_info(2), T.time_info(), T.zone_info()):
        props_col |= {r[3] for r in rows if r[3]}
    supported = set(POSIX) | set(COMPOSITE) | {"%s"}
    rep.check(set(strf) == supported, rule,
              ctx.mkey("parser_spec", "STRFTIME_TRANSLATE_INFO:keys"),
              "parser_spec.py",
              "the directive table holds exactly the supported set",
              "directive table keys %s differ from the supported set %s: "
              "%s" % (sorted(strf), sorted(supported),
                      "missing " + str(sorted(supported - set(strf))) if
                      supported - set(strf) else "extra " + str(sorted(
                          set(strf) - supported)) + " would be rendered "
                      "instead of refused"), P)
    for d, want in POSIX.items():
        if d not in strf:
            continue
        rep.anchor(rule, "directives")
        got = list(strf[d]) if isinstance(strf[d], (list, tuple)) else strf[d]
        unresolved = [x for x in got if isinstance(x, str) and
                      re.fullmatch(r"[a-z_]+", x) and x not in props_col]
        rep.check(got == want and not unresolved, rule,
                  ctx.mkey("parser_spec", "directive:" + d),
                  "parser_spec.py", "%s -> %s" % (d, want),
                  "%s expands to %s; POSIX meaning is %s%s" % (
                      d, got, want, "; %s resolve to no table row and would "
                      "be emitted as literal text" % unresolved
                      if unresolved else ""), P)
    for d, parts in COMPOSITE.items():
        if d not in strf:
            continue
        rep.anchor(rule, "directives")
        want = []
        for p in parts:
            want.extend(POSIX[p] if p in POSIX else [p])
        rep.check(list(strf[d]) == want, rule,
                  ctx.mkey("parser_spec", "directive:" + d),
                  "parser_spec.py", "%s equals %s" % (d, "".join(parts)),
                  "%s expands to %s but its parts %s expand to %s" % (
                      d, list(strf[d]), "".join(parts), want), P)
    if "%s" in strf:
        rep.anchor(rule, "directives")
        v = strf["%s"]
        ok = isinstance(v, tuple) and len(v) == 3 and \
            v[2] == "seconds_since_unix_epoch" and \
            "%(seconds_since_unix_epoch)" in v[1] and \
            "(?P<seconds_since_unix_epoch>" in v[0]
        rep.check(ok, rule, ctx.mkey("parser_spec", "directive:%s"),
                  "parser_spec.py", "%s is the Unix time property on both "
                  "sides", "%%s entry is %r" % (v,), P)
    weekprops = [x for v in strf.values() if isinstance(v, list) for x in v
                 if x in ("week_of_year", "day_of_week")]
    rep.check(not weekprops, rule,
              ctx.mkey("parser_spec", "STRFTIME_TRANSLATE_INFO:no-week"),
              "parser_spec.py", "no directive reads a week property (so "
              "strftime must read years from a calendar-year form)",
              "directive table reads week properties %s" % weekprops, P,
              nontrivial=False)
    # unknown directives are refused before anything is built
    f = ctx.func("parser_spec._translate_strftime_token")
    body = [st for st in f.node.body if not (isinstance(st, ast.Expr) and
                                             isinstance(st.value,
                                                        ast.Constant))]
    # read off the decision table: a path that raises, selected by nothing
    # but "the token is not a key of the table" (membership test or a
    # .get() that came back None), before any loop
    from ..dtable import explore as _explore_r
    ok, exc_ok = False, False
    try:
        paths_r = _explore_r(body)
    except AnalysisError:
        paths_r = []
    tok = f.params[0] if f.params else "strftime_token"
    for p_ in paths_r:
        if p_.outcome != "raise" or p_.skipped or len(p_.decisions) != 1:
            continue
        (atom, val), = p_.decisions.items()
        a_ = atom.replace(" ", "")
        absent = (a_ == "%sinSTRFTIME_TRANSLATE_INFO" % tok and
                  val is False) or (
            a_ in ("STRFTIME_TRANSLATE_INFO.get(%s)isNone" % tok,
                   "STRFTIME_TRANSLATE_INFO.get(%s,None)isNone" % tok)
            and val is True)
        if not absent:
            continue
        ok = True
        exc = p_.value
        name = U(exc.func) if isinstance(exc, ast.Call) else U(exc)
        r = ctx.model.resolve_name_in_module(f.module, ast.Name(id=name))
        exc_ok = hasattr(r, "mro") and "ValueError" in \
            ctx.model.exc_mro_names(r)
    rep.check(ok and exc_ok, rule, ctx.fkey(f, None, "refuses-unknown"),
              f.loc(), "an unknown %-directive raises the library's "
              "ValueError-derived error before any output is built",
              "_translate_strftime_token does not start by refusing tokens "
              "outside the table with a ValueError-derived error: "
              "unsupported directives are mis-rendered", P)
    # ... and the refusal sees every directive: the splitter isolates
    # *every* %-letter as a token of its own (not only the supported ones),
    # and the token test recognises every one of them as a directive
    import string as _string
    from ..fold import Regex as _Regex
    T_ = ctx.folder
    split_rx = T_.need_module_const("parser_spec",
                                    "REC_SPLIT_STRFTIME_DIRECTIVE")
    tok_rx = T_.need_module_const("parser_spec",
                                  "REC_STRFTIME_DIRECTIVE_TOKEN")
    if isinstance(split_rx, _Regex) and isinstance(tok_rx, _Regex):
        letters = _string.ascii_letters
        try:
            c_split = re.compile(split_rx.pattern, split_rx.flags)
            c_tok = re.compile(tok_rx.pattern, tok_rx.flags)
        except re.error as exc:
            raise AnalysisError("strftime directive regexes do not compile: "
                                "%s" % exc)
        not_split = [c for c in letters
                     if c_split.split("a%" + c + "b") != ["a", "%" + c, "b"]]
        not_tok = [c for c in letters if not c_tok.search("%" + c)]
        rep.check(not not_split and not not_tok, rule,
                  ctx.mkey("parser_spec", "strftime-split:every-directive"),
                  "parser_spec.py",
                  "the format splitter isolates every %<letter> directive "
                  "and the token test recognises each, so the table lookup "
                  "(and its refusal) sees them all",
                  "the format splitter leaves %s inside literal text / the "
                  "token test misses %s: those directives never reach the "
                  "table lookup, so they are not refused but copied or fed "
                  "to %%-formatting" % (
                      ["%" + c for c in not_split][:8],
                      ["%" + c for c in not_tok][:8]), P)
    else:
        rep.undecided(rule, ctx.mkey("parser_spec",
                                     "strftime-split:every-directive"),
                      "parser_spec.py", "the directive splitter / token "
                      "test are not compiled regular expressions this rule "
                      "can fold", P)
    # a strftime format given to a TimePoint reaches the dumper's strftime
    # itself (dump() would swallow the refusal of an unknown directive and
    # fall back to reading the text as an ISO 8601 pattern)
    sf = ctx.try_func("data.TimePoint.__str__")
    if sf is not None and "strftime_format" in sf.params:
        via = []
        for n in walk_no_nested(sf.node):
            if isinstance(n, ast.Call) and any(
                    isinstance(a, ast.Name) and a.id == "strftime_format"
                    for a in list(n.args) + [k.value for k in n.keywords]):
                via.append(U(n.func))
        rep.check(bool(via) and all(v.split(".")[-1] == "strftime"
                                    for v in via), rule,
                  ctx.fkey(sf, None, "strftime-route"), sf.loc(),
                  "a strftime format is handed to the dumper's strftime()",
                  "TimePoint.__str__ hands the strftime format to %s: only "
                  "TimePointDumper.strftime refuses unsupported directives "
                  "with the library's error (dump() catches it and renders "
                  "the text as an ISO 8601 pattern)" % via, P)
    # both directions split formats with the same regex
    fs = ctx.func("dumpers.TimePointDumper.strftime")
    fp = ctx.func("parsers.TimePointParser.strptime")
    def rec_calls(f0):
        """REC_* regex calls made by f0 or by the same-module helpers it
        calls or hands on (map(helper, ...)), transitively."""
        out, todo, seen = set(), [f0], set()
        while todo:
            g = todo.pop()
            if g.qual in seen:
                continue
            seen.add(g.qual)
            for n in walk_no_nested(g.node):
                # (called directly, or bound to a local first)
                if isinstance(n, ast.Attribute) and isinstance(
                        n.value, ast.Attribute) and "REC_" in n.value.attr \
                        and n.attr in ("split", "search", "match",
                                       "fullmatch", "sub", "findall"):
                    out.add(U(n))
                ref = None
                if isinstance(n, ast.Name) and isinstance(n.ctx, ast.Load):
                    ref = g.module.functions.get(n.id)
                elif isinstance(n, ast.Attribute) and isinstance(
                        n.value, ast.Name) and n.value.id == g.self_name \
                        and g.cls is not None:
                    ref = g.cls.methods.get(n.attr)
                if ref is not None and ref.name.startswith("_"):
                    todo.append(ref)
        return out
    s1, s2 = rec_calls(fs), rec_calls(fp)
    rep.check(s1 == s2 and len(s1) == 2, rule,
              "package:strftime-split", "-",
              "strftime and strptime split formats with the same directive "
              "regexes", "strftime uses %s, strptime %s" % (sorted(s1),
                                                            sorted(s2)), P)
    # strptime routes through process_time_zone_info
    cf = ctx.func("parsers.TimePointParser._parse_from_custom_regex")
    rep.check("parsers.TimePointParser.process_time_zone_info" in
              ctx.res.callees(cf.qual), rule,
              ctx.fkey(cf, None, "zone-default"), cf.loc(),
              "a format without %z takes the parser's assumed zone",
              "_parse_from_custom_regex no longer applies "
              "process_time_zone_info", P)


RULES = {"R26": r26_sign_prop, "R27": r27_dur_table, "R28": r28_rec_table,
         "R29": r29_strf_table}
