"""R20 EXC-FLOW, R21 GUARD-BYPASS, R22 BOUND-KIND, R33 TRUNC-GUARD (C09, C17,
C19)."""
import ast
import re

from ..fdai import Engine, Plugin, freeze, thaw
from ..model import (npos, AnalysisError, ClassInfo, U, walk_no_nested, parent,
                     ancestors)

LIB_ERRORS = ("BadInputError", "OffsetValueError",
              "TimePointDumperBoundsError", "StrftimeSyntaxError",
              "ISO8601SyntaxError", "StrptimeConversionError")

# named exemptions of R20: (function qual, exception) -> reason
EXEMPT = {
    ("data.TimePoint._get_dump_format", "OverflowError"):
        "reached from the parsers only through error-message formatting of "
        "an already constructed point; a parsed negative year always "
        "carries expanded-year digits (assumption, not proved)",
    ("data.TimePoint._get_dump_format", "RuntimeError"):
        "needs a TimePoint in none of the three representations, which no "
        "constructor path produces (R13 slot-group invariant)",
}


def entry_sets(ctx):
    m = ctx.model
    parse = []
    for q in ("parsers.TimePointParser.parse", "parsers.TimePointParser.strptime",
              "parsers.TimePointParser.__init__",
              "parsers.DurationParser.parse",
              "parsers.TimeRecurrenceParser.parse",
              "parsers.TimeRecurrenceParser.__init__",
              "parsers.parse_timepoint_expression",
              "data.TimePoint.__init__", "data.Duration.__init__",
              "data.TimeZone.__init__", "data.TimeRecurrence.__init__"):
        f = ctx.try_func(q)
        if f is None:
            raise AnalysisError("entry point %s not found" % q)
        parse.append(f.qual)
    strf = []
    for q in ("data.TimePoint.strftime", "dumpers.TimePointDumper.strftime",
              "parser_spec.translate_strftime_token",
              "parser_spec.translate_strptime_token"):
        f = ctx.try_func(q)
        if f is None:
            raise AnalysisError("entry point %s not found" % q)
        strf.append(f.qual)
    return parse, strf


def main_try(ctx):
    f = ctx.try_func("main.main")
    if f is None:
        raise AnalysisError("main.main not found")
    tries = [n for n in walk_no_nested(f.node) if isinstance(n, ast.Try)]
    return f, tries


def cli_entries(ctx):
    f, tries = main_try(ctx)
    out = []
    for t in tries:
        for e in ctx.res.edges.get(f.qual, []):
            if any(e.node is x for st in t.body for x in ast.walk(st)):
                out.append(e.callee.qual)
    return sorted(set(out))


def raised_class(ctx, f, r):
    """Name(s) of the exception class a Raise statement raises."""
    exc = r.exc
    if exc is None:
        return ["<reraise>"]
    node = exc.func if isinstance(exc, ast.Call) else exc
    res = ctx.model.resolve_name_in_module(f.module, node)
    if isinstance(res, ClassInfo):
        return [res]
    name = U(node)
    if name in ("ValueError", "TypeError", "KeyError", "IndexError",
                "OverflowError", "RuntimeError", "NotImplementedError",
                "AttributeError", "OSError", "IOError", "Exception",
                "ArithmeticError", "ZeroDivisionError", "StopIteration",
                "AssertionError", "LookupError", "BaseException"):
        return [name]
    ts = ctx.types_in(f, node)
    out = []
    for t in ts:
        c = ctx.res.cls_of(t[6:] if t.startswith("class:") else t)
        out.append(c if c is not None else t)
    return out or ["?" + name]


def _is_value_error(ctx, c):
    if isinstance(c, ClassInfo):
        return "ValueError" in ctx.model.exc_mro_names(c)
    if isinstance(c, str):
        if c == "<reraise>":
            return True
        return "ValueError" in ctx.model.exc_mro_names(c) \
            if not c.startswith("?") else False
    return False


def _excluded_types(f, r, name):
    """Types of parameter ``name`` excluded on the way to statement r by
    isinstance tests (`if isinstance(x, T): ... return`, and the enclosing
    `if not isinstance(x, T):`)."""
    from ..resolve import Resolver
    excl = set()
    child = r
    node = parent(r)
    while node is not None:
        if isinstance(node, ast.If) and any(child is b for b in node.body):
            facts = Resolver._isinstance_facts(node.test, False)
            excl |= facts.get(name, set())
        for field in ("body", "orelse", "finalbody"):
            seq = getattr(node, field, None)
            if isinstance(seq, list) and any(child is b for b in seq):
                idx = [i for i, b in enumerate(seq) if b is child][0]
                for prev in seq[:idx]:
                    if isinstance(prev, ast.If) and not prev.orelse and \
                            _all_paths_leave(prev.body):
                        facts = Resolver._isinstance_facts(prev.test, True)
                        excl |= facts.get(name, set())
                    elif isinstance(prev, ast.If) and not prev.orelse:
                        # nested returns for every sub-case?
                        facts = Resolver._isinstance_facts(prev.test, True)
                        if name in facts and _all_paths_leave(prev.body):
                            excl |= facts[name]
        if isinstance(node, (ast.FunctionDef, ast.AsyncFunctionDef)):
            break
        child, node = node, parent(node)
    return excl


def _all_paths_leave(body):
    if not body:
        return False
    last = body[-1]
    if isinstance(last, (ast.Return, ast.Raise, ast.Continue, ast.Break)):
        return True
    if isinstance(last, ast.If) and last.orelse:
        return _all_paths_leave(last.body) and _all_paths_leave(last.orelse)
    return False


def r20_exc_flow(ctx):
    rep = ctx.rep
    res = ctx.res
    # hierarchy ---------------------------------------------------------------
    rule = "R20.hierarchy"
    rep.need_anchor(rule, "library error classes")
    for name in LIB_ERRORS:
        if not ctx.model.has_cls(name):
            rep.violation(rule, ctx.mkey("exceptions", name), "exceptions.py",
                          "library error class %s not found" % name,
                          ("C09", "C19"))
            continue
        c = ctx.model.cls(name)
        rep.anchor(rule, "library error classes")
        names = ctx.model.exc_mro_names(c)
        rep.check("ValueError" in names and "IsodatetimeError" in names,
                  rule, ctx.mkey("exceptions", name + ":bases"),
                  c.module.loc(c.node),
                  "%s derives from IsodatetimeError and ValueError" % name,
                  "%s has bases %s: it is no longer a ValueError, so callers "
                  "(and the command line's handler) do not catch it" % (
                      name, c.base_exprs), ("C09", "C19", "C17"))
    # reachability --------------------------------------------------------------
    rule = "R20.raise"
    rep.need_anchor(rule, "reachable raise sites")
    parse, strf = entry_sets(ctx)
    cli = cli_entries(ctx)
    sets = (("parse", parse, ("C09",)), ("strftime", strf, ("C17",)),
            ("cli", cli, ("C19",)))
    reach = {name: res.reachable(roots) for name, roots, _ in sets}
    n_sites = 0
    for f in ctx.model.all_functions():
        props = tuple(p for name, roots, ps in sets if f.qual in reach[name]
                      for p in ps)
        if not props:
            continue
        for r in walk_no_nested(f.node):
            if not isinstance(r, ast.Raise):
                continue
            n_sites += 1
            rep.anchor(rule, "reachable raise sites")
            classes = raised_class(ctx, f, r)
            key = ctx.fkey(f, None, "raise:%s" % (
                "/".join(c.name if isinstance(c, ClassInfo) else str(c)
                         for c in classes)))
            if classes == ["<reraise>"]:
                h = next((a for a in ancestors(r)
                          if isinstance(a, ast.ExceptHandler)), None)
                hnames = []
                if h is not None and h.type is not None:
                    hnames = [U(x).split(".")[-1] for x in (
                        h.type.elts if isinstance(h.type, ast.Tuple)
                        else [h.type])]
                ok = bool(hnames) and all(
                    _is_value_error(ctx, ctx.model.cls(n) if
                                    ctx.model.has_cls(n) else n)
                    for n in hnames)
                rep.check(ok, rule, key + ":" + ",".join(hnames), f.loc(r),
                          "re-raises a ValueError-derived error",
                          "%s re-raises %s, not known to be "
                          "ValueError-derived" % (f.qual, hnames or "?"),
                          props)
                continue
            bad = [c for c in classes if not _is_value_error(ctx, c)]
            if not bad:
                rep.ok(rule, key, f.loc(r), "raises %s (ValueError-derived)"
                       % [c.name if isinstance(c, ClassInfo) else c
                          for c in classes], props)
                continue
            bname = bad[0].name if isinstance(bad[0], ClassInfo) else str(
                bad[0])
            if (f.qual, bname) in EXEMPT:
                rep.ok(rule, key, f.loc(r), "exempt by name: %s" %
                       EXEMPT[(f.qual, bname)], props)
                rep.note(rule, "%s raise %s exempted: %s" % (
                    f.qual, bname, EXEMPT[(f.qual, bname)]), props)
                continue
            # operand-type guard: infeasible for in-package callers?
            guard_ok = False
            why = ""
            for prm in f.call_params:
                excl = _excluded_types(f, r, prm)
                if not excl:
                    continue
                have = res.param_in.get(f.qual, {}).get(prm, set())
                # None reaches operators only through nullable slots whose
                # None case is excluded by value guards the type analysis
                # does not see (R33 covers truncated operands)
                have = {t for t in have if t != "None"}
                if have and all(any(res.issub(h, e) for e in excl)
                                for h in have):
                    guard_ok = True
                    why = "parameter %s is bound to %s at every in-package " \
                        "call site, all excluded by the isinstance guard" % (
                            prm, sorted(have))
            if guard_ok:
                rep.ok(rule, key, f.loc(r), "operand-type guard: " + why,
                       props)
                continue
            which = [name for name, roots, ps in sets
                     if f.qual in reach[name]]
            path = None
            for name, roots, ps in sets:
                if f.qual in reach[name]:
                    for root in roots:
                        path = res.path(root, f.qual)
                        if path:
                            break
                if path:
                    break
            rep.violation(
                rule, key, f.loc(r),
                "%s raises %s, which is not derived from ValueError, and is "
                "reachable from the %s entry points: arbitrary input can "
                "surface as %s instead of a ValueError (and as a traceback "
                "on the command line)" % (f.qual, bname, "/".join(which),
                                          bname), props, witness=path)
    # handlers ---------------------------------------------------------------
    rule = "R20.handler"
    for f in ctx.model.all_functions():
        props = tuple(p for name, roots, ps in sets if f.qual in reach[name]
                      for p in ps)
        if not props:
            continue
        for h in walk_no_nested(f.node):
            if not isinstance(h, ast.ExceptHandler):
                continue
            tname = U(h.type) if h.type is not None else "<bare>"
            broad = tname in ("<bare>", "Exception", "BaseException")
            if not broad:
                continue
            last = h.body[-1] if h.body else None
            ok = isinstance(last, ast.Raise) and last.exc is not None and \
                all(_is_value_error(ctx, c)
                    for c in raised_class(ctx, f, last))
            rep.check(ok, rule, ctx.fkey(f, None, "broad-except"), f.loc(h),
                      "`except %s` re-raises a library error" % tname,
                      "%s swallows `except %s` without re-raising a "
                      "ValueError-derived error" % (f.qual, tname), props)
    rep.ok("R20.raise", "package:reachability", "-",
           "%d functions reachable from the parser/constructor entries, %d "
           "from strftime/strptime, %d from the command-line dispatch; %d "
           "raise sites classified" % (
               len(reach["parse"]), len(reach["strftime"]),
               len(reach["cli"]), n_sites), ("C09", "C17", "C19"))
    ctx.cache.setdefault("extra:C09", {}).update(
        {"reachable_from_parse": len(reach["parse"]),
         "raise_sites": n_sites, "exemptions": [
             "%s %s: %s" % (k[0], k[1], v) for k, v in EXEMPT.items()]})


# ------------------------------------------------------------------- R21
class _MustPlugin(Plugin):
    """Tracks whether self._check_bounds() has run since the last slot
    store, with the two bypass flags held constant."""

    def __init__(self, f, consts, check_name):
        self.f = f
        self.consts = consts
        self.check_name = check_name
        self.exits = []

    def eval(self, e, d):
        if isinstance(e, ast.Call) and U(e.func) == "%s.%s" % (
                self.f.self_name, self.check_name):
            d["$checked"] = True
        elif e is not None:
            for c in ast.walk(e):
                if isinstance(c, ast.Call) and U(c.func) == "%s.%s" % (
                        self.f.self_name, self.check_name):
                    d["$checked"] = True
        return None

    def assign(self, t, v, d, st):
        for x in ast.walk(t):
            if isinstance(x, ast.Attribute) and isinstance(
                    x.value, ast.Name) and x.value.id == self.f.self_name \
                    and x.attr != "_time_zone":
                d["$checked"] = False

    def augassign(self, st, d):
        self.assign(st.target, None, d, st)

    def refine(self, test, d):
        if isinstance(test, ast.Name) and test.id in self.consts:
            return ([d], []) if self.consts[test.id] else ([], [d])
        return [d], [dict(d)]

    def on_return(self, st, d, v):
        self.exits.append((st, d.get("$checked", False)))


def r21_guard_bypass(ctx):
    rep = ctx.rep
    P = ("C09",)
    tp = ctx.model.cls("TimePoint")
    init = tp.methods["__init__"]
    rule = "R21.bounds-unavoidable"
    rep.need_anchor(rule, "constructor exits")
    flags = [p for p in init.params if p in ("is_empty_instance",
                                             "is_duration")]
    if len(flags) != 2:
        rep.error("R21", "TimePoint.__init__: bypass flags %s" % flags)
    p = _MustPlugin(init, {fl: False for fl in flags}, "_check_bounds")
    fl = Engine(p).run(init.node.body, {freeze({"$checked": False})})
    exits = list(p.exits) + [(init.node, thaw(s).get("$checked", False))
                             for s in fl.normal]
    for st, checked in exits:
        rep.anchor(rule, "constructor exits")
    unchecked = [st for st, c in exits if not c]
    rep.check(not unchecked and bool(exits), rule,
              ctx.fkey(init, None, "check-bounds-on-all-paths"), init.loc(),
              "with both bypass flags off, every normal exit of "
              "TimePoint.__init__ has passed self._check_bounds() after the "
              "last field assignment (%d exit states)" % len(exits),
              "TimePoint.__init__ can return without _check_bounds() having "
              "run after its last field assignment (exit at %s) although "
              "neither is_empty_instance nor is_duration is set: impossible "
              "dates are admitted" % [init.loc(s) for s in unchecked[:3]], P)
    # who may bypass -----------------------------------------------------------
    rule = "R21.who-may-bypass"
    rep.need_anchor(rule, "bypassing call sites")
    res = ctx.res
    for f in ctx.model.all_functions():
        for c in walk_no_nested(f.node):
            if not isinstance(c, ast.Call):
                continue
            for k in c.keywords:
                if k.arg in ("is_empty_instance", "_is_empty_instance"):
                    rep.anchor(rule, "bypassing call sites")
                    ok = f.name == "_copy" and f.cls is not None and \
                        f.cls.name in ctx.model.VALUE_CLASSES
                    rep.check(ok, rule, ctx.fkey(f, c, "empty-instance"),
                              f.loc(c), "empty instance created by the "
                              "class's own _copy",
                              "%s creates an unchecked empty instance "
                              "(%s=...): only _copy may do that" % (
                                  f.qual, k.arg), P + ("C16",))
                if k.arg == "is_duration":
                    rep.anchor(rule, "bypassing call sites")
                    v = k.value
                    forwarded = isinstance(v, ast.Name) and \
                        v.id == "is_duration" and "is_duration" in f.params
                    literal_true = isinstance(v, ast.Constant) and \
                        v.value is True
                    literal_false = isinstance(v, ast.Constant) and \
                        v.value is False
                    ok = forwarded or literal_false or (
                        literal_true and f.qual ==
                        "parsers.DurationParser.parse")
                    rep.check(ok, rule, ctx.fkey(f, c, "is-duration"),
                              f.loc(c),
                              "is_duration is %s" % (
                                  "forwarded" if forwarded else "the "
                                  "duration parser's own literal"),
                              "%s passes is_duration=%s: the bounds-check "
                              "bypass may only originate in "
                              "DurationParser.parse and be forwarded "
                              "unchanged" % (f.qual, U(v)), P)
    # (c) the unchecked point does not escape DurationParser.parse
    f = ctx.func("parsers.DurationParser.parse")
    tvars = set()
    for n in walk_no_nested(f.node):
        if isinstance(n, ast.Assign) and isinstance(n.value, ast.Call) and \
                any(k.arg == "is_duration" for k in n.value.keywords):
            for t in n.targets:
                if isinstance(t, ast.Name):
                    tvars.add(t.id)
    escapes = []
    for n in walk_no_nested(f.node):
        if isinstance(n, ast.Name) and n.id in tvars and isinstance(
                n.ctx, ast.Load):
            p = parent(n)
            if isinstance(p, ast.Attribute):
                continue
            escapes.append(n)
    rep.check(not escapes and bool(tvars), rule,
              ctx.fkey(f, None, "no-escape"), f.loc(),
              "the unchecked date-time-like point is only read field by "
              "field", "the unchecked (is_duration) TimePoint escapes "
              "DurationParser.parse at %s" % [f.loc(e) for e in escapes], P)


# ------------------------------------------------------------------- R22
def r22_bound_kind(ctx):
    rep = ctx.rep
    rule = "R22.bound-kind"
    P = ("C09",)
    rep.need_anchor(rule, "bounds-checker calls")
    # the checker itself
    bc = ctx.func("data._bounds_checker")
    from ..boolsim import decision_table
    if len(bc.params) < 5:
        raise AnalysisError("_bounds_checker: parameters (value, name, "
                            "min_val, max_val, upper_val) not found")
    v_, _n, mn_, mx_, up_ = bc.params[:5]
    atoms, table = decision_table(bc.node)
    A = {"none": (v_, "is", "None"), "lt": (v_, "<", mn_),
         "mxnone": (mx_, "is", "None"), "gt": (mx_, "<", v_),
         "upnone": (up_, "is", "None"), "ltup": (v_, "<", up_)}
    unknown = [a for a in atoms if a not in A.values()]
    lacking = [k for k, a in A.items() if a not in atoms]
    bad_rows = []
    if not unknown and not lacking:
        idx = {a: i for i, a in enumerate(atoms)}
        for bits, out in table.items():
            g = {k: bits[idx[a]] for k, a in A.items()}
            want_raise = (not g["none"]) and (
                g["lt"] or (not g["mxnone"] and g["gt"]) or
                (not g["upnone"] and not g["ltup"]))
            if (out == "raise") != want_raise:
                bad_rows.append(({k: v for k, v in g.items()}, out))
    rep.check(not unknown and not lacking and not bad_rows, rule,
              ctx.fkey(bc, None, "semantics"), bc.loc(),
              "_bounds_checker refuses exactly value < min, value > max "
              "(inclusive) and value >= upper (exclusive), for a value that "
              "is not None: decision table over %d comparison atoms "
              "(%d rows) equals the expected one" % (len(atoms), len(table)),
              "_bounds_checker's decision table differs from `value is not "
              "None and (value < min or (max is not None and value > max) "
              "or (upper is not None and value >= upper))`: %s" % (
                  ("unexpected comparisons %s" % unknown) if unknown else
                  ("missing comparisons %s" % lacking) if lacking else
                  ("e.g. %s -> %s" % bad_rows[0]) if bad_rows else ""), P)
    cb = ctx.func("data.TimePoint._check_bounds")
    zero24 = set()
    for f in (cb, ctx.func("data.TimePoint.__init__"),
              ctx.func("data.TimeZone.__init__")):
        for c in walk_no_nested(f.node):
            if not (isinstance(c, ast.Call) and U(c.func) ==
                    "_bounds_checker" and len(c.args) >= 2):
                continue
            rep.anchor(rule, "bounds-checker calls")
            from ..flow import call_alternatives, cond_text
            calts = call_alternatives(f.node, c, f.params)
            if calts is None:
                rep.error("R22", "%s: arguments of %s not resolved" % (
                    f.qual, U(c)[:60]))
                continue
            for kw, conds in calts:
                fld = U(c.args[0])
                name = U(c.args[1]).strip("'\"")
                mn = U(kw["min_val"]) if "min_val" in kw else (
                    U(c.args[2]) if len(c.args) > 2 else None)
                mx = U(kw["max_val"]) if "max_val" in kw else None
                up = U(kw["upper_val"]) if "upper_val" in kw else None
                key = ctx.fkey(f, None, "bounds:%s:%s" % (name, mx or up))
                ok, why = True, ""
                if name.endswith("_decimal"):
                    ok = mn == "0" and up == "1" and mx is None
                    why = "a decimal part lies in [0, 1)"
                elif name == "hour_of_day":
                    ok = mn == "0" and mx is not None and \
                        "HOURS_IN_DAY" in mx
                    why = "hours run 0..24 inclusive (24:00)"
                elif name in ("minute_of_hour", "second_of_minute"):
                    is24 = [pol for t, pol in conds
                            if "_hour_of_day ==" in U(t) and
                            "HOURS_IN_DAY" in U(t)] + [
                                not pol for t, pol in conds
                                if "_hour_of_day !=" in U(t) and
                                "HOURS_IN_DAY" in U(t)]
                    if mx == "0":
                        ok = mn == "0" and up is None and is24 == [True]
                        why = "24:xx admits only 24:00:00 (and only 24:xx " \
                            "is restricted to zero)"
                        if ok:
                            zero24.add(name)
                    else:
                        ok = mn == "0" and up is not None and mx is None
                        why = "minutes/seconds run 0..59: exclusive upper " \
                            "bound"
                        if is24 == [True]:
                            ok = False
                            why = "at hour 24 only 24:00:00 is admitted"
                elif name in ("month_of_year", "day_of_month",
                              "week_of_year", "day_of_year", "day_of_week"):
                    ok = mn == "1" and mx is not None and up is None
                    why = "a 1-based field is bounded inclusively by its " \
                        "length"
                elif name == "TimeZone hours":
                    ok = mn == "-99" and mx == "99"
                    why = "zone hours lie in -99..99"
                elif name == "TimeZone minutes":
                    raw = {k_: U(v_) for k_, v_ in
                           ctx.bound_args(f, c).items()}
                    ok = "min_val" in raw and "max_val" in raw and \
                        _sign_window_all(ctx, f)
                    key = ctx.fkey(f, None, "bounds:%s:%s" % (
                        name, raw.get("max_val")))
                    why = "zone minutes lie within the sign-dependent " \
                        "window (1-60..60-1, one-sided when the hours are " \
                        "signed)"
                rep.check(ok, rule, key, f.loc(c),
                          "%s: %s" % (name, why),
                          "%s is checked with min_val=%s max_val=%s "
                          "upper_val=%s%s, but %s" % (
                              name, mn, mx, up,
                              (" under " + cond_text(conds)[:120])
                              if conds else "", why), P)
    # 24:xx guard present
    has24 = {"minute_of_hour", "second_of_minute"} <= zero24
    rep.check(has24, rule, ctx.fkey(cb, None, "24-only-24:00"), cb.loc(),
              "hour 24 forces minute and second to zero",
              "_check_bounds no longer restricts hour 24 to 24:00:00", P)
    # every field is checked on every path
    rule2 = "R22.all-fields"
    fields = ("_month_of_year", "_day_of_month", "_week_of_year",
              "_day_of_year", "_day_of_week", "_hour_of_day",
              "_minute_of_hour", "_second_of_minute")

    class P2(Plugin):
        def __init__(s):
            s.exits = []

        def eval(s, e, d):
            if e is None:
                return None
            for c in ast.walk(e):
                if isinstance(c, ast.Call) and U(c.func) == \
                        "_bounds_checker" and c.args and isinstance(
                            c.args[0], ast.Attribute):
                    d["$" + c.args[0].attr] = True
            return None

        def refine(s, test, d):
            # a field known to be None needs no check: _bounds_checker
            # accepts None (its own decision table is checked above)
            s.eval(test, d)
            t, f_ = d, dict(d)
            tt, pol = test, True
            if isinstance(tt, ast.UnaryOp) and isinstance(tt.op, ast.Not):
                tt, pol = tt.operand, False
            if isinstance(tt, ast.Compare) and len(tt.ops) == 1 and \
                    isinstance(tt.ops[0], (ast.Is, ast.IsNot)) and \
                    U(tt.comparators[0]) == "None" and isinstance(
                        tt.left, ast.Attribute) and \
                    U(tt.left.value) == cb.self_name:
                none_when_true = isinstance(tt.ops[0], ast.Is) == pol
                (t if none_when_true else f_)["$" + tt.left.attr] = True
            return [t], [f_]

        def on_return(s, st, d, v):
            s.exits.append(dict(d))
    pl = P2()
    fl = Engine(pl).run(cb.node.body, {freeze({})})
    exits = pl.exits + [thaw(s) for s in fl.normal]
    missing = set()
    for d in exits:
        for fld in fields:
            if not d.get("$" + fld):
                missing.add(fld)
    rep.check(not missing and bool(exits), rule2,
              ctx.fkey(cb, None, "all-eight-fields"), cb.loc(),
              "all eight date/time fields are bounds-checked on every path",
              "_check_bounds does not check %s on every path" %
              sorted(missing), P)
    # zone: conflicting signs refused
    z = ctx.func("data.TimeZone.__init__")
    three = False
    for c in walk_no_nested(z.node):
        if isinstance(c, ast.Call) and U(c.func) == "_bounds_checker" and \
                len(c.args) >= 2 and "minutes" in U(c.args[1]):
            kw = {k_: U(v_) for k_, v_ in ctx.bound_args(z, c).items()}
            if "min_val" in kw and "max_val" in kw:
                three = _sign_window_all(ctx, z)
    rep.check(three, rule, ctx.fkey(z, None, "sign-window"), z.loc(),
              "the minute window is narrowed by the sign of the hours "
              "(conflicting signs are refused)",
              "TimeZone.__init__ no longer checks the minutes against "
              "-(MINUTES_IN_HOUR - 1) .. MINUTES_IN_HOUR - 1, narrowed to "
              "0 on the side opposite to the sign of the hours (an offset "
              "such as -00:59 is refused, or +01:-30 / +00:60 accepted)",
              P + ("C06",))


def _sign_window_all(ctx, f):
    """The same over every `_bounds_checker(minutes, ...)` call of f taken
    together: the bounds may be chosen by the branch the call sits in
    instead of by a local or a conditional expression."""
    from ..flow import path_conds
    mins, maxs = [], []
    for c in walk_no_nested(f.node):
        if isinstance(c, ast.Call) and U(c.func) == "_bounds_checker" and \
                len(c.args) >= 2 and "minutes" in U(c.args[1]):
            kw = ctx.bound_args(f, c)
            if "min_val" not in kw or "max_val" not in kw:
                return False
            pc = list(path_conds(c))
            mins.append((kw["min_val"], pc))
            maxs.append((kw["max_val"], pc))
    if not mins:
        return False
    return _sign_window(f, None, None, mins, maxs)


def _sign_window(f, mn, mx, mins=None, maxs=None):
    """min/max variables start at -(MINUTES_IN_HOUR-1) / +(MINUTES_IN_HOUR-1)
    and are narrowed to 0 under hours > 0 / hours < 0 respectively."""
    from ..flow import alternatives, zero_relations
    hours = f.call_params[0] if f.call_params else "hours"
    # the hours have been through the integer caster: `hours >= 1` says
    # `hours > 0`
    ints = {hours} if any(
        isinstance(n, ast.Assign) and U(n.targets[0]) == hours and
        isinstance(n.value, ast.Call) and U(n.value.func) in (
            "_int_caster", "int") for n in walk_no_nested(f.node)) else ()

    from ..linear import lin

    from ..flow import expand_values

    def alts_of(name):
        # the bound as written at the call: a local (the values it takes)
        # or an expression such as `0 if hours > 0 else -limit`
        try:
            expr = name if isinstance(name, ast.AST) else ast.parse(
                name, mode="eval").body
        except SyntaxError:
            return []
        return expand_values(f.node, expr) if not isinstance(
            expr, ast.Name) else alternatives(f.node, expr.id)

    def window(name, narrowing, widest, several=None):
        if several is not None:
            alts = []
            for expr, pc in several:
                got = alts_of(expr)
                if not got:
                    return False
                alts += [(v, list(c) + pc) for v, c in got]
        else:
            alts = alts_of(name)
        if not alts:
            return False
        zero = [c for v, c in alts if U(v) == "0"]
        wide = [c for v, c in alts if "MINUTES_IN_HOUR" in U(v)]
        if len(zero) + len(wide) != len(alts) or not zero or not wide:
            return False
        # the wide bound is one short of a whole hour: |minutes| <= 59
        if any(lin(v, {}).const() != widest for v, c in alts
               if "MINUTES_IN_HOUR" in U(v)):
            return False
        # 0 exactly under `hours <narrowing> 0`; the wide bound otherwise
        # (either as the initial value or under the complementary test)
        if not all((hours, narrowing) in zero_relations(c, ints)
                   for c in zero):
            return False
        for c in wide:
            rel = {r for s_, r in zero_relations(c, ints) if s_ == hours}
            if narrowing in rel:
                return False
        return True
    return window(mn, ">", -59, mins) and window(mx, "<", 59, maxs)


# ------------------------------------------------------------------- R33
def r33_trunc_guard(ctx):
    rep = ctx.rep
    rule = "R33.truncation-guard"
    P = ("C09",)
    tp = ctx.model.cls("TimePoint")
    rep.need_anchor(rule, "arithmetic on nullable fields")
    nullable = {"_year", "_month_of_year", "_day_of_year", "_day_of_month",
                "_day_of_week", "_week_of_year", "_hour_of_day",
                "_minute_of_hour", "_second_of_minute"}
    for name, branch, label in (("__add__", "Duration", "duration-path"),
                                ("__sub__", "TimePoint", "timepoint-branch")):
        f = tp.methods[name]
        selfn = f.self_name
        # arithmetic statements of the branch
        arith = []
        for n in walk_no_nested(f.node):
            if isinstance(n, ast.AugAssign) and isinstance(
                    n.target, ast.Attribute) and n.target.attr in nullable:
                arith.append(n)
            if isinstance(n, ast.BinOp) and isinstance(
                    n.op, (ast.Sub, ast.Add)) and any(
                        isinstance(x, ast.Name) and "day_of_year" in x.id
                        for x in (n.left, n.right)):
                arith.append(n)
        if name == "__sub__":
            arith = [a for a in arith if isinstance(a, ast.BinOp)]
        else:
            arith = [a for a in arith if isinstance(a, ast.AugAssign)]
        if not arith:
            rep.error("R33", "%s: arithmetic on date/time fields not found"
                      % f.qual)
            continue
        rep.anchor(rule, "arithmetic on nullable fields")
        first = min(arith, key=npos)
        guarded = False
        for n in walk_no_nested(f.node):
            if isinstance(n, ast.If) and npos(n) < npos(first) and \
                    "_truncated" in U(n.test) and _all_paths_leave(n.body):
                # must dominate: a preceding sibling in a block that
                # encloses the arithmetic
                anc = [f.node] + list(ancestors(first))
                if not any(parent(n) is a for a in anc):
                    continue
                guarded = True
        rep.check(
            guarded, rule, ctx.fkey(f, None, label +
                                    ":no-truncation-guard"), f.loc(first),
            "arithmetic on nullable fields is dominated by a truncation "
            "guard",
            "%s (%s) does arithmetic on date/time fields that are None for "
            "a truncated operand, with no dominating `_truncated` guard; "
            "parser results may be truncated and TimeRecurrence.__init__ "
            "applies +, - to them: TypeError leaves "
            "TimeRecurrenceParser.parse" % (f.qual, label), P)


def _r20_float_to_int(ctx):
    """int() of a float taken from text can raise OverflowError (the text
    '1e999' is a float, infinity) - which is not a ValueError.  In the
    parsers no int() is applied to a value that went through float(),
    unless a handler for OverflowError / ArithmeticError encloses it."""
    rep = ctx.rep
    rule = "R20.raise"
    for f in ctx.model.all_functions():
        if f.module.name != "parsers":
            continue
        floats = set()
        for n in walk_no_nested(f.node):
            if isinstance(n, ast.Assign) and any(
                    isinstance(c, ast.Call) and U(c.func) == "float"
                    for c in ast.walk(n.value)):
                for t in n.targets:
                    if isinstance(t, ast.Name):
                        floats.add(t.id)
        for n in walk_no_nested(f.node):
            if not (isinstance(n, ast.Call) and U(n.func) == "int" and
                    len(n.args) == 1):
                continue
            a = n.args[0]
            from_float = any(isinstance(c, ast.Call) and U(c.func) == "float"
                             for c in ast.walk(a))
            if isinstance(a, ast.Name) and a.id in floats:
                # the values that reach this use (not any float() stored
                # under the same name in another branch)
                from .zone import defs_before
                reach = defs_before(f, a.id, n)
                from_float = bool(reach) and any(
                    isinstance(c, ast.Call) and U(c.func) == "float"
                    for d_ in reach for c in ast.walk(d_.value))
            if not from_float:
                continue
            guarded = False
            cur = parent(n)
            while cur is not None and cur is not f.node:
                if isinstance(cur, ast.Try):
                    for h in cur.handlers:
                        names = U(h.type) if h.type is not None else \
                            "BaseException"
                        if any(k in names for k in (
                                "OverflowError", "ArithmeticError",
                                "Exception", "BaseException")):
                            guarded = True
                cur = parent(cur)
            rep.check(guarded, rule, ctx.fkey(f, n, "int-of-float"),
                      f.loc(n), "int() of a parsed float is guarded "
                      "against OverflowError",
                      "%s applies int() to `%s`, a float read from the "
                      "text: for a component such as 1e999 (float "
                      "infinity) int() raises OverflowError, which is not "
                      "derived from ValueError - malformed text must be "
                      "refused with a ValueError-derived error" % (
                          f.qual, U(a)[:40]), ("C09",))


_r20_orig = r20_exc_flow


def r20_exc_flow(ctx):      # noqa: F811
    _r20_orig(ctx)
    _r20_float_to_int(ctx)


RULES = {"R20": r20_exc_flow, "R21": r21_guard_bypass, "R22": r22_bound_kind,
         "R33": r33_trunc_guard}


# ------------------------------------------------------------------- R53
_STR_METHODS = {"startswith", "endswith", "split", "rsplit", "strip", "lstrip",
                "rstrip", "replace", "splitlines", "upper", "lower",
                "partition", "rpartition", "find", "index"}


def r53_string_index_guard(ctx):
    """Text handed to the parsers, the dumper and the command line may be
    empty (a date followed by a bare `T`, an empty offset): indexing a string
    with a constant position raises IndexError - not a ValueError - unless
    the path has established that the string is not empty (its truthiness,
    a startswith/endswith/`in` test, a length test)."""
    rep = ctx.rep
    rule = "R53.string-index-guard"
    P = ("C09",)
    from ..flow import path_conds
    rep.need_anchor(rule, "functions")
    n_f = 0
    sites = 0
    for f in ctx.model.all_functions():
        if f.module.name not in ("parsers", "dumpers", "datetimeoper",
                                 "main", "parser_spec"):
            continue
        n_f += 1
        strlike = set()
        for n in walk_no_nested(f.node):
            if isinstance(n, ast.Call) and isinstance(
                    n.func, ast.Attribute) and n.func.attr in _STR_METHODS \
                    and isinstance(n.func.value, ast.Name):
                strlike.add(n.func.value.id)
        for n in walk_no_nested(f.node):
            if not (isinstance(n, ast.Subscript) and isinstance(
                    n.ctx, ast.Load) and isinstance(n.slice, (
                        ast.Constant, ast.UnaryOp)) and isinstance(
                            n.value, ast.Name)):
                continue
            try:
                idx = ast.literal_eval(n.slice)
            except Exception:
                continue
            if not isinstance(idx, int) or isinstance(idx, bool):
                continue
            nm = n.value.id
            try:
                ts = set(ctx.types_in(f, n.value))
            except Exception:
                ts = set()
            is_str = ("str" in ts and ts <= {"str", "None"}) or (
                nm in strlike and not (ts & {"list", "tuple", "dict"}))
            if not is_str:
                continue
            sites += 1
            guarded = False
            for t, pol in path_conds(n):
                tt = U(t)
                if not pol:
                    if tt in ("not " + nm,) or re.fullmatch(
                            r"len\(%s\) (==|<|<=) \d+" % re.escape(nm), tt):
                        guarded = True
                    continue
                if tt == nm or re.search(
                        r"\b%s\.(startswith|endswith)\(" % re.escape(nm),
                        tt) or re.search(
                            r"^'.+' in %s\b" % re.escape(nm), tt) or \
                        re.search(r"len\(%s\) (>|>=|==) [1-9]" %
                                  re.escape(nm), tt):
                    guarded = True
            # a BoolOp guard inside the same test: `s and s[0] == ...`
            rep.check(guarded, rule, ctx.fkey(f, n, "non-empty"), f.loc(n),
                      "%s is indexed only where it is known to be "
                      "non-empty" % nm,
                      "%s indexes the string `%s` at a constant position "
                      "with nothing on the path showing it is non-empty: an "
                      "empty text (e.g. a date followed by a bare 'T') "
                      "raises IndexError, which is not a ValueError" % (
                          f.qual, U(n)), P)
    rep.anchor(rule, "functions", n_f)
    rep.ok(rule, "package:string-indexing", "-",
           "%d constant-position string indexings examined in %d functions"
           % (sites, n_f), P, nontrivial=False)


RULES["R53"] = r53_string_index_guard


# ------------------------------------------------------------------- R54
def r54_year_bounds_inclusive(ctx):
    """The dumper refuses a year only outside the closed range its format
    can hold (0..9999, or +-10**(4+n) - 1 with n expanded digits): both
    ends are representable, so the refusal test must be inclusive at both
    ends."""
    rep = ctx.rep
    rule = "R54.year-bounds-inclusive"
    P = ("C17", "C08")
    from ..flow import path_conds
    f = ctx.try_func(
        "dumpers.TimePointDumper._dump_expression_with_properties")
    rep.need_anchor(rule, "year bounds refusal")
    if f is None:
        raise AnalysisError("TimePointDumper._dump_expression_with_"
                            "properties not found")
    raises = [n for n in walk_no_nested(f.node) if isinstance(n, ast.Raise)
              and n.exc is not None and "BoundsError" in U(n.exc)]
    if not raises:
        rep.error("R54", "no TimePointDumperBoundsError raise found in %s" %
                  f.qual)
        return
    for r in raises:
        rep.anchor(rule, "year bounds refusal")
        conds = path_conds(r)
        verdict, why = None, ""
        for t, pol in conds:
            tt = U(t)
            if "range(" in tt:
                m = re.search(r"range\(([^,]+), (.+)\)", tt)
                hi = m.group(2) if m else ""
                incl = re.search(r"\+ 1\)?$", hi) is not None
                verdict = incl
                why = "membership in %s" % tt
                break
            inner = t
            neg = False
            if isinstance(inner, ast.UnaryOp) and isinstance(inner.op,
                                                             ast.Not):
                inner, neg = inner.operand, True
            if isinstance(inner, ast.Compare) and len(inner.ops) == 2:
                # refused when `not (lo <= v <= hi)`
                ops = [type(o) for o in inner.ops]
                if (neg and pol) or (not neg and not pol):
                    verdict = ops == [ast.LtE, ast.LtE]
                    why = tt
                    break
            if isinstance(inner, ast.BoolOp) and isinstance(
                    inner.op, ast.Or) and pol and not neg:
                ops = [type(v.ops[0]) for v in inner.values
                       if isinstance(v, ast.Compare) and len(v.ops) == 1]
                if len(ops) == 2:
                    verdict = set(ops) <= {ast.Lt, ast.Gt}
                    why = tt
                    break
        key = ctx.fkey(f, None, "inclusive")
        if verdict is None:
            rep.undecided(rule, key, f.loc(r), "the year bounds refusal is "
                          "guarded by %s, a form this rule does not read" %
                          [U(t) for t, _ in conds][:2], P)
        else:
            rep.check(verdict, rule, key, f.loc(r),
                      "a year is refused only outside the closed range "
                      "[min, max]",
                      "the year bounds refusal (%s) excludes a bound that "
                      "the format can represent: the year 9999 (or the "
                      "largest expanded year) cannot be written" % why, P)


RULES["R54"] = r54_year_bounds_inclusive
