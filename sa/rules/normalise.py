"""R09 CARRY-AGREE, R10 FIELD-LEN, R11 LEAP-POLARITY (C01, C03, C05, C06, C09,
C20)."""
import ast

from ..model import AnalysisError, U, walk_no_nested, parent, ancestors, npos

DATE_FIELDS = ("_day_of_year", "_week_of_year", "_day_of_month",
               "_month_of_year", "_day_of_week")


# ---------------------------------------------------------------- utilities
def tp_slots(ctx):
    return list(ctx.folder.need_class_const(ctx.model.cls("TimePoint"),
                                            "__slots__"))


def is_tp_attr(ctx, f, node, attrs=None):
    """node is X.<slot> with X : TimePoint."""
    if not isinstance(node, ast.Attribute):
        return False
    if attrs is not None and node.attr not in attrs:
        return False
    return "TimePoint" in ctx.types_in(f, node.value)


def calendar_attr(ctx, f, node):
    """Name of the Calendar attribute an expression reads (through a
    subscript), else None."""
    n = node
    while isinstance(n, ast.Subscript):
        n = n.value
    if isinstance(n, ast.Attribute) and n.attr.isupper() or (
            isinstance(n, ast.Attribute) and n.attr.replace("_", "").isupper()):
        ts = ctx.types_in(f, n.value)
        if "Calendar" in ts or "class:Calendar" in ts:
            return n.attr
    return None


def local_defs(f, name):
    out = []
    for n in walk_no_nested(f.node):
        if isinstance(n, ast.Assign):
            for t in n.targets:
                if isinstance(t, ast.Name) and t.id == name:
                    out.append((n, n.value))
                elif isinstance(t, (ast.Tuple, ast.List)):
                    for i, x in enumerate(t.elts):
                        if isinstance(x, ast.Name) and x.id == name:
                            out.append((n, ("elt", i, n.value)))
    return out


def callee_quals(ctx, f, call):
    r = ctx.in_func(f, call)
    return [c.qual for c in r.callees_of_call(call)]


def length_sources(ctx, f, expr, depth=0, seen=None):
    """Where does a bound come from?  -> set of ("helper", qual) /
    ("attr", NAME) / ("const", value) / ("?", text); and the set of governing
    condition expressions and argument expressions that feed it."""
    seen = seen if seen is not None else set()
    srcs, feeds = set(), []
    if isinstance(expr, ast.Call):
        qs = [q for q in callee_quals(ctx, f, expr)]
        if qs:
            for q in qs:
                srcs.add(("helper", q))
            feeds.extend(expr.args)
            feeds.extend(k.value for k in expr.keywords)
            return srcs, feeds
        if isinstance(expr.func, ast.Name) and expr.func.id in (
                "int", "float", "abs") and expr.args:
            return length_sources(ctx, f, expr.args[0], depth, seen)
        return {("?", U(expr))}, feeds
    ca = calendar_attr(ctx, f, expr)
    if ca is not None:
        srcs.add(("attr", ca))
        n = expr
        while isinstance(n, ast.Subscript):
            feeds.append(n.slice)
            n = n.value
        return srcs, feeds
    if isinstance(expr, ast.Constant):
        return {("const", expr.value)}, feeds
    if isinstance(expr, ast.Name):
        if (f.qual, expr.id) in seen or depth > 4:
            return set(), feeds
        seen.add((f.qual, expr.id))
        defs = local_defs(f, expr.id)
        if not defs:
            return {("?", expr.id)}, feeds
        for st, val in defs:
            if isinstance(val, tuple):
                srcs.add(("?", expr.id))
                continue
            s2, f2 = length_sources(ctx, f, val, depth + 1, seen)
            srcs |= s2
            feeds.extend(f2)
            for a in ancestors(st):
                if a is f.node:
                    break
                if isinstance(a, (ast.If, ast.While)):
                    feeds.append(a.test)
        return srcs, feeds
    if isinstance(expr, ast.IfExp):
        s1, f1 = length_sources(ctx, f, expr.body, depth, seen)
        s2, f2 = length_sources(ctx, f, expr.orelse, depth, seen)
        return s1 | s2, f1 + f2 + [expr.test]
    if isinstance(expr, ast.BinOp) and isinstance(
            expr.op, (ast.FloorDiv, ast.Div)):
        # a quotient by a length is a carry (a count of the next unit), not
        # a bound of the field it is added to
        return set(), feeds
    if isinstance(expr, ast.BinOp):
        # e.g. CALENDAR.HOURS_IN_DAY - 1
        s1, f1 = length_sources(ctx, f, expr.left, depth, seen)
        s2, f2 = length_sources(ctx, f, expr.right, depth, seen)
        return s1 | s2, f1 + f2
    return {("?", U(expr))}, feeds


def feed_bases(ctx, f, feeds, depth=0, seen=None):
    """Base expressions (as text) of every TimePoint slot read that feeds a
    bound, following locals."""
    seen = seen if seen is not None else set()
    bases = set()

    def visit(n):
        if isinstance(n, ast.Attribute) and n.attr.startswith("_") and \
                is_tp_attr(ctx, f, n):
            bases.add(U(n.value))
            return
        if isinstance(n, ast.Name) and isinstance(n.ctx, ast.Load):
            ts = ctx.types_in(f, n)
            if "TimePoint" in ts:
                return
            if (f.qual, n.id) not in seen and depth < 4:
                seen.add((f.qual, n.id))
                for st, val in local_defs(f, n.id):
                    if isinstance(val, tuple):
                        val = val[2]
                    bases.update(feed_bases(ctx, f, [val], depth + 1, seen))
            return
        for c in ast.iter_child_nodes(n):
            visit(c)
    for e in feeds:
        visit(e)
    return bases


def helper_attr_classes(ctx):
    """For each length helper reachable from _check_bounds: the Calendar
    attributes it may return (through its memoised implementation)."""
    out = {}
    for f in ctx.model.all_functions():
        if f.cls is not None:
            continue
        attrs = set()
        todo, seen = [f], set()
        while todo:
            g = todo.pop()
            if g.qual in seen:
                continue
            seen.add(g.qual)
            for n in walk_no_nested(g.node):
                if isinstance(n, ast.Return) and n.value is not None:
                    ca = calendar_attr(ctx, g, n.value)
                    if ca:
                        attrs.add(ca)
                    elif isinstance(n.value, ast.Call):
                        for q in callee_quals(ctx, g, n.value):
                            h = ctx.model.functions.get(q)
                            if h is not None and h.cls is None and \
                                    h.name.lstrip("_") == g.name.lstrip("_"):
                                todo.append(h)
        if attrs:
            out[f.qual] = attrs
    return out


def field_length_table(ctx):
    """Derived from TimePoint._check_bounds: field -> set of length sources."""
    if "fieldlen" in ctx.cache:
        return ctx.cache["fieldlen"]
    f = ctx.func("data.TimePoint._check_bounds")
    hclasses = helper_attr_classes(ctx)
    table = {}
    calls = []
    for n in walk_no_nested(f.node):
        if isinstance(n, ast.Call) and isinstance(n.func, ast.Name) and \
                n.func.id == "_bounds_checker" and n.args:
            fld = n.args[0]
            if not (isinstance(fld, ast.Attribute) and is_tp_attr(
                    ctx, f, fld)):
                continue
            kw = {k.arg: k.value for k in n.keywords}
            pos = list(n.args[2:])
            bound = kw.get("max_val") or kw.get("upper_val") or (
                pos[1] if len(pos) > 1 else None)
            calls.append((n, fld.attr, kw, bound))
            if bound is None:
                continue
            srcs, feeds = length_sources(ctx, f, bound)
            ent = table.setdefault(fld.attr, set())
            for kind, v in srcs:
                if kind == "helper":
                    ent.add(("helper", v.split(".")[-1]))
                    for a in hclasses.get(v, ()):
                        ent.add(("attr", a))
                elif kind == "attr":
                    ent.add(("attr", v))
    ctx.cache["fieldlen"] = (table, calls, hclasses)
    return ctx.cache["fieldlen"]


def norm_src(src, hclasses):
    kind, v = src
    if kind == "helper":
        return ("helper", v.split(".")[-1])
    return src


# -------------------------------------------------------------------- R11
def _leap_atoms(ctx, f, test, leapvars):
    """[(node, positive?)] for leap atoms inside a condition."""
    out = []

    def rec(e, pos):
        if isinstance(e, ast.BoolOp):
            for v in e.values:
                rec(v, pos)
        elif isinstance(e, ast.UnaryOp) and isinstance(e.op, ast.Not):
            rec(e.operand, not pos)
        elif isinstance(e, ast.Call):
            if any(q.endswith(".get_is_leap_year")
                   for q in callee_quals(ctx, f, e)):
                out.append((e, pos))
        elif isinstance(e, ast.Name) and e.id in leapvars:
            out.append((e, pos))
        elif isinstance(e, ast.Compare) and len(e.ops) == 1 and isinstance(
                e.comparators[0], ast.Constant) and \
                e.comparators[0].value == "leap":
            if isinstance(e.ops[0], ast.Eq):
                out.append((e, pos))
            elif isinstance(e.ops[0], ast.NotEq):
                out.append((e, not pos))
    rec(test, True)
    return out


def _leap_vars(ctx, f):
    """Locals/params of f that hold a leap flag."""
    out = set()
    for n in walk_no_nested(f.node):
        if isinstance(n, ast.Assign) and isinstance(n.value, ast.Call) and \
                any(q.endswith(".get_is_leap_year")
                    for q in callee_quals(ctx, f, n.value)):
            for t in n.targets:
                if isinstance(t, ast.Name):
                    out.add(t.id)
    # parameters bound to a leap flag at every call site
    callers = [(q, e) for q, e in ctx.res.callers_of(f.qual)
               if e.kind == "call"]
    if callers:
        params = f.call_params
        for idx, p in enumerate(params):
            allflag = True
            for q, e in callers:
                g = ctx.model.functions.get(q)
                call = e.node
                arg = call.args[idx] if idx < len(call.args) else None
                for k in call.keywords:
                    if k.arg == p:
                        arg = k.value
                if g is None or arg is None:
                    allflag = False
                    break
                if isinstance(arg, ast.Name):
                    if arg.id not in _leap_vars_local(ctx, g):
                        allflag = False
                        break
                elif not (isinstance(arg, ast.Call) and any(
                        q2.endswith(".get_is_leap_year")
                        for q2 in callee_quals(ctx, g, arg))):
                    allflag = False
                    break
            if allflag:
                out.add(p)
    return out


def _leap_vars_local(ctx, f):
    out = set()
    for n in walk_no_nested(f.node):
        if isinstance(n, ast.Assign) and isinstance(n.value, ast.Call) and \
                any(q.endswith(".get_is_leap_year")
                    for q in callee_quals(ctx, f, n.value)):
            for t in n.targets:
                if isinstance(t, ast.Name):
                    out.add(t.id)
    return out


def _cal_attrs_in(ctx, f, nodes):
    out = []
    for st in nodes:
        for n in ast.walk(st):
            if isinstance(n, ast.Attribute) and isinstance(n.ctx, ast.Load):
                ca = calendar_attr(ctx, f, n)
                if ca is not None and not isinstance(parent(n),
                                                     ast.Attribute):
                    out.append((ca, n))
    return out


def r11_leap_polarity(ctx):
    rep = ctx.rep
    rule = "R11.leap-polarity"
    props_all = ("C01", "C03", "C05", "C06", "C09")
    rep.need_anchor(rule, "leap-selected tables")
    cal = ctx.model.cls("Calendar")
    facts_attrs = set(cal.attrs) | {a for a in _assigned_in_set_mode(ctx)}
    pairs = {a for a in facts_attrs if (a + "_LEAP") in facts_attrs}
    for f in ctx.model.all_functions():
        if f.cls is cal:
            continue
        leapvars = _leap_vars(ctx, f)
        # a flag that holds "the year is leap" holds nothing else: every
        # other binding of the same name is leap-derived too, or is the
        # constant for "no year given" under a None test of a year
        local_flags = _leap_vars_local(ctx, f)
        for n in walk_no_nested(f.node):
            if not (isinstance(n, ast.Assign) and len(n.targets) == 1 and
                    isinstance(n.targets[0], ast.Name) and
                    n.targets[0].id in local_flags):
                continue
            v = n.value
            leapish = any(
                (isinstance(x, ast.Call) and any(
                    q.endswith(".get_is_leap_year")
                    for q in callee_quals(ctx, f, x))) or
                (isinstance(x, ast.Name) and x.id in leapvars and
                 x.id != n.targets[0].id) for x in ast.walk(v))
            if leapish:
                continue
            from ..flow import path_conds
            conds = path_conds(n)
            none_year = any(
                isinstance(t, ast.Compare) and len(t.ops) == 1 and
                isinstance(t.ops[0], (ast.Is, ast.IsNot)) and
                "year" in U(t.left) for t, _ in conds)
            first = not any(
                isinstance(m, ast.Assign) and isinstance(
                    m.targets[0], ast.Name) and
                m.targets[0].id == n.targets[0].id and m is not n and
                npos(m) < npos(n)
                for m in walk_no_nested(f.node))
            rep.anchor(rule, "leap-selected tables")
            rep.check(
                none_year or (first and isinstance(v, ast.Constant) and
                              not conds), rule,
                ctx.fkey(f, n, "flag-override"), f.loc(n),
                "the default of the leap flag %s" % n.targets[0].id,
                "%s re-binds the leap flag `%s` to %s%s: from there on the "
                "flag no longer says whether the year is leap, and whatever "
                "it selects (month table, cache entry) is the common-year "
                "one for a leap year" % (
                    f.qual, n.targets[0].id, U(v)[:40],
                    (" when " + " and ".join(
                        ("" if pol else "not ") + U(t)[:50]
                        for t, pol in conds)) if conds else ""),
                _props_for(f) + ("C12", "C15"))
        # a function that chooses between a table and its _LEAP partner by
        # a leap test reads those tables nowhere else: a read outside the
        # selection serves leap and common years alike
        selected = set()        # ids of attribute nodes inside a selection
        sel_tables = set()
        for n in walk_no_nested(f.node):
            if not isinstance(n, (ast.If, ast.IfExp)):
                continue
            atoms_ = _leap_atoms(ctx, f, n.test, leapvars)
            if not atoms_:
                continue
            if isinstance(n, ast.IfExp):
                tb_, fb_ = [n.body], [n.orelse]
            else:
                tb_ = n.body
                fb_, _k = _false_branch(f, n)
            for a, x in _cal_attrs_in(ctx, f, list(tb_) + list(fb_)):
                if a in pairs or a[:-5] in pairs:
                    selected.add(id(x))
                    sel_tables.add(a[:-5] if a.endswith("_LEAP") else a)
        if sel_tables:
            for a, x in _cal_attrs_in(ctx, f, [f.node]):
                stem = a[:-5] if a.endswith("_LEAP") else a
                if stem in sel_tables and id(x) not in selected:
                    # where there is no year there is nothing to test: the
                    # common-year table under `year is None` is the contract
                    from ..flow import path_conds as _pc2
                    if not a.endswith("_LEAP") and any(
                            isinstance(t, ast.Compare) and len(t.ops) == 1
                            and ((isinstance(t.ops[0], ast.Is) and pol) or
                                 (isinstance(t.ops[0], ast.IsNot) and
                                  not pol)) and "year" in U(t.left) and
                            U(t.comparators[0]) == "None"
                            for t, pol in _pc2(x)):
                        continue
                    rep.anchor(rule, "leap-selected tables")
                    rep.violation(
                        rule, ctx.fkey(f, x, "outside-selection"),
                        f.loc(x),
                        "%s chooses between %s and %s_LEAP by a leap test "
                        "but also reads %s outside that choice (%s): there "
                        "the same table serves leap and common years" % (
                            f.qual, stem, stem, a, f.loc(x)),
                        _props_for(f) + ("C02", "C12", "C15"))
        for n in walk_no_nested(f.node):
            test = None
            if isinstance(n, ast.If):
                test = n.test
            elif isinstance(n, ast.IfExp):
                test = n.test
            if test is None:
                continue
            atoms = _leap_atoms(ctx, f, test, leapvars)
            if not atoms:
                continue
            pols = {p for _, p in atoms}
            if len(pols) != 1:
                rep.error("R11", "%s: leap test %s mixes polarities" % (
                    f.loc(n), U(test)))
                continue
            positive = pols.pop()
            if isinstance(n, ast.IfExp):
                tb, fb = [n.body], [n.orelse]
                fb_kind = "else"
            else:
                tb = n.body
                fb, fb_kind = _false_branch(f, n)
            t_attrs = [(a, x) for a, x in _cal_attrs_in(ctx, f, tb)
                       if a in pairs or a[:-5] in pairs]
            f_attrs = [(a, x) for a, x in _cal_attrs_in(ctx, f, fb)
                       if a in pairs or a[:-5] in pairs]
            if not t_attrs and not f_attrs:
                # a leap-year test that selects no table: does the function
                # read a common-year table whose leap partner it ignores?
                every = [a for a, x in _cal_attrs_in(ctx, f, [f.node])]
                lonely = sorted({a for a in every if a in pairs and
                                 (a + "_LEAP") not in every})
                if lonely:
                    rep.anchor(rule, "leap-selected tables")
                    rep.violation(
                        rule, ctx.fkey(f, test, "ignores-leap-table"),
                        f.loc(n),
                        "%s tests for a leap year but reads only %s and "
                        "never %s: the leap-year lengths of the active "
                        "calendar mode are replaced by hard-wired "
                        "arithmetic (wrong for the 360/365/366-day "
                        "calendars, whose leap tables equal their common "
                        "ones)" % (f.qual, lonely, [a + "_LEAP"
                                                    for a in lonely]),
                        _props_for(f) + ("C15",))
                else:
                    rep.anchor(rule, "leap-selected tables")
                    rep.violation(
                        rule, ctx.fkey(f, test, "unpaired-leap-test"),
                        f.loc(n),
                        "%s lets a leap-year test (%s) decide something "
                        "other than the choice between a calendar table and "
                        "its _LEAP partner: the leap rule is the Gregorian "
                        "one in every calendar mode, and only that choice is "
                        "neutral in the 360/365/366-day calendars (their "
                        "leap tables equal their common ones)" % (
                            f.qual, U(test)[:70]),
                        _props_for(f) + ("C15", "C03"))
                continue
            if not positive:
                t_attrs, f_attrs = f_attrs, t_attrs
            # t_attrs: used when the year IS leap
            props = _props_for(f)
            rep.anchor(rule, "leap-selected tables")
            key = ctx.fkey(f, test, "polarity")
            bad = []
            for a, x in t_attrs:
                if not a.endswith("_LEAP"):
                    bad.append("leap-year branch reads %s (%s)" % (
                        a, f.loc(x)))
            for a, x in f_attrs:
                if a.endswith("_LEAP"):
                    bad.append("common-year branch reads %s (%s)" % (
                        a, f.loc(x)))
            if not f_attrs and fb_kind == "none":
                bad.append("no common-year alternative found for the leap "
                           "selection")
            stems_t = {a[:-5] for a, _ in t_attrs if a.endswith("_LEAP")}
            stems_f = {a for a, _ in f_attrs if not a.endswith("_LEAP")}
            if not bad and stems_t and stems_f and stems_t != stems_f:
                bad.append("branches select unrelated tables %s / %s" % (
                    sorted(stems_t), sorted(stems_f)))
            rep.check(not bad, rule, key, f.loc(n),
                      "leap test selects %s for leap years and %s otherwise"
                      % (sorted({a for a, _ in t_attrs}),
                         sorted({a for a, _ in f_attrs})),
                      "; ".join(bad), props)


def _assigned_in_set_mode(ctx):
    from .calendar_mode import calendar_facts
    return calendar_facts(ctx)["assigned_names"]


def _false_branch(f, ifnode):
    """Statements that run when the test is false: else-branch; or, when the
    true branch leaves (return), the following siblings; or, for the
    override idiom (`x = A` before, `if leap: x = B`), the preceding
    assignment to the same target."""
    if ifnode.orelse:
        return ifnode.orelse, "else"
    p = parent(ifnode)
    for field in ("body", "orelse", "finalbody"):
        seq = getattr(p, field, None)
        if isinstance(seq, list) and any(s is ifnode for s in seq):
            idx = [i for i, s in enumerate(seq) if s is ifnode][0]
            if ifnode.body and isinstance(ifnode.body[-1], (ast.Return,
                                                            ast.Raise)):
                rest = list(seq[idx + 1:])
                # last statement of an enclosing `if` without else: control
                # falls out of that one too
                cur, up = ifnode, p
                while not rest and isinstance(up, ast.If) and \
                        not up.orelse and up.body and up.body[-1] is cur:
                    cur, up = up, parent(up)
                    for fld2 in ("body", "orelse", "finalbody"):
                        seq2 = getattr(up, fld2, None)
                        if isinstance(seq2, list) and any(
                                s is cur for s in seq2):
                            i2 = [i for i, s in enumerate(seq2)
                                  if s is cur][0]
                            rest = list(seq2[i2 + 1:])
                return rest, "fallthrough"
            targets = set()
            for st in ifnode.body:
                if isinstance(st, ast.Assign):
                    for t in st.targets:
                        targets.add(U(t))
            prev = []
            for st in seq[:idx][::-1]:
                if isinstance(st, ast.Assign) and any(
                        U(t) in targets for t in st.targets):
                    prev.append(st)
                    targets -= {U(t) for t in st.targets}
                if not targets:
                    break
            if prev:
                return prev, "override"
    return [], "none"


def _props_for(f):
    name = f.qual
    if "add_months" in name:
        return ("C05",)
    if name.endswith("TimePoint.__add__"):
        return ("C05",)
    if "_tick_over_day_of_month" in name:
        return ("C01", "C05", "C06")
    if "_check_bounds" in name:
        return ("C09",)
    return ("C03", "C01", "C05", "C09")


# -------------------------------------------------------------------- R10
def r10_field_len(ctx):
    rep = ctx.rep
    rule = "R10.field-len"
    table, calls, hclasses = field_length_table(ctx)
    rep.need_anchor(rule, "_check_bounds table")
    rep.need_anchor(rule, "comparison/assignment sites")
    cb = ctx.func("data.TimePoint._check_bounds")
    for fld in ("_day_of_year", "_week_of_year", "_day_of_month",
                "_month_of_year", "_day_of_week"):
        if fld in table and table[fld]:
            rep.anchor(rule, "_check_bounds table")
    # every source that is some field's length
    owner = {}
    for fld, srcs in table.items():
        for s in srcs:
            owner.setdefault(s, set()).add(fld)
    for s_, flds in sorted(owner.items()):
        rep.check(
            len(flds) == 1, rule,
            ctx.fkey(cb, None, "length-owner:%s" % s_[1]), cb.loc(),
            "%s is the length of exactly one field (%s)" % (
                s_[1], sorted(flds)[0]),
            "_check_bounds bounds the different fields %s by the same "
            "length %s: at most one of them can be that length's field" % (
                sorted(flds), s_[1]), ("C09",))
    tp = ctx.model.cls("TimePoint")
    for f in ctx.model.all_functions():
        if f.cls is not tp and f.module.name != "data":
            continue
        for n in walk_no_nested(f.node):
            sites = []      # (field attr node, bound expr, kind)
            if isinstance(n, ast.Compare) and len(n.ops) == 1 and isinstance(
                    n.ops[0], (ast.Lt, ast.LtE, ast.Gt, ast.GtE)):
                a, b = n.left, n.comparators[0]
                if is_tp_attr(ctx, f, a, DATE_FIELDS):
                    sites.append((a, b, "compare"))
                elif is_tp_attr(ctx, f, b, DATE_FIELDS):
                    sites.append((b, a, "compare"))
            elif isinstance(n, ast.Assign) and len(n.targets) == 1 and \
                    is_tp_attr(ctx, f, n.targets[0], DATE_FIELDS):
                sites.append((n.targets[0], n.value, "assign"))
            elif isinstance(n, ast.AugAssign) and is_tp_attr(
                    ctx, f, n.target, DATE_FIELDS):
                sites.append((n.target, n.value, "augassign"))
            elif isinstance(n, ast.Call) and isinstance(n.func, ast.Name) \
                    and n.func.id == "_bounds_checker" and f is cb:
                for c, fldname, kw, bound in calls:
                    if c is n and bound is not None:
                        sites.append((n.args[0], bound, "bounds"))
            for fldnode, bound, kind in sites:
                srcs, feeds = length_sources(ctx, f, bound)
                lens = set()
                for s in srcs:
                    ns = norm_src(s, hclasses)
                    if ns in owner:
                        lens.add(ns)
                if not lens:
                    continue
                rep.anchor(rule, "comparison/assignment sites")
                fld = fldnode.attr
                props = _r10_props(f, fld)
                key = ctx.fkey(f, n if not isinstance(n, ast.Call) else None,
                               "%s:%s" % (kind, fld))
                if isinstance(n, ast.Call):
                    key = ctx.fkey(f, None, "bounds:%s:%s" % (fld, U(bound)))
                wrong = [s for s in lens if fld not in owner[s]]
                rep.check(
                    not wrong, rule, key, f.loc(n),
                    "%s is bounded by its own length (%s)" % (
                        fld, sorted(v for _, v in lens)),
                    "%s is compared with / assigned from %s, which "
                    "_check_bounds uses as the length of %s, not of %s" % (
                        fld, sorted(v for _, v in wrong),
                        sorted(set().union(*[owner[s] for s in wrong])), fld),
                    props)
                # same object's year / month feed the bound
                bases = feed_bases(ctx, f, feeds)
                own = U(fldnode.value)
                rep.check(
                    bases <= {own}, rule, key + ":same-object", f.loc(n),
                    "the length is computed from the year/month of the same "
                    "object (%s)" % own,
                    "the length bounding %s.%s is computed from fields of %s "
                    "(stale or foreign year/month)" % (
                        own, fld, sorted(bases - {own})), props)
    # the table itself: each field bounded by a length in _check_bounds on
    # every path is R17's job; here we record the derived table
    rep.ok(rule, ctx.fkey(cb, None, "derived-table"), cb.loc(),
           "field/length table derived from _check_bounds: %s" % {
               k: sorted(v2 for _, v2 in v) for k, v in table.items()},
           ("C09", "C01", "C05"), nontrivial=True)


def _r10_props(f, fld):
    q = f.qual
    if q.endswith("_check_bounds"):
        return ("C09",)
    if q.endswith("add_months"):
        return ("C05",)
    if q.endswith("TimePoint.__add__"):
        return ("C05",)
    if q.endswith("_tick_over_day_of_month"):
        return ("C01", "C05", "C06", "C02", "C04")
    if q.endswith("_tick_over"):
        # the normaliser also runs under every re-zoning, which feeds
        # comparison (C02) and subtraction (C04)
        # ... and under every dump with a literal zone (C08)
        if fld in ("_day_of_year", "_week_of_year"):
            return ("C01", "C06", "C20", "C02", "C04", "C08")
        return ("C01", "C05", "C06", "C02", "C04", "C08")
    return ("C01", "C05", "C09")


# -------------------------------------------------------------------- R09
def _self_attr(node, selfn):
    return (isinstance(node, ast.Attribute) and isinstance(
        node.value, ast.Name) and node.value.id == selfn)


def r09_carry_agree(ctx):
    rep = ctx.rep
    rule = "R09.carry-amount"
    f = ctx.func("data.TimePoint._tick_over")
    selfn = f.self_name
    table, calls, hclasses = field_length_table(ctx)
    rep.need_anchor(rule, "carry/borrow loops")
    loops = [n for n in walk_no_nested(f.node) if isinstance(n, ast.While)]
    for loop in loops:
        t = loop.test
        if not (isinstance(t, ast.Compare) and len(t.ops) == 1):
            continue
        left, op, right = t.left, t.ops[0], t.comparators[0]
        if not _self_attr(left, selfn):
            if _self_attr(right, selfn):
                left, right = right, left
                op = {ast.Lt: ast.Gt, ast.Gt: ast.Lt, ast.LtE: ast.GtE,
                      ast.GtE: ast.LtE}[type(op)]()
            else:
                continue
        fld = left.attr
        if fld not in DATE_FIELDS:
            continue
        rep.anchor(rule, "carry/borrow loops")
        props = _r10_props(f, fld)
        is_carry = isinstance(op, (ast.Gt, ast.GtE))
        key = ctx.fkey(f, loop, "amount")
        # walk the body symbolically
        delta = 0              # net change applied to the carrier so far
        carrier = None
        temps = {}             # local -> (kind, name, k) symbolic length
        amount = None
        amount_sign = None
        problems = []

        def sym(e, delta):
            """Symbolic length: ("helper", name, k) meaning helper(Y0 + k),
            or ("attr", NAME, 0), or None."""
            if isinstance(e, ast.Name) and e.id in temps:
                return temps[e.id]
            if isinstance(e, ast.Call):
                qs = callee_quals(ctx, f, e)
                a = ctx.first_arg(f, e) if len(qs) == 1 else None
                if a is not None:
                    k = None
                    if _self_attr(a, selfn):
                        k, car = 0, a.attr
                    elif isinstance(a, ast.BinOp) and _self_attr(
                            a.left, selfn) and isinstance(
                                a.right, ast.Constant) and isinstance(
                                    a.op, (ast.Add, ast.Sub)):
                        k = a.right.value if isinstance(a.op, ast.Add) \
                            else -a.right.value
                        car = a.left.attr
                    if k is not None:
                        return ("helper", qs[0].split(".")[-1], k + delta,
                                car)
                return None
            ca = calendar_attr(ctx, f, e)
            if ca is not None:
                return ("attr", ca, 0, None)
            return None
        for st in loop.body:
            if isinstance(st, ast.Assign) and len(st.targets) == 1 and \
                    isinstance(st.targets[0], ast.Name):
                temps[st.targets[0].id] = sym(st.value, delta)
            elif isinstance(st, ast.AugAssign) and _self_attr(
                    st.target, selfn):
                if st.target.attr == fld:
                    amount = sym(st.value, delta)
                    amount_sign = "-" if isinstance(st.op, ast.Sub) else (
                        "+" if isinstance(st.op, ast.Add) else "?")
                    if amount is None:
                        problems.append("amount %s is not a recognised "
                                        "length" % U(st.value))
                elif isinstance(st.value, ast.Constant) and \
                        st.value.value == 1:
                    carrier = st.target.attr
                    delta += 1 if isinstance(st.op, ast.Add) else -1
                else:
                    problems.append("unexpected update %s" % U(st))
            else:
                problems.append("unexpected statement %s" % U(st)[:50])
        if amount is None and not problems:
            problems.append("loop does not adjust %s" % fld)
        if carrier is None:
            problems.append("loop does not step a carrier (year)")
        guard = sym(right, 0) if not isinstance(right, ast.Constant) else (
            "const", right.value, 0, None)
        if problems:
            rep.error("R09", "%s: carry loop shape not recognised: %s" % (
                f.loc(loop), "; ".join(problems)))
            continue
        own = {s for s in table.get(fld, set())}
        if is_carry:
            want_dir = ("-", +1)
            okdir = amount_sign == "-" and delta == 1
            if guard is None:
                rep.error("R09", "%s: guard bound %s not recognised" % (
                    f.loc(loop), U(right)))
                continue
            agree = (amount[0] == guard[0] and amount[1] == guard[1] and
                     (amount[0] == "attr" or amount[2] == guard[2] == 0))
            rep.check(
                okdir and agree, rule, key, f.loc(loop),
                "carry out of %s subtracts %s of the year being left, as "
                "the guard compares" % (fld, amount[1]),
                "carry out of %s: guard compares with %s(%s%+d) but the "
                "body %s= %s(%s%+d) and steps the year by %+d: leaving year "
                "Y must consume exactly Y's own length" % (
                    fld, guard[1], "Y", guard[2], amount_sign, amount[1],
                    "Y", amount[2], delta) if guard[0] != "const" else
                "carry guard is a constant", props)
        else:
            okdir = amount_sign == "+" and delta == -1
            lower_ok = isinstance(right, ast.Constant) and (
                (right.value == 1 and isinstance(op, ast.Lt)) or
                (right.value == 0 and isinstance(op, ast.LtE)))
            in_class = (("helper", amount[1]) in own or
                        ("attr", amount[1]) in own)
            agree = in_class and (amount[0] == "attr" or amount[2] == -1)
            rep.check(
                okdir and agree and lower_ok, rule, key, f.loc(loop),
                "borrow into %s adds %s of the previous year" % (
                    fld, amount[1]),
                "borrow into %s: body %s= %s(Y%+d) and steps the year by "
                "%+d under guard `%s`: entering year Y-1 must add exactly "
                "the length of Y-1 (the field's own length)" % (
                    fld, amount_sign, amount[1], amount[2], delta, U(t)),
                props)
    # ---- carry order -------------------------------------------------------
    rule2 = "R09.carry-order"
    rep.need_anchor(rule2, "normaliser blocks")
    top = [st for st in f.node.body]
    writes = []      # per top-level stmt: set of fields written
    norm_of = {}     # field -> last index of its normaliser block
    mut_writes = _method_self_writes(ctx)
    for i, st in enumerate(top):
        w = set()
        for n in ast.walk(st):
            tg = []
            if isinstance(n, ast.Assign):
                for t in n.targets:
                    tg.extend(t.elts if isinstance(t, (ast.Tuple, ast.List))
                              else [t])
            elif isinstance(n, ast.AugAssign):
                tg = [n.target]
            elif isinstance(n, ast.Call) and isinstance(
                    n.func, ast.Attribute) and _is_name(n.func.value, selfn):
                for q in callee_quals(ctx, f, n):
                    w |= mut_writes.get(q, set())
            for t in tg:
                if _self_attr(t, selfn):
                    w.add(t.attr)
        writes.append(w)
        if isinstance(st, ast.If):
            g = _single_not_none_guard(st.test, selfn)
            if g is not None and g in w:
                norm_of[g] = i
                rep.anchor(rule2, "normaliser blocks")
    chain_props = ("C01", "C06", "C20", "C05")
    for i, w in enumerate(writes):
        for fld in sorted(w):
            if fld in norm_of and i > norm_of[fld]:
                rep.violation(
                    rule2, ctx.fkey(f, None, "write-after-normaliser:" + fld),
                    f.loc(top[i]),
                    "%s is written (carried into) by a block that runs "
                    "after %s's own normaliser block: the carry can push it "
                    "out of range again and nothing corrects it" % (fld, fld),
                    chain_props)
    rep.ok(rule2, ctx.fkey(f, None, "order"), f.loc(),
           "normaliser blocks in carry order: %s" % [
               k for k, v in sorted(norm_of.items(), key=lambda kv: kv[1])],
           chain_props)


def _is_name(node, name):
    return isinstance(node, ast.Name) and node.id == name


def _single_not_none_guard(test, selfn):
    if isinstance(test, ast.Compare) and len(test.ops) == 1 and isinstance(
            test.ops[0], ast.IsNot) and _self_attr(test.left, selfn) and \
            isinstance(test.comparators[0], ast.Constant) and \
            test.comparators[0].value is None:
        return test.left.attr
    return None


def _method_self_writes(ctx):
    """{method qual: set of self attrs written} (direct, one level)."""
    if "selfwrites" in ctx.cache:
        return ctx.cache["selfwrites"]
    out = {}
    for f in ctx.model.all_functions():
        if not f.self_name:
            continue
        w = set()
        for n in walk_no_nested(f.node):
            tg = []
            if isinstance(n, ast.Assign):
                for t in n.targets:
                    tg.extend(t.elts if isinstance(t, (ast.Tuple, ast.List))
                              else [t])
            elif isinstance(n, (ast.AugAssign, ast.AnnAssign)):
                tg = [n.target]
            for t in tg:
                if _self_attr(t, f.self_name):
                    w.add(t.attr)
        out[f.qual] = w
    ctx.cache["selfwrites"] = out
    return out


RULES = {"R09": r09_carry_agree, "R10": r10_field_len,
         "R11": r11_leap_polarity}


# -------------------------------------------------------------------- R34
# A length (leap flag, month/year length, table row) computed from X._year /
# X._month_of_year and kept in a local goes stale when that field is written
# afterwards; bounding a date field of X with it then uses the length of the
# wrong month/year.  Flow-sensitive def-use over the structured interpreter.
from ..fdai import Engine, Plugin, freeze, thaw   # noqa: E402

YM = ("_year", "_month_of_year")


class _FreshPlugin(Plugin):
    def __init__(self, ctx, f):
        self.ctx = ctx
        self.f = f
        self.uses = []      # (node, local, stale deps)

    # value of a local: frozenset of (base text, field) it was computed from;
    # "$stale:<local>" -> frozenset of deps written since
    def _deps(self, e, d):
        deps = set()
        for n in ast.walk(e):
            if isinstance(n, ast.Attribute) and n.attr in YM and \
                    isinstance(n.ctx, ast.Load) and is_tp_attr(
                        self.ctx, self.f, n):
                deps.add((U(n.value), n.attr))
            elif isinstance(n, ast.Name) and isinstance(n.ctx, ast.Load):
                v = d.get(n.id)
                if isinstance(v, frozenset):
                    deps |= v
        return deps

    def _control_deps(self, st, d):
        deps = set()
        for a in ancestors(st):
            if a is self.f.node:
                break
            if isinstance(a, ast.If):
                deps |= self._deps(a.test, d)
        return deps

    def eval(self, e, d):
        if e is not None:
            self._note_uses(e, d)
        return None

    def _note_uses(self, e, d):
        """A comparison / assignment of a date field against a stale local."""
        for n in ast.walk(e):
            if isinstance(n, ast.Compare) and len(n.ops) == 1:
                a, b = n.left, n.comparators[0]
                for fld, other in ((a, b), (b, a)):
                    if isinstance(fld, ast.Attribute) and \
                            fld.attr in DATE_FIELDS and is_tp_attr(
                                self.ctx, self.f, fld):
                        self._check(n, fld, other, d)

    def _check(self, node, fld, bound, d):
        base = U(fld.value)
        for n in ast.walk(bound):
            if isinstance(n, ast.Name):
                st = d.get("$stale:" + n.id, frozenset())
                bad = {x for x in st if x[0] == base}
                if bad:
                    self.uses.append((node, n.id, fld, frozenset(bad)))

    def assign(self, t, v, d, st):
        val = getattr(st, "value", None)
        if isinstance(t, ast.Name) and isinstance(
                val, ast.Constant) and val.value is None and isinstance(
                    st, ast.Assign):
            # `cache = None`: a sentinel, computed from nothing; the test
            # `cache is None` that follows is decided (refine)
            d[t.id] = "NONE"
            d["$stale:" + t.id] = frozenset()
            return
        if isinstance(t, ast.Name):
            deps = set()
            if val is not None:
                deps = self._deps(val, d)
                # staleness is inherited from the locals read
                inherited = set()
                for n in ast.walk(val):
                    if isinstance(n, ast.Name):
                        inherited |= d.get("$stale:" + n.id, frozenset())
                deps |= self._control_deps(st, d)
                for a in ancestors(st):
                    if a is self.f.node:
                        break
                    if isinstance(a, ast.If):
                        for n in ast.walk(a.test):
                            if isinstance(n, ast.Name):
                                inherited |= d.get("$stale:" + n.id,
                                                   frozenset())
                d["$stale:" + t.id] = frozenset(inherited)
            d[t.id] = frozenset(deps)
        elif isinstance(t, (ast.Tuple, ast.List)):
            for x in t.elts:
                self.assign(x, None, d, st)
        elif isinstance(t, ast.Attribute) and is_tp_attr(self.ctx, self.f, t):
            if val is not None and t.attr in DATE_FIELDS and \
                    t.attr not in YM:
                self._check(st, t, val, d)
            if t.attr in YM:
                self._written(U(t.value), t.attr, d)

    def augassign(self, st, d):
        t = st.target
        if isinstance(t, ast.Attribute) and is_tp_attr(self.ctx, self.f, t) \
                and t.attr in YM:
            self._written(U(t.value), t.attr, d)
        elif isinstance(t, ast.Name):
            d[t.id] = frozenset(self._deps(st.value, d) |
                                (d.get(t.id) or frozenset()))

    def _written(self, base, attr, d):
        for k, v in list(d.items()):
            if isinstance(v, frozenset) and not k.startswith("$") and \
                    (base, attr) in v:
                d["$stale:" + k] = d.get("$stale:" + k, frozenset()) | {
                    (base, attr)}

    def refine(self, test, d):
        self._note_uses(test, d)
        t, pol = test, True
        if isinstance(t, ast.UnaryOp) and isinstance(t.op, ast.Not):
            t, pol = t.operand, False
        if isinstance(t, ast.Compare) and len(t.ops) == 1 and isinstance(
                t.ops[0], (ast.Is, ast.IsNot)) and isinstance(
                    t.left, ast.Name) and U(t.comparators[0]) == "None" \
                and d.get(t.left.id) == "NONE":
            is_none = isinstance(t.ops[0], ast.Is) == pol
            return ([d], []) if is_none else ([], [d])
        return [d], [dict(d)]

    def for_target(self, stmt, d):
        self.assign(stmt.target, None, d, stmt)


def r34_fresh_length(ctx):
    rep = ctx.rep
    rule = "R34.fresh-length"
    tp = ctx.model.cls("TimePoint")
    rep.need_anchor(rule, "methods writing year/month")
    for name, f in sorted(tp.methods.items()):
        writes = [n for n in walk_no_nested(f.node)
                  if isinstance(n, (ast.Assign, ast.AugAssign)) and any(
                      isinstance(t, ast.Attribute) and t.attr in YM
                      for t in (n.targets if isinstance(n, ast.Assign)
                                else [n.target]))]
        if not writes or name == "__init__":
            continue
        rep.anchor(rule, "methods writing year/month")
        p = _FreshPlugin(ctx, f)
        Engine(p).run(f.node.body, {freeze({})})
        props = _r10_props(f, "_day_of_month")
        seen = set()
        for node, local, fld, deps in p.uses:
            k = (id(node), local)
            if k in seen:
                continue
            seen.add(k)
            rep.violation(
                rule, ctx.fkey(f, node, "stale:" + local), f.loc(node),
                "%s bounds %s with `%s`, which was computed from %s before "
                "that field was changed on this path: the length of the "
                "*previous* month/year is applied (e.g. the leap table of "
                "the year just left)" % (
                    f.qual, U(fld), local,
                    ", ".join("%s.%s" % x for x in sorted(deps))), props)
        if not seen:
            rep.ok(rule, ctx.fkey(f, None, "fresh"), f.loc(),
                   "every length that bounds a date field in %s is computed "
                   "after the last write to the year/month it depends on "
                   "(%d writes)" % (name, len(writes)), props)


RULES["R34"] = r34_fresh_length
