"""E6 / R12 UNIT-SCALE - units-of-measure inference over the time-unit chain
second / minute / hour / day / week (C01, C02, C04, C06, C10, C11, C18, C19).

Abstract value of a numeric expression:
   Q(scales)  a quantity; one unit of the number is <scale> seconds
              (a *set* of candidate scales when a bare literal divisor such
              as `// 60` could be a radix or a pure number)
   R(r)       a radix: "r of the larger unit per smaller unit" (1/60 ...);
              in additive/comparison context it stands for "that many of
              the smaller unit" and is read as the set of scales of every
              radix of equal numeric value
   Pure       a pure number
   Tup/Seq    tuples / sequences of the above
   None       unknown (absorbs, generates no obligation)
"""
import ast
from fractions import Fraction as F

from ..fold import NotConst
from ..model import npos, AnalysisError, U, walk_no_nested

S, MIN, H, D, W = F(1), F(60), F(3600), F(86400), F(604800)
# nominal units are formal (incommensurable) scales
MONTH, YEAR = F(1000000007), F(1000000000039)
NAMES = {S: "second", MIN: "minute", H: "hour", D: "day", W: "week",
         MONTH: "month", YEAR: "year"}

SLOT = {"_seconds": S, "_second_of_minute": S, "_minutes": MIN,
        "_minute_of_hour": MIN, "_hours": H, "_hour_of_day": H,
        "_days": D, "_day_of_month": D, "_day_of_year": D,
        "_day_of_week": D, "_weeks": W, "_week_of_year": W,
        "_years": YEAR, "_year": YEAR, "_months": MONTH,
        "_month_of_year": MONTH}
# Calendar radices: value of one *smaller* unit expressed in the larger unit
RATIO_DECL = {"SECONDS_IN_MINUTE": (S, MIN), "MINUTES_IN_HOUR": (MIN, H),
              "HOURS_IN_DAY": (H, D), "DAYS_IN_WEEK": (D, W),
              "SECONDS_IN_HOUR": (S, H), "SECONDS_IN_DAY": (S, D),
              "MINUTES_IN_DAY": (MIN, D), "ROUGH_DAYS_IN_YEAR": (D, YEAR),
              "ROUGH_DAYS_IN_MONTH": (D, MONTH),
              "MONTHS_IN_YEAR": (MONTH, YEAR)}
QCONST = {"DAYS_IN_YEAR": D, "DAYS_IN_YEAR_LEAP": D, "MAX_DAYS_IN_MONTH": D,
          "MAX_WEEKS_IN_YEAR": W}
QSEQ = {"DAYS_IN_MONTHS": D, "DAYS_IN_MONTHS_LEAP": D}
TEMPLATE_KEYS = {"hh": H, "mm": MIN}
EXT = {"time.timezone": S, "time.altzone": S}
EXT_CALLS = {"time.time": S}


class Q:
    def __init__(self, scales):
        self.s = frozenset(scales if not isinstance(scales, F) else [scales])

    def __repr__(self):
        return "Q(%s)" % "|".join(NAMES.get(x, str(x)) for x in sorted(
            self.s))


class R:
    def __init__(self, r, small=None, big=None):
        self.r = r
        self.small, self.big = small, big

    def __repr__(self):
        return "R(%s)" % self.r


class Pure:
    def __init__(self, v=None):
        self.v = v

    def __repr__(self):
        return "Pure(%s)" % self.v


class Tup:
    def __init__(self, items):
        self.items = list(items)

    def __repr__(self):
        return "Tup(%s)" % self.items


class Seq:
    def __init__(self, item):
        self.item = item


def uname(scales):
    return "/".join(NAMES.get(x, str(x)) for x in sorted(scales))


class ScaleAnalysis:
    def __init__(self, ctx):
        self.ctx = ctx
        self.res = ctx.res
        self.obls = []      # (f, node, what, ok, a, b)
        self.ret = {}       # func qual -> value
        self.param = {}     # func qual -> {param: value}
        self.kw = {}        # class name -> {keyword: scale}
        self._collect = False
        self.cal_values = {}
        self._init_decls()

    # ------------------------------------------------------ declarations
    def _init_decls(self):
        ctx = self.ctx
        cal = ctx.model.cls("Calendar")
        # additive reading of a radix: scales of every radix with the same
        # numeric value
        vals = {}
        for name in RATIO_DECL:
            try:
                vals[name] = ctx.folder.class_const(cal, name)
            except NotConst:
                vals[name] = None
        from .calendar_mode import eval_set_mode
        try:
            st = eval_set_mode(ctx, "gregorian")
            for name in RATIO_DECL:
                if vals.get(name) is None and name in st:
                    vals[name] = st[name]
        except AnalysisError:
            pass
        self.cal_values = vals
        self.add_reading = {}
        for name, (small, big) in RATIO_DECL.items():
            v = vals.get(name)
            same = {RATIO_DECL[n][0] for n in RATIO_DECL
                    if vals.get(n) is not None and vals.get(n) == v}
            self.add_reading[name] = frozenset(same or {small})
        # constructor keywords: param -> slot it is stored in
        for cname in ("Duration", "TimeZone", "TimePoint"):
            c = ctx.model.cls(cname)
            init = c.methods.get("__init__")
            kw = {}
            if init is not None:
                for n in walk_no_nested(init.node):
                    if isinstance(n, ast.Assign) and len(n.targets) == 1 and \
                            isinstance(n.targets[0], ast.Attribute) and \
                            n.targets[0].attr in SLOT:
                        v = n.value
                        if isinstance(v, ast.Call) and v.args and U(
                                v.func) == "_int_caster":
                            v = v.args[0]
                        if isinstance(v, ast.Name) and v.id in init.params:
                            kw.setdefault(v.id, SLOT[n.targets[0].attr])
            self.kw[cname] = kw
        # TimePoint(time_zone_hour=, time_zone_minute=) feed TimeZone(hours=,
        # minutes=)
        tpi = ctx.model.cls("TimePoint").methods["__init__"]
        for n in walk_no_nested(tpi.node):
            if isinstance(n, ast.Call) and U(n.func) == "TimeZone":
                for k in n.keywords:
                    if isinstance(k.value, ast.Name) and k.arg in \
                            self.kw["TimeZone"]:
                        self.kw["TimePoint"][k.value.id] = \
                            self.kw["TimeZone"][k.arg]
        for dec in ("hour_of_day_decimal", "minute_of_hour_decimal",
                    "second_of_minute_decimal"):
            base = dec[:-8]
            if base in self.kw["TimePoint"]:
                self.kw["TimePoint"][dec] = self.kw["TimePoint"][base]

    # ---------------------------------------------------------- evaluation
    def require(self, a, b, f, node, what):
        sa = a.s if isinstance(a, Q) else None
        sb = b.s if isinstance(b, Q) else None
        if sa is None or sb is None:
            return
        if self._collect:
            self.obls.append((f, node, what, bool(sa & sb), a, b))

    def additive(self, v, name=None):
        if isinstance(v, R) and v.small is not None:
            return Q(v.add) if hasattr(v, "add") else Q([v.small])
        return v

    def ev(self, n, env, f):
        if n is None:
            return None
        if isinstance(n, ast.Constant):
            if isinstance(n.value, (int, float)) and not isinstance(
                    n.value, bool):
                return Pure(n.value)
            return None
        if isinstance(n, ast.Name):
            return env.get(n.id)
        if isinstance(n, ast.Attribute):
            return self._attr(n, env, f)
        if isinstance(n, ast.Subscript):
            b = self.ev(n.value, env, f)
            self.ev(n.slice, env, f)
            if isinstance(b, Seq):
                return b.item
            if isinstance(b, Tup) and isinstance(n.slice, ast.Constant) and \
                    isinstance(n.slice.value, int) and \
                    -len(b.items) <= n.slice.value < len(b.items):
                return b.items[n.slice.value]
            return None
        if isinstance(n, ast.UnaryOp):
            v = self.ev(n.operand, env, f)
            if isinstance(n.op, ast.Not):
                return None
            if isinstance(v, Pure) and isinstance(n.op, ast.USub) and \
                    v.v is not None:
                return Pure(-v.v)
            return v
        if isinstance(n, ast.Call):
            return self._call(n, env, f)
        if isinstance(n, ast.BinOp):
            a, b = self.ev(n.left, env, f), self.ev(n.right, env, f)
            op = {ast.Add: "+", ast.Sub: "-", ast.Mult: "*", ast.Div: "/",
                  ast.FloorDiv: "//", ast.Mod: "%"}.get(type(n.op))
            return self.binop(a, b, op, n, f)
        if isinstance(n, ast.Tuple):
            return Tup([self.ev(e, env, f) for e in n.elts])
        if isinstance(n, ast.List):
            for e in n.elts:
                self.ev(e, env, f)
            return None
        if isinstance(n, ast.Dict):
            for k, v in zip(n.keys, n.values):
                val = self.ev(v, env, f)
                if isinstance(k, ast.Constant) and isinstance(k.value, str):
                    self._dict_key(k.value, val, n, f)
            return None
        if isinstance(n, ast.Compare):
            a = self.ev(n.left, env, f)
            for c in n.comparators:
                b = self.ev(c, env, f)
                a2, b2 = self.additive(a), self.additive(b)
                if isinstance(a2, Q) and isinstance(b2, Q):
                    self.require(a2, b2, f, n, "comparison")
                a = b
            return None
        if isinstance(n, ast.BoolOp):
            for v in n.values:
                self.ev(v, env, f)
            return None
        if isinstance(n, ast.IfExp):
            self.ev(n.test, env, f)
            a, b = self.ev(n.body, env, f), self.ev(n.orelse, env, f)
            if isinstance(a, Pure) and isinstance(b, Pure):
                return Pure(None)
            return a if a is not None else b
        if isinstance(n, (ast.ListComp, ast.GeneratorExp, ast.SetComp,
                          ast.DictComp, ast.JoinedStr)):
            return None
        return None

    def _dict_key(self, key, val, node, f):
        for table in (self.kw["TimePoint"],):
            if key in table and isinstance(val, Q):
                self.require(val, Q(table[key]), f, node,
                             "dict key %r" % key)

    def _attr(self, n, env, f):
        txt = U(n)
        if txt in EXT:
            return Q(EXT[txt])
        base_t = self.ctx.types_in(f, n.value) if f is not None else set()
        if "Calendar" in base_t or "class:Calendar" in base_t:
            a = n.attr
            if a in RATIO_DECL:
                small, big = RATIO_DECL[a]
                r = R(small / big, small, big)
                r.add = self.add_reading[a]
                return r
            if a in QCONST:
                return Q(QCONST[a])
            if a in QSEQ:
                return Seq(Q(QSEQ[a]))
            return None
        if n.attr in SLOT and (base_t & {"TimePoint", "Duration",
                                         "TimeZone"}):
            return Q(SLOT[n.attr])
        if n.attr in SLOT and n.attr.startswith("_") and not base_t:
            # the private slot names belong to the value classes only: an
            # object of unknown type read through one is one of them
            return Q(SLOT[n.attr])
        pub = "_" + n.attr
        if pub in SLOT and (base_t & {"Duration", "TimeZone"}):
            return Q(SLOT[pub])          # read-only properties of Duration
        if pub in SLOT and "TimePoint" in base_t and n.attr in (
                "hour_of_day", "minute_of_hour", "second_of_minute",
                "day_of_month", "day_of_year", "day_of_week",
                "week_of_year"):
            return Q(SLOT[pub])
        return None

    def _call(self, n, env, f):
        fn = n.func
        name = fn.id if isinstance(fn, ast.Name) else (
            fn.attr if isinstance(fn, ast.Attribute) else None)
        txt = U(fn)
        if txt in EXT_CALLS:
            return Q(EXT_CALLS[txt])
        if name in ("int", "float", "floor", "abs", "round", "str") and \
                n.args and isinstance(fn, ast.Name):
            return self.ev(n.args[0], env, f)
        if name == "divmod" and isinstance(fn, ast.Name) and len(n.args) == 2:
            a = self.ev(n.args[0], env, f)
            b = self.ev(n.args[1], env, f)
            q = self.binop(a, b, "//", n, f)
            return Tup([q, a])
        if name in ("sum", "max", "min") and n.args:
            v = self.ev(n.args[0], env, f)
            return v.item if isinstance(v, Seq) else None
        args = [self.ev(a, env, f) for a in n.args]
        kws = {k.arg: self.ev(k.value, env, f) for k in n.keywords}
        if name == "format" and isinstance(fn, ast.Attribute):
            for k, v in kws.items():
                if k in TEMPLATE_KEYS and isinstance(v, Q):
                    self.require(v, Q(TEMPLATE_KEYS[k]), f, n,
                                 "template field {%s}" % k)
            return None
        callees, rtypes, status = self.ctx.resolve_call(f, n)
        if status == "ctor":
            for c in callees:
                table = self.kw.get(c.cls.name if c.cls else "", {})
                params = c.call_params
                for i, v in enumerate(args):
                    if i < len(params) and params[i] in table and \
                            isinstance(v, Q):
                        self.require(v, Q(table[params[i]]), f, n,
                                     "%s(%s=...) positional" % (
                                         c.cls.name, params[i]))
                for k, v in kws.items():
                    if k in table and isinstance(v, Q):
                        self.require(v, Q(table[k]), f, n, "%s(%s=)" % (
                            c.cls.name, k))
            return None
        out = None
        for c in callees:
            if c.is_property:
                continue
            params = c.call_params
            pin = self.param.setdefault(c.qual, {})
            for i, v in enumerate(args):
                if i < len(params):
                    self._param_in(pin, params[i], v)
            for k, v in kws.items():
                if k is not None:
                    self._param_in(pin, k, v)
            r = self.ret.get(c.qual)
            if r is not None and out is None:
                out = r
        return out

    def _param_in(self, pin, p, v):
        if not isinstance(v, Q):
            return
        cur = pin.get(p)
        if cur is None:
            pin[p] = v
        elif isinstance(cur, Q) and cur.s != v.s:
            pin[p] = Q(cur.s | v.s) if (cur.s & v.s) else "conflict"

    def binop(self, a, b, op, n, f):
        if op in ("+", "-"):
            a, b = self.additive(a), self.additive(b)
            if isinstance(a, Q) and isinstance(b, Q):
                self.require(a, b, f, n, "addition/subtraction")
                common = a.s & b.s
                return Q(common) if common else a
            if isinstance(a, Q) and (isinstance(b, Pure) or b is None):
                return a if isinstance(b, Pure) else None
            if isinstance(b, Q) and isinstance(a, Pure):
                return b
            if isinstance(a, Pure) and isinstance(b, Pure):
                return Pure(None)
            return None
        if op == "%":
            return a if isinstance(a, (Q, Pure)) else None
        if op == "*":
            if isinstance(a, R) and isinstance(b, R):
                return R(a.r * b.r)
            if isinstance(a, R):
                a, b = b, a
            if isinstance(b, R):
                if isinstance(a, Q):
                    return Q({s * b.r for s in a.s})
                if isinstance(a, Pure):
                    # n * radix: a count of the smaller unit
                    return Q([b.small]) if b.small is not None else None
                return None
            if isinstance(a, Pure) and isinstance(b, Pure):
                return Pure(None)
            if isinstance(a, Pure):
                a, b = b, a
            if isinstance(b, Pure) and isinstance(a, Q):
                if b.v is not None and abs(b.v) not in (0, 1) and \
                        isinstance(b.v, int):
                    return Q(a.s | {s / F(b.v) for s in a.s})
                return a
            if isinstance(a, Q) and isinstance(b, Q):
                return None
            return None
        if op in ("/", "//"):
            if isinstance(b, R):
                if isinstance(a, Q):
                    return Q({s / b.r for s in a.s})
                return None
            if isinstance(b, Pure):
                if isinstance(a, Q) and b.v is not None and \
                        abs(b.v) not in (0, 1) and float(b.v).is_integer():
                    return Q(a.s | {s * F(int(b.v)) for s in a.s})
                return a if isinstance(a, (Q, Pure)) else None
            if isinstance(a, Q) and isinstance(b, Q):
                self.require(a, b, f, n, "quantity / quantity")
                return Pure(None)
            return None
        return None

    # ------------------------------------------------------------ functions
    def assign(self, t, v, env, node, f):
        if isinstance(t, ast.Name):
            env[t.id] = v
        elif isinstance(t, ast.Attribute):
            tv = self._attr(t, env, f)
            if isinstance(tv, Q) and isinstance(v, Q):
                self.require(v, tv, f, node, "store to %s" % t.attr)
        elif isinstance(t, (ast.Tuple, ast.List)):
            if isinstance(v, Tup) and len(v.items) == len(t.elts):
                for e, x in zip(t.elts, v.items):
                    self.assign(e, x, env, node, f)
            else:
                for e in t.elts:
                    self.assign(e, None, env, node, f)
        elif isinstance(t, ast.Subscript):
            if isinstance(t.slice, ast.Constant) and isinstance(
                    t.slice.value, str):
                self._dict_key(t.slice.value, v, node, f)

    def run_function(self, f):
        env = {}
        decl = {}
        if f.cls is not None and f.name == "__init__":
            decl = self.kw.get(f.cls.name, {})
        if f.qual.endswith("TimePoint.add_truncated"):
            decl = self.kw.get("TimePoint", {})
        for p in f.params + f.kwonly:
            if p in decl:
                env[p] = Q(decl[p])
            else:
                pv = self.param.get(f.qual, {}).get(p)
                if isinstance(pv, Q):
                    env[p] = pv
        rets = []
        order = [n for n in ast.walk(f.node) if isinstance(n, ast.stmt)]
        order.sort(key=npos)
        for _pass in range(2):
            last = _pass == 1
            keep = self._collect
            self._collect = keep and last
            for st in order:
                if st is f.node:
                    continue
                if isinstance(st, ast.Assign):
                    v = self.ev(st.value, env, f)
                    for t in st.targets:
                        self.assign(t, v, env, st, f)
                        # properties["time_zone_minute"] = ...: an item
                        # stored under the name of a constructor keyword is
                        # a value of that keyword's unit
                        if isinstance(t, ast.Subscript) and isinstance(
                                t.slice, ast.Constant) and isinstance(
                                    v, Q):
                            for cname in ("TimePoint", "Duration"):
                                u_ = self.kw.get(cname, {}).get(
                                    t.slice.value)
                                if u_ is not None:
                                    self.require(
                                        v, Q(u_), f, st,
                                        "item %r (a %s keyword)" % (
                                            t.slice.value, cname))
                                    break
                elif isinstance(st, ast.AugAssign):
                    v = self.ev(st.value, env, f)
                    cur = self.ev(st.target, env, f)
                    op = {ast.Add: "+", ast.Sub: "-", ast.Mult: "*",
                          ast.Div: "/", ast.FloorDiv: "//",
                          ast.Mod: "%"}.get(type(st.op))
                    r = self.binop(cur, v, op, st, f)
                    if isinstance(st.target, ast.Name):
                        env[st.target.id] = r
                    elif isinstance(st.target, ast.Attribute) and op in (
                            "*", "/", "//"):
                        tv = self._attr(st.target, env, f)
                        if isinstance(tv, Q) and isinstance(r, Q):
                            self.require(r, tv, f, st, "store to %s" %
                                         st.target.attr)
                elif isinstance(st, (ast.If, ast.While)):
                    self.ev(st.test, env, f)
                elif isinstance(st, ast.For):
                    it = self.ev(st.iter, env, f)
                    if isinstance(it, Seq):
                        self.assign(st.target, it.item, env, st, f)
                    else:
                        self.assign(st.target, None, env, st, f)
                elif isinstance(st, ast.Return) and st.value is not None:
                    v = self.ev(st.value, env, f)
                    if last:
                        rets.append((st, v))
                elif isinstance(st, ast.Expr):
                    self.ev(st.value, env, f)
            self._collect = keep
        # summarise returns
        out = None
        for st, v in rets:
            if v is None:
                continue
            if out is None:
                out = v
                continue
            if isinstance(out, Q) and isinstance(v, Q):
                self.require(v, out, f, st, "return values of one function")
                common = out.s & v.s
                out = Q(common) if common else out
            elif isinstance(out, Tup) and isinstance(v, Tup) and len(
                    out.items) == len(v.items):
                for i, (x, y) in enumerate(zip(out.items, v.items)):
                    if isinstance(x, Q) and isinstance(y, Q):
                        self.require(y, x, f, st, "return tuple element %d"
                                     % i)
                    elif not isinstance(x, Q) and isinstance(y, Q):
                        out.items[i] = y
                    elif x is None:
                        out.items[i] = y
        return out

    def run(self, modules):
        funcs = [f for f in self.ctx.model.all_functions()
                 if f.module.name in modules]
        for rnd in range(6):
            changed = False
            for f in funcs:
                r = self.run_function(f)
                if repr(r) != repr(self.ret.get(f.qual)):
                    self.ret[f.qual] = r
                    changed = True
            if not changed:
                break
        self._collect = True
        self.obls = []
        for f in funcs:
            self.run_function(f)
        self._collect = False
        return self.obls


def kwname(kwvar, var):
    for k, v in kwvar.items():
        if v == var:
            return k
    return var


def props_for(f):
    q = f.qual
    m = f.module.name
    if m == "timezone":
        return ("C18",)
    if m == "datetimeoper":
        return ("C19",)
    if m == "parsers":
        return ("C10", "C07")
    if m == "dumpers":
        return ("C06", "C08")
    if ".Duration." in q or ".TimeZone." in q:
        if any(x in q for x in ("to_days", "get_seconds",
                                "_get_non_nominal_seconds")):
            return ("C11", "C01", "C04")
        return ("C11",)
    if q.endswith(("__sub__",)):
        return ("C04",)
    if q.endswith(("seconds_since_unix_epoch",
                   "get_timepoint_from_seconds_since_unix_epoch",
                   "get_timepoint_for_now",
                   "get_timepoint_properties_from_seconds_since_unix_epoch")):
        return ("C18", "C17")
    if q.endswith(("to_local_time_zone", "to_utc", "to_time_zone")):
        return ("C06", "C18")
    if q.endswith(("get_second_of_day",)):
        return ("C02",)
    if q.endswith(("get_hour_minute_second",)):
        return ("C04", "C02")
    if q.endswith(("add_truncated",)):
        return ("C20",)
    if q.endswith(("_tick_over", "__add__", "_tick_over_day_of_month")):
        return ("C01", "C06")
    if q.endswith("TimePoint.__init__"):
        return ("C07", "C09")
    return ("C01", "C03")


def r12_unit_scale(ctx):
    rep = ctx.rep
    rule = "R12.unit-scale"
    sa = ScaleAnalysis(ctx)
    rep.need_anchor(rule, "unit obligations")
    # derived radices agree with their definitions in set_mode
    from .calendar_mode import calendar_facts
    facts = calendar_facts(ctx)
    sm = facts["set_mode"]
    for a, st, val in facts["assigned"]:
        if a in RATIO_DECL and isinstance(val, ast.BinOp):
            v = sa.ev(val, {}, sm)
            small, big = RATIO_DECL[a]
            rep.check(isinstance(v, R) and v.r == small / big, rule,
                      ctx.fkey(sm, None, "radix:" + a), sm.loc(st),
                      "%s is %s per %s by its definition" % (
                          a, NAMES[small] + "s", NAMES[big]),
                      "%s is defined as %s, which is not %ss per %s" % (
                          a, U(val), NAMES[small], NAMES[big]),
                      ("C11", "C01", "C15"))
    obls = sa.run(("data", "timezone", "datetimeoper", "parsers", "dumpers"))
    seen = {}
    for f, node, what, ok, a, b in obls:
        key = ctx.fkey(f, node, what.split(" ")[0])
        k = (key,)
        if k in seen:
            if ok or not seen[k]:
                continue
        seen[k] = ok
        rep.anchor(rule, "unit obligations")
        rep.check(ok, rule, key, f.loc(node),
                  "%s: both sides are in %s" % (what, uname(a.s & b.s)),
                  "%s mixes units in `%s`: one side counts %ss, the other "
                  "%ss" % (f.qual, U(node)[:80], uname(a.s), uname(b.s)),
                  props_for(f))
    # exact-unit keywords only in TimePoint - TimePoint
    tp = ctx.model.cls("TimePoint")
    sub = tp.methods["__sub__"]
    kws = set()
    for n in walk_no_nested(sub.node):
        if isinstance(n, ast.Return) and isinstance(n.value, ast.Call) and \
                U(n.value.func) == "Duration":
            kws |= {k.arg for k in n.value.keywords}
    if None in kws:
        rep.undecided("R12.exact-difference",
                      ctx.fkey(sub, None, "exact-keywords"), sub.loc(),
                      "the difference is built with Duration(**<computed "
                      "mapping>): its keywords are not read by this rule",
                      ("C04",))
    else:
      rep.check(bool(kws) and kws <= {"days", "hours", "minutes", "seconds"},
              "R12.exact-difference", ctx.fkey(sub, None, "exact-keywords"),
              sub.loc(), "the difference of two time points is built from "
              "days, hours, minutes and seconds only",
              "TimePoint.__sub__ builds its result with %s: a difference "
              "must be an exact duration" % sorted(kws), ("C04",))
    # the borrow chain: each borrow decrements the next unit up by one
    kwvar = {}
    for n in walk_no_nested(sub.node):
        if isinstance(n, ast.Return) and isinstance(n.value, ast.Call) and \
                U(n.value.func) == "Duration":
            kwvar = {k.arg: U(k.value) for k in n.value.keywords}
    chain = [(kwvar.get("seconds"), kwvar.get("minutes")),
             (kwvar.get("minutes"), kwvar.get("hours")),
             (kwvar.get("hours"), kwvar.get("days"))]
    found = 0
    for n in walk_no_nested(sub.node):
        if not isinstance(n, ast.If):
            continue
        decs = [U(s.target) for s in n.body if isinstance(
            s, ast.AugAssign) and isinstance(s.op, ast.Sub) and
            U(s.value) == "1"]
        incs = [U(s.target) for s in n.body if isinstance(
            s, ast.AugAssign) and isinstance(s.op, ast.Add)]
        for lo, hi in chain:
            if lo in incs or hi in decs:
                found += 1
                t = n.test
                on_running = (isinstance(t, ast.Compare) and len(t.ops) == 1
                              and U(t.left) == lo and isinstance(
                                  t.ops[0], ast.Lt) and
                              U(t.comparators[0]) == "0") or (
                                  isinstance(t, ast.Compare) and
                                  U(t.comparators[0]) == lo and isinstance(
                                      t.ops[0], ast.Gt) and U(t.left) == "0")
                if not on_running and (lo, hi) == chain[0] and isinstance(
                        t, ast.Compare) and len(t.ops) == 1 and isinstance(
                            t.ops[0], ast.Lt):
                    # lowest unit: `a < b` where lo = a - b is the same test
                    for d_ in walk_no_nested(sub.node):
                        if isinstance(d_, ast.Assign) and U(
                                d_.targets[0]) == lo and isinstance(
                                    d_.value, ast.BinOp) and isinstance(
                                        d_.value.op, ast.Sub) and \
                                U(d_.value.left) == U(t.left) and \
                                U(d_.value.right) == U(t.comparators[0]):
                            on_running = True
                rep.check(decs == [hi] and incs == [lo] and on_running,
                          "R12.borrow-chain",
                          ctx.fkey(sub, None, "borrow:%s" % kwname(kwvar, lo)),
                          sub.loc(n), "a negative running difference of the "
                          "%s borrows one from the next unit up" % kwname(
                              kwvar, lo),
                          "borrow for the %s is decided by `%s`, decrements "
                          "%s and refills %s: it must test the *running* "
                          "difference `%s < 0` (after the borrow taken by "
                          "the unit below), decrement the next unit up once "
                          "and refill its own unit" % (
                              kwname(kwvar, lo), U(t), decs, incs, lo),
                          ("C04",))
                # the refill is one of the next unit up, in this unit
                radix = {0: 60, 1: 60, 2: 24}[chain.index((lo, hi))]
                for st in n.body:
                    if isinstance(st, ast.AugAssign) and isinstance(
                            st.op, ast.Add) and U(st.target) == lo:
                        from ..linear import lin
                        k = lin(st.value, {}).const()
                        key = ctx.fkey(sub, None, "refill:%s" % kwname(
                            kwvar, lo))
                        if k is None:
                            rep.undecided("R12.borrow-chain", key,
                                          sub.loc(st), "the refill `%s` is "
                                          "not a constant this rule reads"
                                          % U(st.value), ("C04", "C18"))
                        else:
                            rep.check(
                                k == radix, "R12.borrow-chain", key,
                                sub.loc(st), "the borrow refills %s with one "
                                "%s (%d)" % (lo, hi, radix),
                                "TimePoint.__sub__ takes one from %s and "
                                "gives %s `%s` (= %s) of its own unit; one "
                                "of the next unit up is %d: every "
                                "difference that borrows here is off by "
                                "%s" % (hi, lo, U(st.value), k, radix,
                                        k - radix), ("C04", "C18"))
                break
    if found == 0:
        rep.undecided("R12.borrow-chain", ctx.fkey(sub, None, "borrow"),
                      sub.loc(), "TimePoint.__sub__ does not borrow between "
                      "named per-unit differences (the idiom this rule "
                      "reads): the borrow chain is not decided here",
                      ("C04",))
    elif found != 3:
        rep.error("R12", "TimePoint.__sub__: borrow chain not recognised")
    ctx.cache.setdefault("extra:C01", {})["unit_obligations"] = len(seen)


RULES = {"R12": r12_unit_scale}
