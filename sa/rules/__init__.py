"""Rule registry."""
from . import (calendar_mode, normalise, eqhash, recurrence, ownership,
               typestate, zone, tablerules, signtables, errors, cli, scale,
               extra, round5)

ALL_RULES = {}
for _mod in (calendar_mode, normalise, eqhash, recurrence, ownership,
             typestate, zone, tablerules, signtables, errors, cli, scale,
             extra, round5):
    ALL_RULES.update(_mod.RULES)
