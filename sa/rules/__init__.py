"""Rule registry."""
from . import calendar_mode

ALL_RULES = {}
for _mod in (calendar_mode,):
    ALL_RULES.update(_mod.RULES)
