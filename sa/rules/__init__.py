"""Rule registry."""
from . import calendar_mode, normalise

ALL_RULES = {}
for _mod in (calendar_mode, normalise):
    ALL_RULES.update(_mod.RULES)
