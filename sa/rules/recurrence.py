"""R18 REC-STATE, R19 REC-BOUNDS (C12, C13, C14)."""
import ast
import itertools

from ..fdai import Engine, Plugin, freeze, thaw
from ..model import AnalysisError, U, walk_no_nested, parent

NONE = "NoneV"
SLOTS = ("_format_number", "_repetitions", "_start_point", "_end_point",
         "_second_point", "_duration")


def _get_methods(ctx):
    rec = ctx.model.cls("TimeRecurrence")
    need = {}
    for n in ("__init__", "__iter__", "__add__", "__sub__", "get_next",
              "get_prev", "get_first_after", "get_is_valid", "__getitem__",
              "_get_is_in_bounds"):
        f = rec.methods.get(n)
        if f is None:
            raise AnalysisError("TimeRecurrence.%s not found" % n)
        need[n] = f
    return rec, need


# =====================================================================
#  R18: finite-domain abstract interpretation of the recurrence class
#     points:   NoneV | G (given, or a given point shifted) | D (derived by
#               arithmetic from another anchor) | St (stepped, in __iter__)
#     reps:     NoneV | one | many
#     duration: NoneV | Z (zero) | E (exact, non-zero) | M (may be nominal)
# =====================================================================
class RecPlugin(Plugin):
    def __init__(self, ctx, f, selfn="self"):
        self.ctx = ctx
        self.f = f
        self.selfn = selfn
        self.log = []
        self.yields = []      # (value, state-at-yield)
        self.consulted = []   # bounds consulted: (slot, value, state)
        self.steps = []       # (method, in_reverse value)

    # ------------------------------------------------------------ values
    def eval(self, e, d):
        if e is None:
            return NONE
        if isinstance(e, ast.Constant):
            if e.value is None:
                return NONE
            if isinstance(e.value, bool):
                return e.value
            return ("k", e.value)
        if isinstance(e, ast.Name):
            return d.get(e.id, "?")
        if isinstance(e, ast.Attribute):
            if isinstance(e.value, ast.Name) and e.value.id == self.selfn:
                if e.attr in ("get_prev", "get_next"):
                    return ("meth", e.attr)
                return d.get(e.attr, "?")
            return "?"
        if isinstance(e, ast.Tuple):
            return tuple(self.eval(x, d) for x in e.elts)
        if isinstance(e, ast.Compare) or (
                isinstance(e, ast.UnaryOp) and isinstance(e.op, ast.Not)):
            # a truth value: decided by the same refinement the tests use
            inner = e.operand if isinstance(e, ast.UnaryOp) else e
            neg = isinstance(e, ast.UnaryOp)
            if isinstance(inner, (ast.Compare, ast.Name, ast.Attribute)):
                n_log = len(self.log)
                t, f = self.refine(inner, dict(d))
                if t and not f:
                    return not neg
                if f and not t:
                    return neg
                del self.log[n_log:]
            return "?"
        if isinstance(e, ast.BoolOp):
            # truth of `a or b` / `a and b` where every part is decided
            vals = []
            for x in e.values:
                if isinstance(x, (ast.Compare, ast.BoolOp)) or (
                        isinstance(x, ast.UnaryOp) and
                        isinstance(x.op, ast.Not)):
                    vals.append(self.eval(x, d))
                else:
                    n_log = len(self.log)
                    t, f = self.refine(x, dict(d))
                    vals.append(True if t and not f else (
                        False if f and not t else "?"))
                    del self.log[n_log:]
            if isinstance(e.op, ast.Or):
                if any(v is True for v in vals):
                    return True
                if all(v is False for v in vals):
                    return False
            else:
                if any(v is False for v in vals):
                    return False
                if all(v is True for v in vals):
                    return True
            return "?"
        if isinstance(e, ast.IfExp):
            t, f = self.refine(e.test, dict(d))
            if t and not f:
                return self.eval(e.body, d)
            if f and not t:
                return self.eval(e.orelse, d)
            a, b = self.eval(e.body, d), self.eval(e.orelse, d)
            return a if a == b else "?"
        if isinstance(e, ast.BinOp):
            a, b = self.eval(e.left, d), self.eval(e.right, d)
            pts = {"G", "Gs", "Ge", "D", "St"}
            dus = {"Z", "Zt", "E", "M"}
            if a in pts and b in pts:
                return "E"               # point - point: exact (R12 keyword
                #                          clause), non-zero after the == test
            if a in pts and b in dus:
                return a if b in ("Z", "Zt") else "D"
            if a in dus and b in pts:
                return b if a in ("Z", "Zt") else "D"
            if a in dus:
                return a                 # duration * n, duration +- x
            if b in dus:
                return b                 # n * duration
            if a == NONE or b == NONE:
                self.log.append(("none-arith", e.lineno, U(e)))
                return "?"
            if isinstance(a, tuple) and isinstance(b, tuple) and \
                    a[0] == "k" and b[0] == "k":
                return ("k", None)
            return "?"
        if isinstance(e, ast.Call) and isinstance(
                e.func, ast.Attribute) and e.func.attr == "update" and \
                isinstance(e.func.value, ast.Name) and isinstance(
                    d.get(e.func.value.id), tuple) and \
                d[e.func.value.id][:1] == ("dict",):
            # kwargs.update(k=v, ...) / kwargs.update({...}) on a local
            # dict whose entries are known
            items = list(d[e.func.value.id][1])
            known = True
            for a in e.args:
                av = self.eval(a, d)
                if isinstance(av, tuple) and av[:1] == ("dict",):
                    items += list(av[1])
                else:
                    known = False
            for k in e.keywords:
                if k.arg is None:
                    known = False
                else:
                    items = [it for it in items if it[0] != k.arg] + [
                        (k.arg, self.eval(k.value, d))]
            d[e.func.value.id] = ("dict", tuple(items)) if known else "?"
            return NONE
        if isinstance(e, ast.Call):
            fn = U(e.func)
            if fn.endswith("Duration") and all(
                    isinstance(k.value, ast.Constant) and k.value.value == 0
                    for k in e.keywords) and not e.args:
                return "Z"
            for a in e.args:
                self.eval(a, d)
            return "?"
        if isinstance(e, ast.ListComp):
            return "?"
        if isinstance(e, ast.Dict):
            return ("dict", tuple(
                (k.value if isinstance(k, ast.Constant) else None,
                 self.eval(v, d)) for k, v in zip(e.keys, e.values)))
        return "?"

    def assign(self, t, v, d, st):
        if isinstance(t, ast.Attribute) and isinstance(t.value, ast.Name) \
                and t.value.id == self.selfn:
            if isinstance(v, tuple) and v and v[0] == "k":
                if t.attr == "_repetitions":
                    v = "one" if v[1] == 1 else "many"
            d[t.attr] = v
        elif isinstance(t, ast.Name):
            d[t.id] = v
        elif isinstance(t, (ast.Tuple, ast.List)):
            for i, x in enumerate(t.elts):
                self.assign(x, v[i] if isinstance(v, tuple) and
                            len(v) == len(t.elts) else "?", d, st)
        elif isinstance(t, ast.Subscript) and isinstance(t.value, ast.Name):
            cur = d.get(t.value.id)
            if isinstance(cur, tuple) and cur and cur[0] == "dict" and \
                    isinstance(t.slice, ast.Constant):
                items = dict(cur[1])
                items[t.slice.value] = v
                d[t.value.id] = ("dict", tuple(sorted(items.items(),
                                                      key=str)))
            else:
                d[t.value.id] = "?"

    def augassign(self, st, d):
        self.assign(st.target, "?", d, st)

    # ------------------------------------------------------- refinement
    def refine(self, test, d):
        val = lambda x: self.eval(x, d)    # noqa: E731
        if isinstance(test, ast.Compare) and len(test.ops) == 1:
            l, op, r = test.left, test.ops[0], test.comparators[0]
            lv, rv = val(l), val(r)
            if isinstance(op, (ast.Is, ast.IsNot)) and rv == NONE:
                if lv in ("?", "St"):
                    return [d], [dict(d)]
                isnone = lv == NONE
                return ([d], []) if isnone == isinstance(op, ast.Is) \
                    else ([], [d])
            if isinstance(op, (ast.Eq, ast.NotEq)) and isinstance(
                    rv, tuple) and rv[0] == "k" and lv in (
                        "one", "many", NONE):
                eq = (lv == "one" and rv[1] == 1)
                if lv == "many" and rv[1] != 1:
                    return [d], [dict(d)]
                res = eq if isinstance(op, ast.Eq) else not eq
                return ([d], []) if res else ([], [d])
            if isinstance(op, (ast.LtE, ast.Lt)) and isinstance(
                    rv, tuple) and rv[0] == "k" and lv in ("one", "many"):
                return [], [d]           # repetitions > 0 (checked above it)
            if rv == "Z" and lv in ("Z", "Zt", "E", "M"):
                # Z: every component zero; Zt: zero *length* spelled with
                # cancelling components (P1DT-24H) - equal to P0Y but truthy
                if isinstance(op, ast.Lt):
                    return [], [d]       # intervals are non-negative here
                if isinstance(op, ast.Eq):
                    return ([d], []) if lv in ("Z", "Zt") else ([], [d])
                if isinstance(op, ast.NotEq):
                    return ([], [d]) if lv in ("Z", "Zt") else ([d], [])
            if isinstance(rv, tuple) and rv[0] == "k" and isinstance(
                    lv, tuple) and lv[0] == "k" and isinstance(
                        op, (ast.Eq, ast.NotEq)):
                res = (lv[1] == rv[1]) == isinstance(op, ast.Eq)
                return ([d], []) if res else ([], [d])
            pts = ("G", "Gs", "Ge", "D", "St")
            if lv in pts and rv in pts:
                if getattr(self, "points_distinct", False):
                    # the two points are a start and a later second point
                    # shifted by the same duration: distinct and ordered
                    if isinstance(op, (ast.Eq,)):
                        return [], [d]
                    if isinstance(op, ast.NotEq):
                        return [d], []
                    if isinstance(op, (ast.Lt, ast.LtE)) and \
                            U(l).endswith("_end_point"):
                        return [], [d]
                return [dict(d)], [dict(d)]
        if isinstance(test, ast.Call):
            fn = U(test.func)
            if fn == "%s._get_is_in_bounds" % self.selfn:
                self.on_bounds(test, d)
                return [dict(d)], [dict(d)]
            if fn == "isinstance":
                return [d], []
        if isinstance(test, (ast.Name, ast.Attribute)):
            v = val(test)
            if v in (NONE, "Z") or v is False:
                return [], [d]
            if v in ("E", "M", "Zt", "G", "Gs", "Ge", "D", "one", "many") \
                    or v is True:
                return [d], []
            if v == "St":
                return [dict(d)], [dict(d)]
        self.log.append(("unknown-cond", getattr(test, "lineno", 0),
                         U(test)))
        return [dict(d)], [dict(d)]

    def on_bounds(self, call, d):
        for slot in ("_start_point", "_end_point"):
            self.consulted.append((slot, d.get(slot), freeze(d)))

    def on_yield(self, st, d, v):
        self.yields.append((v, freeze(d)))
        ys = d.get("$yields", ())
        if len(ys) < 2:
            d["$yields"] = ys + (v,)


def _norm_reps(v):
    if v == ("k", 1):
        return "one"
    return v


def _ctor_post_states(ctx, f, inputs, distinct=False):
    """Abstractly run TimeRecurrence.__init__ on one input shape.
    -> (set of post-state tuples over SLOTS, raised?, log)"""
    body = [st for st in f.node.body if not _is_typecheck_stmt(st)]
    p = RecPlugin(ctx, f, f.self_name)
    p.points_distinct = distinct
    eng = Engine(p)
    d = dict(inputs)
    fl = eng.run(body, {freeze(d)})
    outs = set()
    for o in fl.normal | fl.ret:
        o = thaw(o)
        outs.add(tuple(_norm_reps(o.get(k, NONE)) if k == "_repetitions"
                       else o.get(k, NONE) for k in SLOTS))
    return outs, bool(fl.exc), p.log


def _is_typecheck_stmt(st):
    if isinstance(st, ast.Expr) and isinstance(st.value, ast.Call) and \
            "type_checker" in U(st.value.func):
        return True
    if isinstance(st, ast.Assign) and isinstance(st.value, ast.Tuple) and \
            all(isinstance(x, ast.Tuple) for x in st.value.elts):
        return True
    if isinstance(st, ast.Expr) and isinstance(st.value, ast.Constant):
        return True
    return False


def _state_name(t):
    fmt, reps, sp, ep, sec, du = t
    return "fmt=%s,reps=%s,start=%s,end=%s,dur=%s" % (
        fmt[1] if isinstance(fmt, tuple) else fmt, reps, sp, ep, du)


def rec_states(ctx):
    """Step 1: reachable constructor post-states."""
    if "recstates" in ctx.cache:
        return ctx.cache["recstates"]
    rec, meth = _get_methods(ctx)
    init = meth["__init__"]
    params = init.call_params
    want = ["repetitions", "start_point", "duration", "end_point",
            "min_point", "max_point"]
    if params[:6] != want:
        raise AnalysisError("TimeRecurrence.__init__ parameters are %s" %
                            params)
    post = {}
    logs = []
    raised_for = []
    for reps, sp, ep, du in itertools.product(
            [NONE, "one", "many"], [NONE, "Gs"], [NONE, "Ge"],
            [NONE, "Z", "Zt", "E", "M"]):
        shape = {"repetitions": reps, "start_point": sp, "end_point": ep,
                 "duration": du, "min_point": NONE, "max_point": NONE}
        outs, raised, log = _ctor_post_states(ctx, init, shape)
        logs.extend(log)
        for o in outs:
            post.setdefault(o, []).append((reps, sp, ep, du))
        if not outs:
            raised_for.append((reps, sp, ep, du))
    ctx.cache["recstates"] = (post, raised_for, logs)
    return ctx.cache["recstates"]


def r18_rec_state(ctx):
    rep = ctx.rep
    rec, meth = _get_methods(ctx)
    init, it, add = meth["__init__"], meth["__iter__"], meth["__add__"]
    post, raised_for, logs = rec_states(ctx)
    P12, P14 = ("C12",), ("C14",)
    # ---------------------------------------------------------- step 1
    rule = "R18.ctor-invariant"
    rep.need_anchor(rule, "constructor post-states")
    for t in sorted(post, key=str):
        rep.anchor(rule, "constructor post-states")
        fmt, reps, sp, ep, sec, du = t
        key = ctx.fkey(init, None, "state(%s)" % _state_name(t))
        src = post[t][0]
        rep.check(
            sp != NONE or ep != NONE, rule, key + ":anchored", init.loc(),
            "post-state has an anchor", "the constructor accepts the input "
            "shape (reps=%s, start=%s, end=%s, duration=%s) and produces a "
            "recurrence with no start and no end point (R1/None/None)" % src,
            P14 + P12)
        rep.check(
            not (du in (NONE, "Z", "Zt") and reps != "one"), rule,
            key + ":single-point-reps", init.loc(),
            "no (or a zero-length) interval implies exactly one repetition",
            "the constructor keeps a zero-length interval (%s; e.g. "
            "P1DT-24H, which equals P0Y but is truthy) with repetitions %s: "
            "iteration never advances" % (du, reps) if du == "Zt" else
            "post-state has interval %s but repetitions %s" % (du, reps),
            P12)
        for src_reps, src_sp, src_ep, src_du in post[t]:
            if src_sp == "Gs" and sp != "Gs":
                rep.violation(
                    rule, key + ":given-start-kept", init.loc(),
                    "given (repetitions=%s, start, end=%s, interval=%s) the "
                    "constructor replaces the given start point by %s: the "
                    "series no longer starts at (a one-point series is no "
                    "longer) its start anchor" % (src_reps, src_ep, src_du,
                                                  sp), P12 + P14)
                break
            if fmt == ("k", 4) and src_ep == "Ge" and ep != "Ge":
                rep.violation(
                    rule, key + ":given-end-kept", init.loc(),
                    "a duration/end recurrence replaces its given end "
                    "point by %s" % ep, P12 + P14)
                break
        if fmt == ("k", 1):
            rep.check(sec != NONE, rule, key + ":second-point", init.loc(),
                      "notation 1 keeps its second point",
                      "notation-1 post-state without a second point", P14)
    for kind, line, text in logs:
        if kind == "unknown-cond":
            rep.note("R18", "condition not understood (forked): %s" % text,
                     P12 + P14)
    # ---------------------------------------------------------- step 3
    rule = "R18.iter"
    rep.need_anchor(rule, "iteration states")
    for t in sorted(post, key=str):
        fmt, reps, sp, ep, sec, du = t
        if sp == NONE and ep == NONE:
            continue
        rep.anchor(rule, "iteration states")
        d = dict(zip(SLOTS, t))
        d["_min_point"] = NONE
        d["_max_point"] = NONE
        p = RecPlugin(ctx, it, it.self_name)

        class IterP(RecPlugin):
            pass
        p = _IterPlugin(ctx, it, it.self_name)
        eng = Engine(p)
        fl = eng.run(it.node.body, {freeze(d)})
        sname = _state_name(t)
        firsts = set()
        seqs = set()
        for o in fl.normal | fl.ret:
            ys = thaw(o).get("$yields", ())
            seqs.add(ys)
            if ys:
                firsts.add(ys[0])
        firsts |= {v for v, _ in p.yields[:0]}
        first_vals = {ys[0] for ys in seqs if ys}
        key = ctx.fkey(it, None, "state(%s)" % sname)
        single = reps == "one" or du in (NONE, "Z")
        if single:
            good = all(len(ys) <= 1 for ys in seqs) and all(
                y in ("Gs", "Ge", "D") for ys in seqs for y in ys) and any(
                    len(ys) == 1 for ys in seqs)
            rep.check(good, rule, key + ":single-point", it.loc(),
                      "a single-point recurrence yields its anchor at most "
                      "once and then stops",
                      "single-point state yields %s" % sorted(seqs),
                      P12 + ("C19", "C13", "C14"))
            continue
        # direction and stepping
        dirs = {(m, rv) for m, rv in p.steps}
        want_rev = sp == NONE
        good_dir = bool(dirs) and all(
            (m == "get_prev") == want_rev for m, rv in dirs)
        rep.check(good_dir, rule, key + ":direction", it.loc(),
                  "walk is %s, stepping with %s" % (
                      "reverse from the end" if want_rev else
                      "forward from the start",
                      sorted({m for m, _ in dirs})),
                  "walk direction/stepping is inconsistent: steps %s for a "
                  "recurrence whose start is %s" % (sorted(dirs), sp), P12)
        # (i) first yielded point is the given anchor
        want_first = "Ge" if want_rev else "Gs"
        bad_first = {v for v in first_vals if v != want_first and not (
            v == "D" and du == "E")}
        rep.check(
            not bad_first and bool(first_vals), rule,
            key + ":first-yield=" + "/".join(sorted(first_vals)), it.loc(),
            "iteration starts at %s" % ("the given anchor" if first_vals <=
                                        {"Gs", "Ge"} else "an anchor "
                                        "equivalent to the given one (exact "
                                        "interval)"),
            "iteration of a %s recurrence with a possibly nominal interval "
            "starts at the *derived* %s point: start + d*(n-1) and n-1 "
            "repeated additions differ for month/year intervals, so the "
            "given anchor need not be a member" % (
                "notation-%s" % (fmt[1] if isinstance(fmt, tuple) else fmt),
                "start" if not want_rev else "end"), P12)
        # (ii) the far bound of a bounded walk with a nominal interval
        far = "_start_point" if want_rev else "_end_point"
        far_v = d[far]
        consulted = {s for s, v, _ in p.consulted}
        if du == "M" and far in consulted:
            rep.check(
                far_v != "D", rule, key + ":far-bound=" + str(far_v),
                it.loc(),
                "the walk is cut by a given bound (or none)",
                "the walk of a recurrence with a possibly nominal interval "
                "is cut by the *derived* %s (anchor + d*(n-1)); repeated "
                "addition of a month/year interval can overshoot it, so "
                "fewer than n points are yielded" % far[1:], P12)
    # ---------------------------------------------------------- step 2
    rule = "R18.shift"
    rep.need_anchor(rule, "shift states")
    # __sub__ delegates to __add__
    sub = meth["__sub__"]
    rep.check(add.qual in ctx.res.callees(sub.qual), rule,
              ctx.fkey(sub, None, "delegates"), sub.loc(),
              "r - d is r + (-d)", "TimeRecurrence.__sub__ does not "
              "delegate to __add__", P14)
    for t in sorted(post, key=str):
        fmt, reps, sp, ep, sec, du = t
        if sp == NONE and ep == NONE:
            continue
        rep.anchor(rule, "shift states")
        d = dict(zip(SLOTS, t))
        d["_min_point"] = NONE
        d["_max_point"] = NONE
        d[add.params[1]] = "E"
        p = _AddPlugin(ctx, add, add.self_name, add.params[1])
        eng = Engine(p)
        fl = eng.run(add.node.body, {freeze(d)})
        key = ctx.fkey(add, None, "state(%s)" % _state_name(t))
        if not fl.ret:
            rep.violation(rule, key + ":no-result", add.loc(),
                          "r + d raises or returns nothing for this "
                          "notation", P14)
            continue
        for r_ in fl.ret:
            c = thaw(r_).get("$ret")
            if not (isinstance(c, tuple) and c and c[0] == "ctor"):
                rep.violation(rule, key + ":not-rebuilt", add.loc(),
                              "r + d does not rebuild a recurrence through "
                              "the constructor (returns %r)" % (c,), P14)
                continue
            kw = dict(c[1])
            unshifted = [k for k in ("start_point", "end_point")
                         if kw.get(k, NONE) in ("G", "Gs", "Ge", "D")]
            kw = {k: (("Gs" if k == "start_point" else "Ge")
                      if v == "Gsh" else v) for k, v in kw.items()}
            shape = {"repetitions": kw.get("repetitions", NONE),
                     "start_point": kw.get("start_point", NONE),
                     "end_point": kw.get("end_point", NONE),
                     "duration": kw.get("duration", NONE),
                     "min_point": NONE, "max_point": NONE}
            for k in ("min_point", "max_point"):
                if k not in kw:
                    rep.violation(rule, key + ":drops-" + k, add.loc(),
                                  "r + d does not pass %s on" % k, P14)
            bad_kw = [k for k, v in shape.items() if v == "?"]
            distinct = (du == "E" and shape["start_point"] == "Gs" and
                        shape["end_point"] == "Ge" and
                        shape["duration"] == NONE)
            outs, raised, log = _ctor_post_states(ctx, init, shape, distinct)
            problems = []
            if unshifted:
                problems.append("%s is passed on without adding the shift"
                                % unshifted)
            if bad_kw:
                problems.append("argument(s) %s are not an anchor, the "
                                "repetitions or the interval of r" % bad_kw)
            if not outs:
                problems.append("the rebuilt shape %s is refused by the "
                                "constructor" % {k: v for k, v in
                                                 shape.items() if v != NONE})
            for o in outs:
                ofmt, oreps, osp, oep, osec, odu = o
                if sp != NONE and osp == NONE:
                    problems.append("start point lost")
                if ep != NONE and oep == NONE:
                    problems.append("end point lost")
                if osp == NONE and oep == NONE:
                    problems.append("result has no anchor (R1/None/None)")
                if oreps != reps:
                    problems.append("repetitions %s -> %s" % (reps, oreps))
                if odu != du:
                    problems.append("interval %s -> %s" % (du, odu))
                # the anchors the caller gave must be the ones shifted
                for nm, a, b in (("start", sp, osp), ("end", ep, oep)):
                    if a in ("Gs", "Ge") and b == "D" and odu == "M":
                        problems.append(
                            "given %s point is re-derived after the shift"
                            % nm)
                if ofmt != fmt:
                    rep.note(rule, "shift of state(%s) comes back in "
                             "notation %s" % (_state_name(t), ofmt[1]), P14)
            rep.check(not problems, rule, key + ":kept", add.loc(),
                      "r + d keeps anchors (shifted), repetitions and "
                      "interval",
                      "r + d for a recurrence in this state: %s" %
                      "; ".join(sorted(set(problems))), P14)


class _IterPlugin(RecPlugin):
    def eval(self, e, d):
        if isinstance(e, ast.Call):
            fn = U(e.func)
            via = None
            if isinstance(e.func, ast.Name):
                bound = d.get(e.func.id)
                if isinstance(bound, tuple) and len(bound) == 2 and \
                        bound[0] == "meth":
                    via = bound[1]
            if via is not None:
                for a in e.args:
                    self.eval(a, d)
                self.steps.append((via, "?"))
                return "St"
            for m in ("get_prev", "get_next"):
                if fn == "%s.%s" % (self.selfn, m):
                    flag = "?"
                    p_ = parent(e)
                    child = e
                    while p_ is not None and not isinstance(
                            p_, ast.FunctionDef):
                        if isinstance(p_, ast.If) and isinstance(
                                p_.test, ast.Name):
                            v = d.get(p_.test.id, "?")
                            inbody = any(child is b or any(
                                child is x for x in ast.walk(b))
                                for b in p_.body)
                            if v in (True, False):
                                flag = v if inbody else (not v)
                            break
                        child, p_ = p_, parent(p_)
                    self.steps.append((m, flag))
                    return "St"
        return super().eval(e, d)


class _AddPlugin(RecPlugin):
    def __init__(self, ctx, f, selfn, other):
        super().__init__(ctx, f, selfn)
        self.other = other

    def eval(self, e, d):
        if isinstance(e, ast.BinOp):
            a, b = self.eval(e.left, d), self.eval(e.right, d)
            # anchor +/- the shift duration: the shifted *given* anchor
            if (b == "E" and isinstance(e.right, ast.Name) and
                    e.right.id == self.other) or (
                        a == "E" and isinstance(e.left, ast.Name) and
                        e.left.id == self.other):
                pt = a if b == "E" and isinstance(e.right, ast.Name) else b
                if pt == NONE:
                    self.log.append(("none-arith", e.lineno, U(e)))
                    return "?"
                if pt in ("G", "Gs", "Ge", "D"):
                    return "Gsh"
            return super().eval(e, d)
        if isinstance(e, ast.Call):
            fn = U(e.func)
            if fn in ("%s.__class__" % self.selfn, "TimeRecurrence",
                      "type(%s)" % self.selfn):
                kw = {}
                for k in e.keywords:
                    v = self.eval(k.value, d)
                    if k.arg is not None:
                        kw[k.arg] = v
                    elif isinstance(v, tuple) and v and v[0] == "dict":
                        for kk, vv in v[1]:
                            kw[kk] = vv
                    else:
                        kw["?"] = "?"
                params = ["repetitions", "start_point", "duration",
                          "end_point", "min_point", "max_point"]
                for i, a in enumerate(e.args):
                    if i < len(params):
                        kw[params[i]] = self.eval(a, d)
                return ("ctor", freeze(kw))
            if fn == "isinstance":
                return True
        return super().eval(e, d)

    def refine(self, test, d):
        if isinstance(test, ast.Call) and U(test.func) == "isinstance":
            return [d], []
        return super().refine(test, d)


# =====================================================================
#  R19
# =====================================================================
class _GuardPlugin(Plugin):
    """Values: frozensets over {anchor, none, computed, guarded, probe,
    other}."""

    def __init__(self, ctx, f, summaries):
        self.ctx = ctx
        self.f = f
        self.selfn = f.self_name
        self.summaries = summaries
        self.returns = []        # (stmt, value atoms)

    def _is_tp(self, e):
        return "TimePoint" in self.ctx.types_in(self.f, e)

    def eval(self, e, d):
        fs = frozenset
        if e is None or (isinstance(e, ast.Constant) and e.value is None):
            return fs(["none"])
        if isinstance(e, ast.Constant):
            return fs(["other"])
        if isinstance(e, ast.Name):
            return d.get(e.id, fs(["other"]))
        if isinstance(e, ast.Attribute) and isinstance(e.value, ast.Name) \
                and e.value.id == self.selfn:
            if self._is_tp(e):
                return fs(["anchor"])
            return fs(["other"])
        if isinstance(e, ast.Call):
            if isinstance(e.func, ast.Attribute) and isinstance(
                    e.func.value, ast.Name) and \
                    e.func.value.id == self.selfn:
                m = e.func.attr
                if m in self.summaries:
                    return self.summaries[m]
            if self._is_tp(e):
                return fs(["computed"])
            return fs(["other"])
        if isinstance(e, ast.BinOp):
            if self._is_tp(e):
                return fs(["computed"])
            return fs(["other"])
        if isinstance(e, ast.IfExp):
            return self.eval(e.body, d) | self.eval(e.orelse, d)
        if self._is_tp(e):
            return fs(["computed"])
        return fs(["other"])

    def assign(self, t, v, d, st):
        if isinstance(t, ast.Name):
            d[t.id] = v if isinstance(v, frozenset) else frozenset(["other"])
        elif isinstance(t, (ast.Tuple, ast.List)):
            for x in t.elts:
                self.assign(x, frozenset(["other"]), d, st)

    def augassign(self, st, d):
        self.assign(st.target, self.eval(ast.BinOp(
            left=st.target, op=st.op, right=st.value), d), d, st)

    def refine(self, test, d):
        fs = frozenset
        if isinstance(test, ast.Call) and isinstance(
                test.func, ast.Attribute) and isinstance(
                    test.func.value, ast.Name) and \
                test.func.value.id == self.selfn and \
                test.func.attr == "_get_is_in_bounds" and test.args and \
                isinstance(test.args[0], ast.Name):
            v = test.args[0].id
            cur = d.get(v, fs(["other"]))
            t = dict(d)
            t[v] = fs(("guarded" if a in ("computed", "probe") else a)
                      for a in cur if a != "none") or fs(["guarded"])
            return [t], [dict(d)]
        if isinstance(test, ast.Compare) and len(test.ops) == 1 and \
                isinstance(test.left, ast.Name) and isinstance(
                    test.comparators[0], ast.Constant) and \
                test.comparators[0].value is None and isinstance(
                    test.ops[0], (ast.Is, ast.IsNot)):
            v = test.left.id
            cur = d.get(v, fs(["other"]))
            isn = dict(d)
            notn = dict(d)
            outs_is, outs_not = [], []
            if "none" in cur:
                isn[v] = fs(["none"])
                outs_is = [isn]
            rest = cur - {"none"}
            if rest:
                notn[v] = rest
                outs_not = [notn]
            if isinstance(test.ops[0], ast.Is):
                return outs_is, outs_not
            return outs_not, outs_is
        return [d], [dict(d)]

    def on_return(self, st, d, v):
        self.returns.append((st, v if isinstance(v, frozenset)
                             else frozenset(["other"])))


def r19_rec_bounds(ctx):
    rep = ctx.rep
    rec, meth = _get_methods(ctx)
    P13 = ("C13",)
    # ---------------------------------------------------------------- (a)
    rule = "R19.guarded-return"
    rep.need_anchor(rule, "query methods")
    names = ["get_next", "get_prev", "get_first_after"]
    summaries = {n: frozenset(["guarded", "none"]) for n in names}
    results = {}
    for _round in range(4):
        new = {}
        for n in names:
            f = meth[n]
            p = _GuardPlugin(ctx, f, summaries)
            init = {}
            for prm in f.call_params:
                init[prm] = frozenset(["probe"])
            Engine(p).run(f.node.body, {freeze(init)})
            atoms = frozenset().union(*[v for _, v in p.returns]) \
                if p.returns else frozenset(["none"])
            new[n] = atoms
            results[n] = p.returns
        if new == summaries:
            break
        summaries = new
    for n in names:
        f = meth[n]
        rep.anchor(rule, "query methods")
        by_stmt = {}
        for st, atoms in results[n]:
            by_stmt.setdefault(id(st), (st, set()))[1].update(atoms)
        for st, atoms in by_stmt.values():
            bad = atoms & {"computed", "probe"}
            key = ctx.fkey(f, st, "guarded")
            rep.check(
                not bad, rule, key, f.loc(st),
                "returns %s" % "/".join(sorted(atoms)),
                "%s returns a %s time point that has not passed "
                "self._get_is_in_bounds (its sibling queries return a "
                "computed point only inside the bounds guard): a point "
                "beyond the end of a bounded series is handed out" % (
                    n, "/".join(sorted(bad))), P13)
    # ------------------------------------------------------------ (b')
    # "first after" is strictly after: the exact-interval shortcut adds a
    # strictly positive amount to the probe.  With r the time since the last
    # member (0 <= r < period), `period - r` is in (0, period]; an amount of
    # the form `x % period` is in [0, period) and is zero for a probe that is
    # itself a member.
    from ..flow import single_def
    rule_sa = "R19.strictly-after"
    gfa = meth["get_first_after"]
    probe = gfa.call_params[0] if gfa.call_params else None
    adds = []
    for n in walk_no_nested(gfa.node):
        if isinstance(n, ast.BinOp) and isinstance(n.op, ast.Add) and \
                probe in (U(n.left), U(n.right)):
            adds.append(n.right if U(n.left) == probe else n.left)

    def resolve(e, depth=0):
        if isinstance(e, ast.Name) and depth < 4:
            v = single_def(gfa.node, e.id)
            if v is not None:
                return resolve(v, depth + 1)
        return e

    def is_mod_amount(e, depth=0):
        """expression whose value is some x % period (possibly wrapped in
        floor/int/Duration(seconds=...))"""
        e = resolve(e)
        if isinstance(e, ast.BinOp) and isinstance(e.op, ast.Mod):
            return True
        if isinstance(e, ast.Call) and U(e.func) in ("floor", "int", "abs",
                                                     "math.floor") and e.args:
            return is_mod_amount(e.args[0], depth + 1)
        if isinstance(e, ast.Call) and U(e.func).endswith("Duration"):
            for k in e.keywords:
                if is_mod_amount(k.value, depth + 1):
                    return True
        if isinstance(e, ast.Subscript) and isinstance(
                e.value, ast.Call) and U(e.value.func) == "divmod":
            return U(e.slice) == "1"
        if isinstance(e, ast.Name):
            # second target of `q, r = divmod(...)`
            for st in walk_no_nested(gfa.node):
                if isinstance(st, ast.Assign) and isinstance(
                        st.targets[0], ast.Tuple) and len(
                            st.targets[0].elts) == 2 and isinstance(
                                st.value, ast.Call) and U(
                                    st.value.func) == "divmod" and U(
                                        st.targets[0].elts[1]) == e.id:
                    return True
        return False
    for e in adds:
        e0 = resolve(e)
        key = ctx.fkey(gfa, None, "strictly-after")
        if isinstance(e0, ast.BinOp) and isinstance(e0.op, ast.Sub) and \
                "_duration" in U(e0.left) and is_mod_amount(e0.right):
            rep.ok(rule_sa, key, gfa.loc(e), "the shortcut adds period - "
                   "(time since the last member): strictly positive", P13)
        elif is_mod_amount(e0):
            rep.violation(
                rule_sa, key, gfa.loc(e),
                "get_first_after adds %s to the probe: a remainder modulo "
                "the period is zero when the probe is itself a member, so "
                "the probe's own instant is returned instead of the next "
                "member (and the last member instead of None)" % U(e0)[:80],
                P13)
        elif "_duration" in U(e0) or "Duration" in U(e0):
            rep.undecided(rule_sa, key, gfa.loc(e), "the amount %s added to "
                          "the probe is not of a form whose sign this rule "
                          "reads" % U(e0)[:60], P13)
    # ---------------------------------------------------------------- (c)
    rule = "R19.neighbour-step"
    rep.need_anchor(rule, "get_next/get_prev")
    for n, op in (("get_next", ast.Add), ("get_prev", ast.Sub)):
        f = meth[n]
        rep.anchor(rule, "get_next/get_prev")
        prm = f.call_params[0] if f.call_params else None
        steps = [b for b in walk_no_nested(f.node) if isinstance(b, ast.BinOp)
                 and "TimePoint" in ctx.types_in(f, b)]
        good = len(steps) == 1 and isinstance(steps[0].op, op) and \
            U(steps[0].left) == prm and \
            U(steps[0].right) == "%s._duration" % f.self_name
        rep.check(good, rule, ctx.fkey(f, None, "one-interval"), f.loc(),
                  "%s moves by exactly one interval (%s)" % (
                      n, U(steps[0]) if steps else "-"),
                  "%s should compute `%s %s self._duration` exactly once; "
                  "found %s" % (n, prm, "+" if op is ast.Add else "-",
                                [U(s) for s in steps]), P13 + ("C12",))
        # None for single points
        # (every return of a point lies on a path that has excluded
        # `_repetitions == 1`)
        from ..flow import path_conds as _pcn

        def excludes_single(r):
            todo = list(_pcn(r))
            while todo:
                t, pol = todo.pop()
                if isinstance(t, ast.UnaryOp) and isinstance(t.op, ast.Not):
                    todo.append((t.operand, not pol))
                elif isinstance(t, ast.BoolOp) and (
                        isinstance(t.op, ast.And) == pol):
                    todo += [(v, pol) for v in t.values]
                elif isinstance(t, ast.Compare) and len(t.ops) == 1 and \
                        isinstance(t.ops[0], (ast.Eq, ast.NotEq)):
                    sides = {U(t.left), U(t.comparators[0])}
                    if sides == {"%s._repetitions" % f.self_name, "1"} and \
                            isinstance(t.ops[0], ast.NotEq) == pol:
                        return True
            return False
        rets_ = [r for r in walk_no_nested(f.node)
                 if isinstance(r, ast.Return) and r.value is not None and
                 U(r.value) != "None"]
        okn = bool(rets_) and all(excludes_single(r) for r in rets_)
        rep.check(okn, rule, ctx.fkey(f, None, "single-point-none"), f.loc(),
                  "returns None for a single-point recurrence",
                  "%s no longer returns None first when repetitions == 1" %
                  n, P13, nontrivial=False)
    # ---------------------------------------------------------------- (b)
    rule = "R19.via-iteration"
    rep.need_anchor(rule, "membership/indexing")
    itq = meth["__iter__"].qual
    for n in ("get_is_valid", "__getitem__"):
        f = meth[n]
        rep.anchor(rule, "membership/indexing")
        # `for` statements and comprehension clauses alike
        loops = [(l, l.iter, l.target) for l in walk_no_nested(f.node)
                 if isinstance(l, ast.For)]
        for c_ in walk_no_nested(f.node):
            for g_ in getattr(c_, "generators", ()):
                loops.append((c_, g_.iter, g_.target))
        ok_loop = False
        loopvar = None
        the_loop = None
        self_iters = ("%s.__iter__()" % f.self_name, f.self_name,
                      "iter(%s)" % f.self_name)
        for l, it, target in loops:
            if isinstance(it, ast.Call) and U(it.func) == "enumerate" and \
                    it.args:
                it = it.args[0]
                tv = target.elts[1] if isinstance(target, ast.Tuple) \
                    else None
            else:
                tv = target
            if U(it) in self_iters:
                ok_loop = True
                loopvar = U(tv) if tv is not None else None
                the_loop = l
        if not ok_loop and any(
                isinstance(c_, ast.Call) and U(c_.func) not in (
                    "isinstance",) and any(U(a) in self_iters
                                           for a in c_.args)
                for c_ in walk_no_nested(f.node)):
            rep.undecided(rule, ctx.fkey(f, None, "iterates-self"), f.loc(),
                          "%s hands the recurrence's iteration to a helper "
                          "(islice, list, next ...): which point it returns "
                          "/ tests is not read by this rule" % n, P13)
            continue
        rep.check(ok_loop, rule, ctx.fkey(f, None, "iterates-self"), f.loc(),
                  "%s obtains its points from self.__iter__()" % n,
                  "%s does not take its points from iteration of the "
                  "recurrence itself" % n, P13)
        if not ok_loop:
            continue
        if n == "__getitem__":
            rets = [r for r in walk_no_nested(f.node)
                    if isinstance(r, ast.Return)]
            from ..flow import alternatives as _alts

            loop_nodes = set(map(id, ast.walk(the_loop)))
            rebound = any(
                isinstance(b_, ast.Name) and b_.id == loopvar and
                isinstance(b_.ctx, ast.Store) and id(b_) not in loop_nodes
                for b_ in ast.walk(f.node))

            def is_iterated(e, depth=0, in_loop=False):
                """the iterated point itself, or what next() takes from a
                generator that yields it"""
                if U(e) == loopvar and not isinstance(the_loop, ast.For):
                    return False
                if U(e) == loopvar:
                    # the name is the iterated point where it is read
                    # inside the loop, or anywhere when the loop target is
                    # its only binding in the function
                    return in_loop or not rebound
                if isinstance(e, ast.Call) and U(e.func) == "next" and \
                        e.args and isinstance(
                            e.args[0], ast.GeneratorExp) and \
                        e.args[0] is the_loop and \
                        U(e.args[0].elt) == loopvar:
                    return True
                if isinstance(e, ast.Name) and depth < 3:
                    al = _alts(f.node, e.id)
                    return bool(al) and all(is_iterated(v, depth + 1)
                                            for v, _ in al)
                return False
            rep.check(bool(rets) and all(
                is_iterated(r.value, in_loop=id(r) in loop_nodes)
                for r in rets),
                      rule, ctx.fkey(f, None, "returns-iterated"), f.loc(),
                      "returns the iterated point",
                      "__getitem__ returns %s, not the iterated point" % [
                          U(r.value) for r in rets], P13)
            # index compared with the enumerate counter
            continue
        if not isinstance(the_loop, ast.For):
            rep.undecided(rule, ctx.fkey(f, None, "membership-eq"), f.loc(),
                          "get_is_valid scans the recurrence in a "
                          "comprehension: its membership test and early "
                          "exits are not read by this rule", P13)
            continue
        probe = f.call_params[0]
        # membership: equality with the iterated point
        eqs = [c for c in walk_no_nested(the_loop) if isinstance(c, ast.Compare)
               and isinstance(c.ops[0], ast.Eq) and
               {U(c.left), U(c.comparators[0])} == {loopvar, probe}]
        rep.check(bool(eqs), rule, ctx.fkey(f, None, "membership-eq"),
                  f.loc(), "membership is equality with an iterated point",
                  "get_is_valid no longer tests `iterated == probe`", P13)
        # early exits: a `return False` inside the scan is justified only
        # by the direction __iter__ walks in - backwards from the end when
        # there is no start point (iterated < probe: all later ones are
        # earlier still), forwards otherwise (iterated > probe)
        from ..flow import path_conds as _pc
        sn = f.self_name

        def dnf(conds):
            """conjunction of (test, polarity) -> list of disjuncts, each a
            list of (atom, polarity); None when too wide"""
            def one(t, pol, depth=0):
                if isinstance(t, ast.UnaryOp) and isinstance(t.op, ast.Not):
                    return one(t.operand, not pol, depth)
                if isinstance(t, ast.Name) and depth < 3:
                    # a boolean temporary stands for its definition
                    from ..flow import single_def as _sd
                    v_ = _sd(f.node, t.id)
                    if isinstance(v_, (ast.Compare, ast.BoolOp,
                                       ast.UnaryOp)):
                        return one(v_, pol, depth + 1)
                if isinstance(t, ast.BoolOp):
                    parts = [one(v, pol, depth) for v in t.values]
                    if isinstance(t.op, ast.And) == pol:
                        out = [[]]
                        for ps in parts:
                            out = [a + b for a in out for b in ps]
                            if len(out) > 32:
                                raise OverflowError
                        return out
                    return [d for ps in parts for d in ps]
                return [[(t, pol)]]
            out = [[]]
            try:
                for t, pol in conds:
                    out = [a + b for a in out for b in one(t, pol)]
                    if len(out) > 32:
                        return None
            except OverflowError:
                return None
            return out

        def justified(disj):
            dirs, none = set(), {}
            for t, pol in disj:
                if not (isinstance(t, ast.Compare) and len(t.ops) == 1):
                    continue
                a, b = U(t.left), U(t.comparators[0])
                op = type(t.ops[0])
                if op in (ast.Is, ast.IsNot) and b == "None" and isinstance(
                        t.left, ast.Attribute) and U(t.left.value) == sn:
                    none[t.left.attr] = (op is ast.Is) == pol
                elif {a, b} == {loopvar, probe} and op in (
                        ast.Lt, ast.Gt, ast.LtE, ast.GtE):
                    if not pol:
                        op = {ast.Lt: ast.GtE, ast.Gt: ast.LtE,
                              ast.LtE: ast.Gt, ast.GtE: ast.Lt}[op]
                    if a == probe:
                        op = {ast.Lt: ast.Gt, ast.Gt: ast.Lt,
                              ast.LtE: ast.GtE, ast.GtE: ast.LtE}[op]
                    dirs.add(op)
            if ast.Lt in dirs and none.get("_start_point") is True:
                return True
            if ast.Gt in dirs and (none.get("_end_point") is True or
                                   none.get("_start_point") is False):
                return True
            return False
        n_exits = 0
        for r in ast.walk(the_loop):
            if not (isinstance(r, ast.Return) and U(r.value) == "False"):
                continue
            n_exits += 1
            conds = _pc(r, stop=the_loop)
            ds = dnf(conds)
            txt = " and ".join(("" if pol else "not ") + "(%s)" % U(t)
                               for t, pol in conds)[:120]
            inner = U(conds[0][0]) if conds else ""
            slot = "_start_point" if "_start_point" in inner else (
                "_end_point" if "_end_point" in inner else "other")
            key = ctx.fkey(f, None, "early-exit:" + slot)
            if ds is None:
                rep.undecided(rule, key, f.loc(r), "the condition of the "
                              "early exit is too wide to be read", P13)
                continue
            bad = [d for d in ds if not justified(d)]
            rep.check(
                not bad, rule, key, f.loc(r),
                "the scan gives up only where the direction of iteration "
                "puts every later point further from the probe",
                "get_is_valid returns False from inside the scan under "
                "`%s`, which holds e.g. when only `%s` does: a scan may "
                "give up only on iterated < probe when there is no start "
                "point (iteration walks backwards from the end) and on "
                "iterated > probe when there is no end point (it walks "
                "forwards); otherwise members further on are never "
                "reached and are reported as not valid" % (
                    txt, " and ".join(("" if pol else "not ") + U(t)
                                      for t, pol in (bad[0] if bad else []))
                    [:100]), P13)
        # an unbounded series must have its exit, or the scan never ends
        if not n_exits:
            rep.undecided(rule, ctx.fkey(f, None, "early-exit"), f.loc(),
                          "get_is_valid has no early exit inside its scan "
                          "(an unbounded recurrence is then scanned for "
                          "ever): not decided here", P13)

RULES = {"R18": r18_rec_state, "R19": r19_rec_bounds}
