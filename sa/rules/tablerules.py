"""R23 TABLE-RW, R24 FORM-SHAPES, R25 ARG-FLOW, R31 REGEX-SAFE (C07, C08, C09,
C17)."""
import ast
import re

from ..fdai import Engine, Plugin, freeze, thaw
from ..fold import NotConst, Regex
from ..model import AnalysisError, U, walk_no_nested, parent
from ..tables import INF as INF_
from ..tables import (Tables, shape_of, shapes_intersect, star_height,
                      group_literal_items, INF, DIGITS)

PLACEHOLDER = re.compile(r"%\((\w+)\)(0?)(\d*)([ds])")

# token -> field oracle, transcribed from the README syntax tables (the only
# hand-written oracle of the table rules)
DATE_TOKENS = [("CC", "century"), ("YY", "year_of_century"),
               ("MM", "month_of_year"), ("DDD", "day_of_year"),
               ("DD", "day_of_month"), ("Www", "week_of_year"),
               ("D", "day_of_week"), ("z", "year_of_decade"),
               ("X", "expanded_year")]
TIME_TOKENS = [("hh", "hour_of_day"), ("mm", "minute_of_hour"),
               ("ss", "second_of_minute"), (",ii", "hour_of_day_decimal"),
               (".ii", "hour_of_day_decimal"),
               (",nn", "minute_of_hour_decimal"),
               (".nn", "minute_of_hour_decimal"),
               (",tt", "second_of_minute_decimal"),
               (".tt", "second_of_minute_decimal")]
ZONE_TOKENS = [("hh", "time_zone_hour"), ("mm", "time_zone_minute"),
               ("Z", "time_zone_utc")]
TOKEN_LETTERS = set("CYMDwhmsintXz")


def oracle_fields(expr, kind):
    """Fields an expression spells, by the README's token tables."""
    fields = set()
    rest = expr
    if kind == "date":
        if rest.startswith("+"):
            fields.add("year_sign")
            rest = rest[1:]
        if rest.startswith("-"):
            fields.add("truncated")
            rest = rest.lstrip("-") if rest.lstrip("-") != rest else rest
        toks = DATE_TOKENS
    elif kind == "time":
        if rest.startswith("-"):
            fields.add("truncated")
        toks = TIME_TOKENS
    else:
        if rest.startswith("+"):
            fields.add("time_zone_sign")
            rest = rest[1:]
        toks = ZONE_TOKENS
    i = 0
    leftovers = []
    while i < len(rest):
        for tok, fld in sorted(toks, key=lambda t: -len(t[0])):
            if rest.startswith(tok, i):
                fields.add(fld)
                i += len(tok)
                break
        else:
            if rest[i] in TOKEN_LETTERS:
                leftovers.append(rest[i])
            i += 1
    return fields, leftovers


def tables_of(ctx):
    if "tables" not in ctx.cache:
        ctx.cache["tables"] = Tables(ctx)
    return ctx.cache["tables"]


# ------------------------------------------------------------------- R23
def _digit_width(sub_items):
    """Width of a capture that is a run of single [0-9] classes, or '+' for
    [0-9]+, or None."""
    from ..tables import sre_c, _charset
    w = 0
    for op, av in sub_items:
        if op in (sre_c.MAX_REPEAT, sre_c.MIN_REPEAT):
            lo, hi, sub = av
            if len(sub) == 1 and _charset(sub[0]) == DIGITS and lo == 1 \
                    and hi == sre_c.MAXREPEAT and len(sub_items) == 1:
                return "+"
            if len(sub) == 1 and _charset(sub[0]) == DIGITS and lo == hi:
                w += lo
                continue
            return None
        cs = _charset((op, av))
        if cs == DIGITS:
            w += 1
        else:
            return None
    return w


def r23_table_rw(ctx):
    rep = ctx.rep
    rule = "R23.row"
    T = tables_of(ctx)
    tp = ctx.model.cls("TimePoint")
    init = tp.methods["__init__"]
    ctor_params = set(init.call_params)
    readable = {n for n, f in tp.methods.items() if f.is_property}
    rep.need_anchor(rule, "translate rows")
    P = ("C07", "C08", "C17")
    tabs = [("date", T.date_info(n), n) for n in (0, 1, 2, 3)] + [
        ("time", T.time_info(), None), ("zone", T.zone_info(), None)]
    for nm in ("_DATE_TRANSLATE_INFO", "_TIME_TRANSLATE_INFO",
               "_TIME_ZONE_TRANSLATE_INFO"):
        rep.tables.add("parser_spec." + nm)
    produced = {}
    seen_rows = set()
    for kind, rows, n in tabs:
        for row in rows:
            if len(row) != 4:
                rep.violation(rule, ctx.mkey("parser_spec", "row:%r" % (row,)),
                              "parser_spec.py", "translate row %r does not "
                              "have 4 columns" % (row,), P)
                continue
            token_re, capture, fmt, prop = row
            rk = (kind, token_re, capture, fmt, prop)
            if rk in seen_rows:
                continue
            seen_rows.add(rk)
            rep.anchor(rule, "translate rows")
            key = ctx.mkey("parser_spec", "%s-row:%s" % (kind, token_re))
            site = "parser_spec.py"
            problems = []
            try:
                items = group_literal_items(capture)
                re.compile(token_re)
            except re.error as exc:
                rep.violation(rule, key, site, "row %r: regex does not "
                              "compile: %s" % (token_re, exc), P)
                continue
            groups = [(g, sub) for k, g, *sub in [
                (i[0], i[1], i[2] if len(i) > 2 else None) for i in items]
                if k == "group"]
            lits = "".join(i[1] for i in items if i[0] == "lit")
            phs = PLACEHOLDER.findall(fmt)
            if len(groups) > 1:
                problems.append("capture has %d named groups" % len(groups))
            if len(phs) > 1:
                problems.append("format has %d placeholders" % len(phs))
            if groups:
                produced.setdefault(groups[0][0], []).append((kind, token_re))
            if not phs:
                if prop is not None:
                    problems.append("property %r but no placeholder" % prop)
                if fmt != _unescape_literal(capture, items):
                    pass
            else:
                pname, zero, width, conv = phs[0]
                if prop != pname:
                    problems.append(
                        "placeholder %%(%s) but property column %r: the "
                        "dumper formats with {property: value}, so this is a "
                        "KeyError for every use of the token" % (pname, prop))
                if prop is not None and prop not in readable:
                    problems.append("property %r is not a readable "
                                    "attribute of TimePoint" % prop)
                if groups:
                    w = _digit_width(groups[0][1][0]) if groups[0][1] \
                        else None
                    if w == "+":
                        if conv != "s":
                            problems.append("capture [0-9]+ but format "
                                            "%%%s%s%s" % (zero, width, conv))
                    elif isinstance(w, int):
                        if not (conv == "d" and zero == "0" and
                                width == str(w)):
                            problems.append(
                                "capture reads exactly %d digit(s) but the "
                                "format writes %%%s%s%s: the reader cannot "
                                "re-read what the writer prints" % (
                                    w, zero, width, conv))
                    elif conv == "d":
                        problems.append("capture width not recognised")
                # literal prefix of the capture regex equals that of the
                # format (e.g. 'W')
                fl = PLACEHOLDER.sub("", fmt)
                if fl.replace("\\", "") != lits.replace("\\", ""):
                    problems.append("literal text %r in the format vs %r in "
                                    "the capture regex" % (fl, lits))
            rep.check(not problems, rule, key, site,
                      "%s row %s: group, width, placeholder and property "
                      "agree" % (kind, token_re),
                      "%s row %s: %s" % (kind, token_re, "; ".join(problems)),
                      P)
    # (d) producer subset consumer -------------------------------------------
    rule = "R23.producer-consumer"
    rep.need_anchor(rule, "producible keys")
    cf = ctx.func("parsers.TimePointParser._create_timepoint_from_info")
    zf = ctx.func("parsers.TimePointParser.process_time_zone_info")
    removed = set()
    from ..flow import path_conds as _pc
    for f in (cf, zf):
        for n in walk_no_nested(f.node):
            keys_ = []
            if isinstance(n, ast.Call) and isinstance(
                    n.func, ast.Attribute) and n.func.attr == "pop" and \
                    n.args:
                keys_.append(n.args[0])
            elif isinstance(n, ast.Delete):
                keys_ += [t.slice for t in n.targets
                          if isinstance(t, ast.Subscript)]
            for a in keys_:
                if isinstance(a, ast.Constant) and isinstance(a.value, str):
                    removed.add(a.value)
                elif isinstance(a, ast.Name):
                    # pop(key) / del m[key] where `key == "const"` holds
                    for t, pol in _pc(n):
                        if not pol:
                            continue
                        for c in ast.walk(t):
                            if isinstance(c, ast.Compare) and len(
                                    c.ops) == 1 and isinstance(
                                        c.ops[0], ast.Eq) and \
                                    U(c.left) == a.id and isinstance(
                                        c.comparators[0], ast.Constant):
                                removed.add(c.comparators[0].value)
    # keys re-added as constructor keywords
    is_year_list = None
    tested = {U(g.test) for g in walk_no_nested(cf.node)
              if isinstance(g, ast.If) and isinstance(g.test, ast.Name)}
    cands = []
    for n in walk_no_nested(cf.node):
        if isinstance(n, ast.For) and any(
                isinstance(x, ast.Assign) and isinstance(
                    x.targets[0], ast.Name) and U(x.value) == "True" and
                x.targets[0].id in tested for x in ast.walk(n)):
            cands.append(n.iter)
        elif isinstance(n, ast.Assign) and isinstance(
                n.targets[0], ast.Name) and n.targets[0].id in tested:
            for c in ast.walk(n.value):
                for g in getattr(c, "generators", ()):
                    cands.append(g.iter)
    # unrolled form: `if info.get("key") is not None: present = True`
    from ..flow import path_conds
    direct = set()
    for n in walk_no_nested(cf.node):
        if isinstance(n, ast.Assign) and isinstance(
                n.targets[0], ast.Name) and U(n.value) == "True" and \
                n.targets[0].id in tested:
            for t, pol in path_conds(n):
                for c in ast.walk(t):
                    if isinstance(c, ast.Call) and isinstance(
                            c.func, ast.Attribute) and c.func.attr == "get" \
                            and c.args and isinstance(
                                c.args[0], ast.Constant) and isinstance(
                                    c.args[0].value, str) and \
                            c.args[0].value != "truncated":
                        direct.add(c.args[0].value)
    if direct:
        is_year_list = direct
    for it in cands:
        try:
            vals = ctx.folder.fold(it, cf.module, cf.cls, {})
        except NotConst:
            continue
        if isinstance(vals, (list, tuple, set, frozenset)) and vals and all(
                isinstance(v, str) for v in vals):
            is_year_list = set(vals)
    P7 = ("C07", "C09", "C20")
    for g in sorted(produced):
        rep.anchor(rule, "producible keys")
        key = ctx.mkey("parsers", "key:" + g)
        ok = g in ctor_params or g in removed
        rep.check(ok, rule, key, "parsers.py",
                  "captured key %r %s" % (g, "is a TimePoint keyword" if g in
                                          ctor_params else "is consumed "
                                          "before the constructor call"),
                  "the tables can capture %r (rows %s) but it is neither a "
                  "TimePoint constructor keyword nor removed/combined "
                  "before TimePoint(**info): every input of that form "
                  "raises TypeError" % (g, produced[g][:3]), P7)
    if is_year_list is None:
        rep.error("R23", "_create_timepoint_from_info: year-presence key "
                  "list not found")
    else:
        year_parts = {g for g in produced if g in removed and g in (
            "century", "year_of_century", "year_of_decade", "expanded_year",
            "year_sign")}
        missing = year_parts - is_year_list
        rep.check(not missing, rule,
                  ctx.fkey(cf, None, "year-presence-list"), cf.loc(),
                  "every year-part key the tables can produce is in the "
                  "year-presence list",
                  "year-part key(s) %s can be captured but are missing from "
                  "the `is_year_present` key list: for a truncated input "
                  "carrying only that part the year assembly is skipped and "
                  "the raw key reaches the constructor" % sorted(missing), P7)
    # (e) same rows for reader and writer
    rule = "R23.same-source"
    res = ctx.res
    gen = ctx.func("parsers.TimePointParser._generate_regexes")
    dinit = ctx.func("dumpers.TimePointDumper.__init__")
    getters = {"get_date_translate_info", "get_time_translate_info",
               "get_time_zone_translate_info"}
    reach_p = {q.split(".")[-1] for q in res.reachable([gen.qual])}
    reach_d = {q.split(".")[-1] for q in res.reachable([dinit.qual])}
    rep.check(getters <= reach_p and getters <= reach_d, rule,
              "package:translate-info-source", "-",
              "parser regexes and dumper templates are built from the same "
              "three get_*_translate_info functions",
              "parser reaches %s, dumper reaches %s: reader and writer no "
              "longer share their rows" % (sorted(getters & reach_p),
                                           sorted(getters & reach_d)),
              ("C07", "C08"))
    for q in ("parsers.TimePointParser.parse_date_expression_to_regex",
              "parsers.TimePointParser.parse_time_expression_to_regex",
              "parsers.TimePointParser.parse_time_zone_expression_to_regex"):
        try:
            T.check_substitution_shape(q)
        except AnalysisError as exc:
            rep.error("R23", str(exc))
    # (f) PARSE_PROPERTY_TRANSLATORS
    rule = "R23.translators"
    try:
        tr = ctx.folder.module_const("data", "PARSE_PROPERTY_TRANSLATORS")
    except NotConst as exc:
        raise AnalysisError("PARSE_PROPERTY_TRANSLATORS: %s" % exc)
    strf = T.const("STRFTIME_TRANSLATE_INFO")
    rep.tables.add("parser_spec.STRFTIME_TRANSLATE_INFO")
    tuple_groups = set()
    for k, v in strf.items():
        if isinstance(v, tuple) and len(v) == 3:
            try:
                _, gs = shape_of(v[0])
            except (ValueError, re.error):
                gs = re.findall(r"\(\?P<(\w+)>", v[0])
            tuple_groups |= set(gs)
    slots = [s[1:] for s in ctx.folder.need_class_const(tp, "__slots__")]
    produced_kw = (set(slots) - {"time_zone"}) | {"time_zone_hour",
                                                  "time_zone_minute"}
    rep.check(set(tr) <= tuple_groups and produced_kw <= ctor_params, rule,
              ctx.mkey("data", "PARSE_PROPERTY_TRANSLATORS"), "data.py",
              "translator keys %s are producible by a strptime directive "
              "and the translator's keys are constructor keywords" %
              sorted(tr),
              "PARSE_PROPERTY_TRANSLATORS keys %s vs directive groups %s; "
              "keywords not accepted by TimePoint: %s" % (
                  sorted(tr), sorted(tuple_groups),
                  sorted(produced_kw - ctor_params)), ("C17",))


def _unescape_literal(capture, items):
    return "".join(i[1] for i in items if i[0] == "lit")


def _ancestors_if(node):
    p = parent(node)
    while p is not None and not isinstance(p, ast.FunctionDef):
        if isinstance(p, ast.If):
            yield p
        p = parent(p)


# ------------------------------------------------------------------- R24
def _forms(T, n):
    """{kind: [(format, type, expr, regex, shape, groups)]} for one value of
    num_expanded_year_digits."""
    out = {"date": [], "time": [], "zone": []}
    dmap = T.const("DATE_EXPRESSIONS")
    tmap = T.const("TIME_EXPRESSIONS")
    zmap = T.const("TIME_ZONE_EXPRESSIONS")
    drows, trows, zrows = T.date_info(n), T.time_info(), T.zone_info()
    for fmt in dmap:
        for typ in dmap[fmt]:
            for e in T.expressions(dmap[fmt][typ]):
                out["date"].append((fmt, typ, e, T.to_regex(e, drows)))
    for fmt in tmap:
        for typ in tmap[fmt]:
            for e in T.expressions(tmap[fmt][typ]):
                out["time"].append((fmt, typ, e, T.to_regex(e, trows)))
    for fmt in zmap:
        for e in T.expressions(zmap[fmt]):
            out["zone"].append((fmt, None, e, T.to_regex(e, zrows)))
    return out


def r24_form_shapes(ctx):
    rep = ctx.rep
    T = tables_of(ctx)
    T.check_get_expressions_shape()
    for nm in ("DATE_EXPRESSIONS", "TIME_EXPRESSIONS",
               "TIME_ZONE_EXPRESSIONS"):
        rep.tables.add("parser_spec." + nm)
    P7 = ("C07",)
    tier = ctx.cache.get("tier", "quick")
    ns = (0, 1, 2, 3) if tier == "quick" else (0, 1, 2, 3, 4, 5, 6)
    rule = "R24.tokenise"
    rep.need_anchor(rule, "expression forms")
    shapes = {}
    for n in ns:
        forms = _forms(T, n)
        for kind in ("date", "time", "zone"):
            for fmt, typ, expr, rx in forms[kind]:
                key = ctx.mkey("parser_spec", "%s:%s:%s:%s" % (
                    kind, fmt, typ, expr))
                try:
                    items, groups = shape_of(rx)
                    re.compile(rx)
                except (ValueError, re.error) as exc:
                    rep.violation(rule, key + ":n=%d" % n, "parser_spec.py",
                                  "form %r folds to %r which is outside the "
                                  "analysable shape class or does not "
                                  "compile: %s" % (expr, rx, exc), P7)
                    continue
                shapes[(n, kind, fmt, typ, expr)] = (items, set(groups), rx)
                if n != ns[0] and "X" not in expr:
                    continue
                rep.anchor(rule, "expression forms")
                want, _left = oracle_fields(expr, kind)
                lit_letters = {next(iter(cs)) for cs, lo, hi, g in items
                               if g is None and cs is not None and
                               len(cs) == 1 and next(iter(cs)).isalpha()}
                # literal letters allowed: the week designator W
                stray = lit_letters - {"W"}
                got = set(groups)
                problems = []
                if stray:
                    problems.append("token letter(s) %s survive the "
                                    "substitution as literal text" %
                                    sorted(stray))
                if got != want:
                    problems.append("captures %s, the documented tokens "
                                    "spell %s" % (sorted(got), sorted(want)))
                # a decimal fraction is any number of digits (the property
                # quantifies over 1 to 9; the dumper writes up to 6 but
                # other writers more)
                for cs, lo, hi, g in items:
                    if g is not None and g.endswith("_decimal") and (
                            lo > 1 or hi < 9):
                        problems.append(
                            "the fraction group %s takes %s..%s digits: a "
                            "decimal fraction of up to nine digits (and "
                            "more) is documented" % (
                                g, lo, "unbounded" if hi >= INF_ else hi))
                rep.check(not problems, rule, key + (
                    ":n=%d" % n if "X" in expr else ""), "parser_spec.py",
                    "%s form %s tokenises completely into %s" % (
                        kind, expr, sorted(want)),
                    "%s form %r (-> %s): %s" % (kind, expr, rx,
                                                "; ".join(problems)), P7)
    # (b) no shadowing in the real search orders ------------------------------
    rule = "R24.shadow"
    rep.need_anchor(rule, "search lists")
    dmap = T.const("DATE_EXPRESSIONS")
    tmap = T.const("TIME_EXPRESSIONS")
    zmap = T.const("TIME_ZONE_EXPRESSIONS")
    _check_search_orders(ctx)
    reported = set()
    noted = set()

    def run_list(kind, lst, cfg, n):
        """lst: [(fmt, typ, expr)] in search order."""
        rep.anchor(rule, "search lists")
        for i in range(len(lst)):
            si = shapes.get((n, kind) + lst[i])
            if si is None:
                continue
            for j in range(i + 1, len(lst)):
                sj = shapes.get((n, kind) + lst[j])
                if sj is None:
                    continue
                if si[1] == sj[1] and _same_layout(si[0], sj[0]):
                    continue
                if not shapes_intersect(si[0], sj[0]):
                    continue
                early, late = lst[i], lst[j]
                k = (kind, early, late)
                if early[1] == "truncated" and late[1] != "truncated" or (
                        late[1] == "truncated" and early[1] != "truncated"):
                    if k not in noted:
                        noted.add(k)
                        rep.note(rule, "%s form %s (%s) overlaps %s (%s) "
                                 "when truncated forms are enabled (n=%d): "
                                 "inherent to ISO 8601:2000 truncation" % (
                                     kind, early[2], early[1], late[2],
                                     late[1], n), P7)
                    continue
                if k in reported:
                    continue
                reported.add(k)
                rep.violation(
                    rule, ctx.mkey("parser_spec", "%s:%s<%s" % (
                        kind, early[2], late[2])), "parser_spec.py",
                    "%s form %r (%s/%s) is searched before %r (%s/%s) and "
                    "their shapes overlap (%s, n=%d) but they decode to "
                    "different fields %s vs %s: some inputs of the later "
                    "form are decoded as the earlier one" % (
                        kind, early[2], early[0], early[1], late[2], late[0],
                        late[1], cfg, n, sorted(si[1]), sorted(sj[1])), P7)
    fmts_all = list(dmap)
    nconf = 0
    for n in ns:
        for only_basic in (False, True):
            fkeys = ["basic"] if only_basic else fmts_all
            for trunc in (False, True):
                for bad_types in ([], ["reduced"]):
                    types = [t for t in ["complete", "truncated", "reduced"]
                             if t not in bad_types and
                             (trunc or t != "truncated")]
                    lst = []
                    for fk in fkeys:
                        for t in types:
                            for e in T.expressions(dmap[fk].get(t, "")):
                                lst.append((fk, t, e))
                    run_list("date", lst, "only_basic=%s truncated=%s "
                             "bad_types=%s" % (only_basic, trunc, bad_types),
                             n)
                    nconf += 1
        for bad_formats in ([], ["basic"], ["extended"]):
            for bad_types in ([], ["truncated"]):
                lst = []
                for fk in tmap:
                    if fk in bad_formats:
                        continue
                    for t in tmap[fk]:
                        if t in bad_types:
                            continue
                        for e in T.expressions(tmap[fk][t]):
                            lst.append((fk, t, e))
                run_list("time", lst, "bad_formats=%s bad_types=%s" % (
                    bad_formats, bad_types), n)
                nconf += 1
            lst = []
            for fk in zmap:
                if fk in bad_formats:
                    continue
                for e in T.expressions(zmap[fk]):
                    lst.append((fk, None, e))
            run_list("zone", lst, "bad_formats=%s" % bad_formats, n)
            nconf += 1
        if n == ns[0]:
            pass
    rep.ok(rule, "parser_spec:search-orders", "-",
           "%d search lists (expanded digits %s x basic-only x truncation x "
           "excluded types/formats): no earlier form shadows a later one "
           "that decodes differently" % (nconf, list(ns)), P7)
    ctx.cache.setdefault("extra:C07", {})["configurations"] = nconf
    # (c) basic forms and the basic-only switch ------------------------------
    rule = "R24.basic"
    gen = ctx.func("parsers.TimePointParser._generate_regexes")
    ok_switch = False
    from ..flow import alternatives as _alts_b
    for l in walk_no_nested(gen.node):
        # the loop over the format keys: under allow_only_basic its list is
        # exactly ('basic',), whichever way the choice is written
        if not (isinstance(l, ast.For) and isinstance(l.iter, ast.Name)):
            continue
        alts = _alts_b(gen.node, l.iter.id)
        if not alts or not all(isinstance(v, (ast.List, ast.Tuple)) and all(
                isinstance(e, ast.Constant) for e in v.elts)
                for v, _ in alts):
            continue
        under_basic = []
        for v, conds in alts:
            for t, pol in conds:
                tt, pl = t, pol
                while isinstance(tt, ast.UnaryOp) and isinstance(
                        tt.op, ast.Not):
                    tt, pl = tt.operand, not pl
                if U(tt).endswith("allow_only_basic") and pl:
                    under_basic.append([e.value for e in v.elts])
        if under_basic and all(x == ["basic"] for x in under_basic):
            ok_switch = True
    rep.check(ok_switch, rule, ctx.fkey(gen, None, "only-basic"), gen.loc(),
              "with allow_only_basic the regex maps are built from the "
              "'basic' key only",
              "allow_only_basic no longer restricts the compiled forms to "
              "the 'basic' tables", P7)
    bad = []
    for e in [x for t in tmap.get("basic", {}).values()
              for x in T.expressions(t)] + T.expressions(
                  zmap.get("basic", "")):
        if ":" in e:
            bad.append(e)
    for t, text in dmap.get("basic", {}).items():
        for e in T.expressions(text):
            core = e.lstrip("+-")
            if "-" in core and t != "truncated" and not re.fullmatch(
                    r"X?CCYY-MM", core):
                bad.append(e)
    rep.check(not bad, rule, ctx.mkey("parser_spec", "basic-forms"),
              "parser_spec.py", "basic forms carry no extended punctuation "
              "(apart from the documented CCYY-MM deviation)",
              "basic table contains extended-looking form(s) %s" % bad, P7)
    # (d) writer subset reader ----------------------------------------------
    rule = "R24.dump-format"
    rep.need_anchor(rule, "default dump formats")
    tp = ctx.model.cls("TimePoint")
    f = tp.methods.get("_get_dump_format")
    if f is None:
        raise AnalysisError("TimePoint._get_dump_format not found")
    from .. import strabs
    outs = set()
    for sh in strabs.shapes(ctx, f):
        if not isinstance(sh, strabs.Str):
            rep.error("R24", "%s: a returned value (%r) is not a string "
                      "assembled from constants" % (f.qual, sh))
            continue
        text = repr(sh)
        # the year: "%0<width>d" not yet applied, or [+-]<year>
        text = re.sub(r"%0<[^>]*>d", "<year>", text)
        text = re.sub(r"[-+]?<year>", "<year>", text)
        if "<" in text.replace("<year>", ""):
            rep.error("R24", "%s: result %r contains a value other than "
                      "the year" % (f.qual, text))
            continue
        outs.add(text)
    ext_dates = set(T.expressions(dmap["extended"]["complete"]))
    ext_times = set(T.expressions(tmap["extended"]["complete"])) | set(
        T.expressions(tmap["extended"]["reduced"]))
    ext_zones = set(T.expressions(zmap["extended"]))
    if not outs:
        rep.error("R24", "_get_dump_format: no result strings enumerated")
    for s in sorted(outs):
        rep.anchor(rule, "default dump formats")
        key = ctx.fkey(f, None, "format:" + s)
        if "T" not in s:
            rep.violation(rule, key, f.loc(), "default dump format %r has "
                          "no time part" % s, ("C08",))
            continue
        d, t = s.split("T", 1)
        problems = []
        for year in ("CCYY", "+XCCYY"):
            de = d.replace("<year>", year)
            if de not in ext_dates:
                problems.append("date part %r is not an extended complete "
                                "date expression" % de)
        okt = False
        for z in sorted(ext_zones, key=len, reverse=True):
            if t.endswith(z) and t[:-len(z)] in ext_times:
                okt = True
        if not okt:
            problems.append("time/zone part %r is not <extended time "
                            "expression><extended zone expression>" % t)
        rep.check(not problems, rule, key, f.loc(),
                  "default format %s is a form the parser lists" % s,
                  "default dump format %r: %s: str(p) cannot be parsed "
                  "back" % (s, "; ".join(problems)), ("C08",))
    # year string width follows num_expanded_year_digits
    src = U(f.node)
    okw = "4 + self._num_expanded_year_digits" in src.replace(
        f.self_name + ".", "self.") or "_num_expanded_year_digits + 4" in src
    rep.check(okw, rule, ctx.fkey(f, None, "year-width"), f.loc(),
              "the year is written with 4 + num_expanded_year_digits "
              "digits, the width the parser is configured with",
              "_get_dump_format no longer pads the year to 4 + "
              "num_expanded_year_digits digits", ("C08",), nontrivial=False)


def _same_layout(a, b):
    if len(a) != len(b):
        return False
    return all(x[0] == y[0] and x[1:] == y[1:] for x, y in zip(a, b))


def _check_search_orders(ctx):
    """The orders assumed by R24(b) are read off the parser: type order in
    get_date_info, dict order of the tables elsewhere."""
    f = ctx.func("parsers.TimePointParser.get_date_info")
    order = None
    for n in walk_no_nested(f.node):
        if isinstance(n, ast.Assign) and isinstance(n.value, ast.List) and \
                isinstance(n.targets[0], ast.Name) and all(
                    isinstance(e, ast.Constant) and e.value in (
                        "complete", "truncated", "reduced")
                    for e in n.value.elts) and any(
                        isinstance(l, ast.For) and any(
                            isinstance(x, ast.Name) and
                            x.id == n.targets[0].id
                            for x in ast.walk(l.iter))
                        for l in walk_no_nested(f.node)):
            order = [e.value for e in n.value.elts
                     if isinstance(e, ast.Constant)]
    if order != ["complete", "truncated", "reduced"]:
        raise AnalysisError("get_date_info: type search order is %r (the "
                            "shadowing check assumes complete, truncated, "
                            "reduced)" % (order,))


class _StrPlugin(Plugin):
    """Enumerates the strings a function can return when it only
    concatenates constants; unknown pieces become the symbol <year>/<?>."""

    def __init__(self, f):
        self.f = f
        self.results = set()

    def eval(self, e, d):
        if e is None:
            return None
        if isinstance(e, ast.Constant):
            return e.value if isinstance(e.value, str) else ("?",)
        if isinstance(e, ast.Name):
            return d.get(e.id, ("?",))
        if isinstance(e, ast.BinOp) and isinstance(e.op, ast.Add):
            a, b = self.eval(e.left, d), self.eval(e.right, d)
            if isinstance(a, str) and isinstance(b, str):
                return a + b
            return ("?",)
        if isinstance(e, ast.BinOp) and isinstance(e.op, ast.Mod):
            a = self.eval(e.left, d)
            if isinstance(a, str):
                return "<year>"
            return ("?",)
        if isinstance(e, ast.Call) and U(e.func) == "str":
            return ("?",)
        return ("?",)

    def assign(self, t, v, d, st):
        if isinstance(t, ast.Name):
            if isinstance(v, str):
                d[t.id] = v
            elif "year" in t.id:
                d[t.id] = "<year>"
            else:
                d[t.id] = ("?",)

    def augassign(self, st, d):
        if isinstance(st.target, ast.Name) and isinstance(st.op, ast.Add):
            a = d.get(st.target.id, ("?",))
            b = self.eval(st.value, d)
            d[st.target.id] = a + b if isinstance(a, str) and isinstance(
                b, str) else ("?",)

    def refine(self, test, d):
        if isinstance(test, ast.Name):
            v = d.get(test.id)
            if isinstance(v, str):
                return ([d], []) if v else ([], [d])
        return [d], [dict(d)]

    def on_return(self, st, d, v):
        if isinstance(v, str):
            self.results.add(v)
        else:
            self.results.add("<?>")


def enumerate_strings(ctx, f):
    p = _StrPlugin(f)
    Engine(p).run(f.node.body, {freeze({})})
    out = set()
    for s in p.results:
        # collapse "+<year>" / "-<year>" (sign of an expanded year)
        s = s.replace("-<year>", "<year>").replace("+<year>", "<year>")
        out.add(s)
    if "<?>" in out:
        raise AnalysisError("%s: a returned string is not a concatenation "
                            "of constants" % f.qual)
    return out


# ------------------------------------------------------------------- R25
def _filter_roles(g):
    """Which parameter of a form-lookup function restricts the *format*
    (basic/extended: the key of the outer map) and which the *type*
    (complete/reduced/truncated: the key of the inner map), and with which
    polarity: {"format": (param, "exclude"|"include"), "type": ...}.  Read
    off the loops: a parameter tested for membership of a loop key excludes
    (``if key in p: continue``) or includes; a parameter that is itself
    iterated to subscript the map includes."""
    roles = {}
    params = set(g.call_params)
    loops = [n for n in walk_no_nested(g.node) if isinstance(n, ast.For)]

    def depth(n):
        d = 0
        q = parent(n)
        while q is not None and q is not g.node:
            if isinstance(q, ast.For):
                d += 1
            q = parent(q)
        return d

    def key_var(lp):
        t = lp.target
        if isinstance(t, ast.Tuple) and t.elts and isinstance(
                t.elts[0], ast.Name) and U(lp.iter).endswith(".items()"):
            return t.elts[0].id
        if isinstance(t, ast.Name):
            return t.id
        return None
    for lp in loops:
        kv = key_var(lp)
        if kv is None:
            continue
        it = lp.iter
        over_self_map = "self." in U(it) and "_map" in U(it)
        d = depth(lp)
        role = None
        if over_self_map and d == 0:
            role = "format"
        elif d == 1 and not over_self_map:
            role = "type"
        if isinstance(it, ast.Name) and it.id in params:
            # the parameter is iterated: inclusion list for the key it
            # then subscripts
            subs = any(isinstance(x, ast.Subscript) and isinstance(
                x.slice, ast.Name) and x.slice.id == kv
                for x in ast.walk(lp))
            if subs:
                r_ = "format" if d == 0 else "type"
                roles.setdefault(r_, (it.id, "include"))
            continue
        if role is None:
            continue
        for n in ast.walk(lp):
            if isinstance(n, ast.Compare) and len(n.ops) == 1 and isinstance(
                    n.ops[0], (ast.In, ast.NotIn)) and isinstance(
                        n.left, ast.Name) and n.left.id == kv and isinstance(
                            n.comparators[0], ast.Name) and \
                    n.comparators[0].id in params:
                par_if = parent(n)
                pol = "exclude"
                if isinstance(par_if, ast.If) and par_if.test is n:
                    leaves = bool(par_if.body) and isinstance(
                        par_if.body[-1], ast.Continue)
                    is_in = isinstance(n.ops[0], ast.In)
                    pol = "exclude" if (is_in == leaves) else "include"
                roles.setdefault(role, (n.comparators[0].id, pol))
    return roles


def r25_arg_flow(ctx):
    rep = ctx.rep
    rule = "R25.restriction-flow"
    f = ctx.func("parsers.TimePointParser.get_info")
    rep.need_anchor(rule, "sibling matcher calls")
    cls = f.cls
    roles = {}
    for nm in ("get_time_info", "get_time_zone_info"):
        g = cls.methods.get(nm) if cls is not None else None
        roles[nm] = _filter_roles(g) if g is not None else {}
    # the restriction variables: what the time matcher receives in the
    # format-filter / type-filter role
    var_of = {}
    calls = [n for n in walk_no_nested(f.node)
             if isinstance(n, ast.Call) and isinstance(n.func, ast.Attribute)
             and n.func.attr in roles]
    for n in calls:
        b = ctx.bound_args(f, n)
        for role, (par, _pol) in roles[n.func.attr].items():
            v = b.get(par)
            if isinstance(v, ast.Name):
                var_of.setdefault(role, v.id)
    fmt_pol = {pl for r_ in roles.values() for k_, (_p, pl) in r_.items()
               if k_ == "format"}
    if not all("format" in roles[nm] for nm in roles) or len(fmt_pol) != 1:
        rep.anchor(rule, "sibling matcher calls")
        rep.undecided(rule, ctx.fkey(f, None, "bad-formats"), f.loc(),
                      "the time / zone matchers do not both take a format "
                      "restriction this rule can read off their loops "
                      "(roles found: %s)" % roles, ("C07",))
        return
    fmt_pol = fmt_pol.pop()
    for n in calls:
        rep.anchor(rule, "sibling matcher calls")
        b = ctx.bound_args(f, n)
        need = ["format"] + (["type"] if "type" in roles[n.func.attr]
                             else [])
        missing = []
        for role in need:
            par = roles[n.func.attr][role][0]
            if role not in var_of or U(b[par]) != var_of[role] \
                    if par in b else True:
                missing.append("%s (%s filter)" % (par, role))
        rep.check(not missing, rule, ctx.fkey(f, n, "restrictions"),
                  f.loc(n), "%s receives %s" % (n.func.attr, need),
                  "this %s call does not pass %s: a basic date could be "
                  "combined with an extended time/zone (or a truncated "
                  "time accepted after a full date)" % (
                      n.func.attr, missing), ("C07",))
    # the format restriction is derived from the date's format key and
    # lifted only for truncated dates
    from ..flow import alternatives
    alts = alternatives(f.node, var_of["format"]) \
        if "format" in var_of else None
    literal = bool(alts) and all(
        isinstance(v, (ast.List, ast.Tuple)) and all(
            isinstance(e, ast.Constant) for e in v.elts) for v, _ in alts)
    if not alts:
        rep.check(False, rule, ctx.fkey(f, None, "bad-formats"), f.loc(), "",
                  "get_info passes no format restriction variable to the "
                  "time matcher", ("C07",))
    elif not literal:
        rep.undecided(rule, ctx.fkey(f, None, "bad-formats"), f.loc(),
                      "the format restriction is computed (%s), not chosen "
                      "among literal lists: its dependence on the date's "
                      "format key is not read by this rule" % sorted(
                          {U(v)[:50] for v, _ in alts}), ("C07",))
    else:
        vals = {}
        for v, conds in alts:
            cond = None
            for t, pol in conds:
                if pol and isinstance(t, ast.Compare) and isinstance(
                        t.comparators[0], ast.Constant) and isinstance(
                            t.ops[0], ast.Eq):
                    cond = t.comparators[0].value
                    break
            vals[cond] = sorted(e.value for e in v.elts)
        both = ["basic", "extended"]
        if fmt_pol == "exclude":
            good = vals.get("basic") == ["extended"] and \
                vals.get("extended") == ["basic"] and all(
                    v != [] or c in (None, "truncated")
                    for c, v in vals.items())
        else:
            good = vals.get("basic") == ["basic"] and \
                vals.get("extended") == ["extended"] and all(
                    v != both or c in (None, "truncated")
                    for c, v in vals.items())
        rep.check(good, rule, ctx.fkey(f, None, "bad-formats"), f.loc(),
                  "a basic date excludes extended times/zones and vice "
                  "versa; the restriction is lifted only for truncated dates",
                  "the format restriction (%s list) takes the values %s" % (
                      fmt_pol, vals), ("C07",))


# ------------------------------------------------------------------- R31
def r31_regex_safe(ctx):
    rep = ctx.rep
    rule = "R31.regex-safe"
    T = tables_of(ctx)
    rep.need_anchor(rule, "compiled regexes")
    pats = []
    for clsname, attr in (("TimeRecurrenceParser", "RECURRENCE_REGEXES"),
                          ("DurationParser", "DURATION_REGEXES")):
        vals = ctx.folder.need_class_const(ctx.model.cls(clsname), attr)
        rep.tables.add("%s.%s" % (clsname, attr))
        for i, v in enumerate(vals):
            if isinstance(v, Regex):
                pats.append(("%s.%s[%d]" % (clsname, attr, i), v.pattern,
                             v.flags))
    for n in (0, 2):
        forms = _forms(T, n)
        for kind in forms:
            for fmt, typ, e, rx in forms[kind]:
                pats.append(("form %s %s" % (kind, e), rx, 0))
    strf = T.const("STRFTIME_TRANSLATE_INFO")
    for k, v in strf.items():
        if isinstance(v, tuple):
            pats.append(("strptime %s" % k, v[0], 0))
    for name in ("REC_SPLIT_STRFTIME_DIRECTIVE",
                 "REC_STRFTIME_DIRECTIVE_TOKEN"):
        v = T.const(name)
        if isinstance(v, Regex):
            pats.append((name, v.pattern, v.flags))
    seen = set()
    worst = 0
    for name, pat, flags in pats:
        if pat in seen:
            continue
        seen.add(pat)
        rep.anchor(rule, "compiled regexes")
        try:
            h = star_height(pat, flags)
        except re.error as exc:
            rep.violation(rule, ctx.mkey("parsers", "regex:" + name), "-",
                          "%s does not compile: %s" % (name, exc), ("C09",))
            continue
        worst = max(worst, h)
        if h > 1:
            rep.violation(rule, ctx.mkey("parsers", "regex:" + name), "-",
                          "%s nests an unbounded repeat inside an unbounded "
                          "repeat (%r): matching can take exponential time "
                          "on crafted input" % (name, pat), ("C09",))
    rep.ok(rule, "package:regexes", "-",
           "%d distinct regexes, maximum star height %d" % (len(seen), worst),
           ("C09",))
    for mod in ("parsers", "parser_spec"):
        m = ctx.model.modules[mod]
        whiles = [n for n in ast.walk(m.tree) if isinstance(n, ast.While)]
        rep.check(not whiles, rule, ctx.mkey(mod, "no-while"), mod + ".py",
                  "no while loop in %s (loops run over tables and split "
                  "results)" % mod,
                  "%s.py contains a while loop at line %s: termination on "
                  "arbitrary input is no longer evident" % (
                      mod, [w.lineno for w in whiles]), ("C09",),
                  nontrivial=False)


RULES = {"R23": r23_table_rw, "R24": r24_form_shapes, "R25": r25_arg_flow,
         "R31": r31_regex_safe}
